#!/bin/sh
# Build the conformance harness from files on disk only (offline): every engine crate in the release
# profile, plus the feature/profile variants the checks use, so that the checks themselves only do
# incremental (no-op) builds. Checks rebuild from /repo's working tree by themselves.
set -e
cd "$(dirname "$0")"
mkdir -p work evidence
export CARGO_NET_OFFLINE=true
cd harness
cargo build --release --offline --quiet --workspace
for d in */; do
  d=${d%/}
  [ -f "$d/Cargo.toml" ] || continue
  [ "$d" = common ] && continue
  if grep -q '^concurrent *=' "$d/Cargo.toml"; then
    cargo build --release --offline --quiet -p "wf-$d" --features concurrent
  fi
  if grep -q '^async *=' "$d/Cargo.toml"; then
    cargo build --release --offline --quiet -p "wf-$d" --no-default-features --features async
  fi
done
# dev profile (overflow checks + debug assertions on) for the panic-freedom checks
for d in merkle wire serde; do
  [ -f "$d/Cargo.toml" ] && cargo build --offline --quiet -p "wf-$d" || true
done
