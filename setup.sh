#!/bin/sh
# Build the conformance harness from files on disk only (offline). Checks rebuild incrementally.
set -e
cd "$(dirname "$0")"
mkdir -p work evidence
export CARGO_NET_OFFLINE=true
cd harness
cargo build --release --offline --quiet --workspace
