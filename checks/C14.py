"""C14 — batch field utilities agree with element-wise definitions.
spec/math/Batch.tla gives the element-wise meaning of batch_inversion (inverse or zero),
get_power_series(_with_offset), add_in_place, mul_acc and the pure index definitions of
group_slice_elements / flatten_slice_elements / flatten_vector_elements / transpose_slice.  TLC
enumerates every length 0..70 (batch_inversion with a single zero at EVERY position, all/no/alternating
zeros) and lengths around the points where the concurrent build splits the work (1024*k +- 1, n /
next_pow2(threads) boundaries, zeros at and around every batch boundary) and prints each case with its
complete expected output; the harness runs the real functions in the serial build and in the
concurrent build inside rayon pools of 1,2,3,4,7,8,16 threads."""
import json, os, collections
import vf

SPECDIR = os.path.join(vf.SPEC, "math")
THREADS = [1, 2, 3, 4, 7, 8, 16]

META = dict(
    technique="TLA+ element-wise / index definitions over toy prime fields and extensions; TLC enumerates lengths and zero patterns and computes complete expected outputs (Generate->Replay); real code replayed in the serial build and in the concurrent build under 7 rayon pool sizes",
    text="batch_inversion, get_power_series, get_power_series_with_offset, add_in_place, mul_acc (base*ext and ext*ext) and group/flatten/transpose are compared element by element with TLC-computed vectors for every length 0..70 and for lengths straddling every parallel batch boundary up to 16385 (quick) / 20000 (thorough), with zeros placed at and around every boundary for batch counts 2,4,8,16; the concurrent build must return the same vectors for 1,2,3,4,7,8,16 threads.",
    note="Toy fields stand in for production fields (generic code). The rayon scheduler is sampled; the partitioning design is model-checked in spec/math/Chunking.tla. Lengths above 20000 are not run.",
    design="7/C14")


def length_of(sc):
    if "n" in sc:
        return sc["n"]
    for k in ("v", "a", "src"):
        if k in sc:
            return len(sc[k])
    return -1


def replay_scenarios(ck, binary, name, scenarios, threads, label):
    wd = vf.workdir("c14")
    path = os.path.join(wd, "%s-%d.ndjson" % (name, os.getpid()))
    vf.write_ndjson(path, scenarios)
    args = ["batch", path] + ([",".join(str(t) for t in threads)] if threads else [])
    rc, out, err = vf.run_harness(binary, args, timeout=1800)
    if rc != 0:
        raise vf.ToolError("harness batch failed rc=%d: %s" % (rc, err[-2000:]))
    summary = None
    for ln in out.splitlines():
        d = json.loads(ln)
        if d.get("summary"):
            summary = d
            continue
        sc = scenarios[d["i"]]
        det = d["detail"]
        n = length_of(sc)
        cls = "n=0" if n == 0 else "%s,%s" % (label, "n<1024" if n < 1024 else "n>=1024")
        sig = "%s[%s] %s" % (det["call"], cls, det["what"])
        brief = {k: (v if len(json.dumps(v)) < 300 else "<%d values>" % len(v)) for k, v in sc.items()}
        ck.violation(sig, json.dumps({"build": label, "threads": d["threads"], "scenario": brief, "detail": det})[:1500],
                     {"engine": "batch", "build": label, "threads": d["threads"], "scenario": sc, "detail": det})
    if summary is None:
        raise vf.ToolError("harness produced no summary")
    os.unlink(path)
    ck.traces += summary["scenarios"] * summary["runs"]
    ck.evaluations += summary["calls"]
    ck.part("replay:" + label, scenarios=summary["scenarios"], runs=summary["runs"], calls=summary["calls"],
            mismatches=summary["mismatches"], concurrent_feature=summary["concurrent"], threads=summary["threads"])
    return summary


def design_level(ck, thorough):
    """spec/math/Chunking.tla: every interleaving of the chunk processes of batch_iter_mut! for the
    power-series and batch-inversion closures; the finished array must equal the element-wise one."""
    cfg = "MCChunking_batch_thorough.cfg" if thorough else "MCChunking_batch.cfg"
    r = vf.tlc("Chunking.tla", cfg, cwd=SPECDIR, workers=4, timeout=1800 if thorough else 300)
    ck.add_tlc("design:chunking", r)
    if not r.ok:
        raise vf.ToolError("design-level chunking model %s failed its own invariant (specification bug): %s" % (cfg, r.error))
    ck.require(r.distinct > 20000, "chunking model explored too few states: %d" % r.distinct)
    if thorough:
        # fill_power_series as found: the model reproduces the n = 0 out-of-bounds write (informational)
        r2 = vf.tlc("Chunking.tla", "MCChunking_found.cfg", cwd=SPECDIR, workers=1, timeout=300)
        ck.part("design:chunking-as-found", reproduces_n0_out_of_bounds=(not r2.ok and "InBounds" in (r2.error or "")),
                tlc_states=r2.distinct)


def run(ck, tier):
    thorough = tier == "thorough"
    serial = vf.build_harness("math")
    conc = vf.build_harness("math", variant="concurrent")
    design_level(ck, thorough)
    cfg = "GenBatch_thorough.cfg" if thorough else "GenBatch.cfg"
    r = vf.tlc("Batch.tla", cfg, cwd=SPECDIR, workers=4, timeout=3000 if thorough else 600,
               env={"SEED": ck.seed % 40009})
    if not r.ok:
        raise vf.ToolError("TLC failed on Batch.tla (specification bug): %s" % r.error)
    ck.add_tlc("gen", r)
    sc = r.tagged("REPLAY")
    ops = collections.Counter(s["op"] for s in sc)
    ck.require(ops["error"] == 0, "the specification's own cross-check failed")
    for op, least in (("inv", 5000), ("pow", 500), ("powo", 1000), ("arith", 400), ("shape", 80)):
        ck.require(ops[op] >= least, "too few %s cases: %d" % (op, ops[op]))
    lens = collections.Counter(length_of(s) for s in sc if s["op"] in ("inv", "pow", "powo", "arith"))
    ck.require(all(lens[n] > 0 for n in list(range(0, 71)) + [1023, 1024, 1025, 2048, 4096, 4097, 8192, 16384, 16385]),
               "a length is missing from the generated cases")
    pats = collections.Counter(s.get("pat") for s in sc if s["op"] == "inv")
    ck.require(all(pats[p] > 0 for p in ("none", "all", "one", "alt", "bnd", "first", "last", "rnd")), "zero patterns missing: %s" % dict(pats))
    ck.part("gen", ops=dict(ops), zero_patterns=dict(pats), distinct_lengths=len(lens), max_length=max(lens))
    shown = set()
    for s in sc:
        if s["op"] not in shown and 0 < len(json.dumps(s)) < 400 and length_of(s) >= 3:
            shown.add(s["op"])
            ck.sample(s, limit=8)
    s1 = replay_scenarios(ck, serial, "serial", sc, [], "serial")
    ck.require(s1["concurrent"] is False, "the serial binary was built with the concurrent feature")
    s2 = replay_scenarios(ck, conc, "concurrent", sc, THREADS, "concurrent")
    ck.require(s2["concurrent"] is True and s2["runs"] == len(THREADS), "the concurrent binary did not run all pools")
    if thorough:
        # debug assertions and overflow checks on (the configuration `cargo test` uses)
        replay_scenarios(ck, vf.build_harness("math", profile="dev"), "serial-dev", sc, [], "serial-dev")
        replay_scenarios(ck, vf.build_harness("math", variant="concurrent", profile="dev"), "concurrent-dev", sc, [3, 16], "concurrent-dev")
    ck.bounds = {"design": "Chunking.tla: all interleavings, n <= 16 (40 thorough), threads 1..16, scaled MinBatch",
                 "lengths": "0..70 (100 thorough) one by one; big lengths of %s; %d distinct lengths, max %d" % (cfg, len(lens), max(lens)),
                 "threads": THREADS, "fields": "F_257, F_257^2, F_257^3, F_40961, F_40961^2, F_40961^3"}
    ck.exhaustive = False
    ck.assumptions = ["toy field types implement FieldP.tla's arithmetic",
                      "the OS/rayon schedules met during the runs are a sample; the chunk partitioning design is model-checked in Chunking.tla",
                      "group/flatten/transpose are exercised with u32 payloads (the functions are generic over T and only move elements)"]


def replay(ck, path):
    obj = json.load(open(path))
    rp = obj["replay"]
    build = rp.get("build", "serial")
    profile = "dev" if build.endswith("-dev") else "release"
    if build.startswith("concurrent"):
        binary = vf.build_harness("math", variant="concurrent", profile=profile)
        replay_scenarios(ck, binary, "replay", [rp["scenario"]], [rp.get("threads") or 4], build)
    else:
        binary = vf.build_harness("math", profile=profile)
        replay_scenarios(ck, binary, "replay", [rp["scenario"]], [], build)
