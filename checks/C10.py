"""C10 — field and extension-field arithmetic is exact modular arithmetic; equality is canonical; every
operation terminates.

Record -> Validate (mechanisms B + D): harness/fields drives the real f64 / f62 / f128 base fields and
their quadratic and cubic extensions (8 field/degree combinations) through every public arithmetic
operation on boundary-biased operands, directed representation-class scenarios and random operation
chains, every call under a CPU-time watchdog in a killable child process.  spec/field/TraceFieldOps.tla
(+ FieldDefs.tla: the documented primes and irreducible polynomials) validates every event with TLC
against exact integer arithmetic; quotients and chain intermediates are untrusted witnesses checked by
equations with a unique solution.  A call that timed out / panicked / crashed has no accepting action.

Design level (mechanism E): spec/field/Goldilocks.tla and Mont62.tla — word-size-scaled transcriptions
of the f64 / f62 routines explored exhaustively by TLC (see run_scaled_models)."""
import json, os, re, collections, concurrent.futures, time
import vf

SPECDIR = os.path.join(vf.SPEC, "field")

META = dict(
    technique="TLC trace validation (TraceFieldOps.tla, BigNat witness checking) of operations recorded from the real field code under a watchdog; plus TLC-exhaustive word-size-scaled models of the f64/f62 routines (design level)",
    text="Every recorded call (new/from, add, sub, neg, double, square, cube, mul, mul_base, mul_small, inv, div, exp, conjugate/Frobenius, ==) on f64, f62, f128 and their quadratic/cubic extensions is checked by TLC against exact arithmetic modulo the documented prime and extension polynomial: products by the polynomial identity over the integers with one quotient witness per coordinate, inverses by a*inv=1 (inv(0)=0), exp and Frobenius by logged square-and-multiply chains, == against equality of canonical values; operands are boundary-biased (0, 1, p-k, (p+-1)/2, 2^32+-k, 2^63+-k, limb patterns, Montgomery-form bands, every representation of zero) and fed through 2-6 operation chains; a call that does not return is recorded by the watchdog and rejected.",
    note="The 2^64..2^384 operand spaces are sampled (boundary-biased, seeded), not exhausted; f128 has no scaled algorithm model; div/inv uniqueness relies on p prime and the polynomials irreducible (certified by C11); hints come from an untrusted Rust big-integer helper re-checked by TLC.",
    design="7/C10")

P = {"f64": 2**64 - 2**32 + 1, "f62": 2**62 - 111 * 2**39 + 1, "f128": 2**128 - 45 * 2**40 + 1}
RED = {("f64", 2): [-2, 1], ("f64", 3): [1, 1, 0], ("f62", 2): [1, 1], ("f62", 3): [-2, -2, 0], ("f128", 2): [1, 1]}
COMBOS = [("f64", 1), ("f64", 2), ("f64", 3), ("f62", 1), ("f62", 2), ("f62", 3), ("f128", 1), ("f128", 2)]
ALL_OPS = ["new", "add", "sub", "neg", "double", "square", "cube", "mul", "mul_base", "inv", "div", "exp", "conj", "eq"]


# ------------------------------------------------------------------------------------------------
# Python-side arithmetic: used ONLY to describe a rejected event (expected vs got) and to detect a
# broken witness/spec (TLC rejected an event that is arithmetically right => tool error, exit 2).
# It never turns a rejection into a pass.
# ------------------------------------------------------------------------------------------------
def val(b):
    return sum(x << (8 * i) for i, x in enumerate(b))


def vec(c):
    return [val(x) for x in c]


def emul(a, b, f, d):
    p = P[f]
    if d == 1:
        return [a[0] * b[0] % p]
    red = RED[(f, d)]
    c = [0] * (2 * d - 1)
    for i in range(d):
        for j in range(d):
            c[i + j] += a[i] * b[j]
    for k in range(2 * d - 2, d - 1, -1):
        t, c[k] = c[k], 0
        for i in range(d):
            c[k - d + i] += t * red[i]
    return [x % p for x in c[:d]]


def epow(a, e, f, d):
    r = [1] + [0] * (d - 1)
    for bit in bin(e)[2:] if e else "":
        r = emul(r, r, f, d)
        if bit == "1":
            r = emul(r, a, f, d)
    return r


def einv(a, f, d):
    if not any(a):
        return [0] * d
    return epow(a, P[f] ** d - 2, f, d)


def expected(e):
    """(what, expected_value) for an event that returned; None if the op is unknown."""
    f, d, op = e["f"], e["d"], e["op"]
    p = P[f]
    a = vec(e["a"]) if "a" in e else None
    b = vec(e["b"]) if "b" in e else None
    if op == "new":
        return [val(e["v"]) % p]
    if op == "from_mont":
        return [val(e["v"]) * pow(2**64, -1, p) % p]
    if op == "from":
        return [a[0]] + [0] * (d - 1)
    if op == "add":
        return [(x + y) % p for x, y in zip(a, b)]
    if op == "sub":
        return [(x - y) % p for x, y in zip(a, b)]
    if op == "neg":
        return [(-x) % p for x in a]
    if op == "double":
        return [2 * x % p for x in a]
    if op == "mul":
        return emul(a, b, f, d)
    if op == "square":
        return emul(a, a, f, d)
    if op == "cube":
        return emul(emul(a, a, f, d), a, f, d)
    if op in ("mul_base", "mul_small"):
        return [x * b[0] % p for x in a]
    if op == "inv":
        return einv(a, f, d)
    if op == "div":
        return emul(a, einv(b, f, d), f, d)
    if op == "exp":
        return epow(a, val(e["e"]), f, d)
    if op == "conj":
        return epow(a, p, f, d) if d > 1 else a
    if op == "eq":
        return 1 if a == b else 0
    return None


def label(e):
    return e["f"] if e["d"] == 1 else "%sx%d" % (e["f"], e["d"])


def noncanonical(e):
    p = P[e["f"]]
    return any(val(x) >= p for k in ("a", "b", "r") if k in e for x in e[k])


def signature(e):
    """Stable, specific class of a rejected event (reporting / known-finding matching only)."""
    fl, op = label(e), e["op"]
    opname = "==" if op == "eq" else op
    tag = " [%s]" % e["dir"] if e.get("dir") else ""
    if e.get("timeout"):
        zero_m = (op == "inv" and e.get("ca") == "zeroM") or (op == "div" and e.get("cb") == "zeroM")
        return "%s.%s timeout%s" % (fl, op, " on zero represented as M" if zero_m else " (operand classes %s/%s)" % (e.get("ca"), e.get("cb")))
    if e.get("crash"):
        return "%s.%s crash" % (fl, op)
    if e.get("panic"):
        return "%s.%s panic @%s" % (fl, op, e["panic"].split(": ")[0].replace("/repo/", ""))
    taint = e.get("ta") or e.get("tb")
    if taint:
        return "%s.%s non-canonical result breaks %s%s" % (fl, taint, opname, tag)
    if op == "eq":
        return "%s.== wrong (operand classes %s/%s)%s" % (fl, e.get("ca"), e.get("cb"), tag)
    return "%s.%s wrong result%s" % (fl, op, tag)


def describe(e):
    small = {k: v for k, v in e.items() if k not in ("h", "h2", "chain", "s")}
    if e.get("timeout") or e.get("crash") or e.get("panic"):
        return "call did not return normally: " + json.dumps(small)
    exp = expected(e)
    got = e["eq"] if e["op"] == "eq" else vec(e["r"])
    return "expected %s got %s :: %s" % (exp, got, json.dumps(small))


# ------------------------------------------------------------------------------------------------
# parallel TLC validation
# ------------------------------------------------------------------------------------------------
def weight(e):
    links = len(e.get("chain", ()))
    return 0.3 + (5.0 if e["f"] == "f128" else 1.0) * e["d"] ** 2 * (1 + 1.5 * links) * (0.2 if e["op"] in ("eq", "add", "sub", "neg", "double", "new", "from") else 1.0)


def _validate_chunk(arg):
    module, cfg, path, timeout = arg
    r = vf.tlc(module, cfg, cwd=SPECDIR, workers=1, timeout=timeout, env={"TRACE": path}, deque=True, heap="3g")
    rej = [int(m.group(1)) for m in (re.match(r'^<<"REJECTED_EVENT", (\d+)>>', ln) for ln in r.prints) if m]
    consumed = [int(m.group(1)) for m in (re.match(r'^<<"CONSUMED", (\d+)>>', ln) for ln in r.prints) if m]
    return rej, consumed, r.distinct, r.generated, r.wall, r.ok, r.error


def validate(events, name, module="TraceFieldOps.tla", cfg="TraceFieldOps.cfg", nproc=4, timeout=1500):
    """Splits `events` into nproc chunks of similar estimated cost, validates them with one
    single-worker TLC each in parallel; returns (sorted rejected indices into events, states, transitions)."""
    wd = vf.workdir("fields")
    order = sorted(range(len(events)), key=lambda i: -weight(events[i]))
    bins = [[] for _ in range(nproc)]
    loads = [0.0] * nproc
    for i in order:
        k = loads.index(min(loads))
        bins[k].append(i)
        loads[k] += weight(events[i])
    jobs = []
    for k, b in enumerate(bins):
        if not b:
            continue
        b.sort()
        path = os.path.join(wd, "%s-%d-%d.ndjson" % (name, os.getpid(), k))
        vf.write_ndjson(path, [events[i] for i in b])
        jobs.append((b, path))
    rejected, states, trans = [], 0, 0
    with concurrent.futures.ProcessPoolExecutor(max_workers=nproc) as ex:
        futs = [(b, path, ex.submit(_validate_chunk, (module, cfg, path, timeout))) for b, path in jobs]
        for b, path, fu in futs:
            rej, consumed, distinct, generated, wall, ok, error = fu.result()
            os.unlink(path)
            if not ok or consumed != [len(b)]:
                raise vf.ToolError("trace validation of %s did not consume its trace (%s / %s of %d): %s" % (name, ok, consumed, len(b), error))
            states += distinct
            trans += generated
            rejected += [b[j - 1] for j in rej]
    return sorted(rejected), states, trans


# ------------------------------------------------------------------------------------------------
# mechanism E: word-size-scaled algorithm models (design level) and lifting
# ------------------------------------------------------------------------------------------------
M64 = P["f64"]
NIB = {0: 0, 1: 1, 2: 2, 15: 2**32 - 1, 14: 2**32 - 2, 8: 2**31, 7: 2**31 - 1}


def lift_nibble(n, rng):
    """nibble of a K = 4 model word |-> 32-bit limb of the same band"""
    return NIB[n] if n in NIB else rng.randrange(n << 28, (n + 1) << 28)


def lift_word(v, rng):
    return (lift_nibble(v >> 4, rng) << 32) | lift_nibble(v & 15, rng)


def _tlc_job(arg):
    module, cfg, workers = arg
    r = vf.tlc(module, cfg, cwd=SPECDIR, workers=workers, timeout=1500)
    return cfg, r.ok, r.error, r.distinct, r.generated, r.wall, r.tagged("FINDING"), r.tagged("CLASS")


def run_scaled_models(ck, tier):
    """TLC explores the scaled transcriptions of f64/mod.rs and f62/mod.rs exhaustively.  The models of
    the routines as they are in the tree (repaired: FixDouble/FixMulSmall/FixInv = TRUE) must satisfy
    `Correct` (a failure is a design-level/tool error, exit 2).  The as-found variants print the design
    findings (kept as regression generators).  Returns lifted f64 cases for the recorder."""
    fixed = [("Goldilocks.tla", "Goldilocks_K4_fixed.cfg"), ("Mont62.tla", "Mont62_w8_fixed.cfg")]
    found = [("Goldilocks.tla", "Goldilocks_K4_found.cfg"), ("Mont62.tla", "Mont62_w8_found.cfg")]
    if tier == "thorough":
        fixed += [("Goldilocks.tla", "Goldilocks_K2_fixed.cfg"), ("Mont62.tla", "Mont62_w10_fixed.cfg")]
        found += [("Goldilocks.tla", "Goldilocks_K2_found.cfg"), ("Mont62.tla", "Mont62_w10_found.cfg")]
    jobs = [(m, c, 2) for m, c in fixed + found]
    findings, classes = [], []
    with concurrent.futures.ProcessPoolExecutor(max_workers=2) as ex:
        for cfg, ok, error, distinct, generated, wall, fnd, cls in ex.map(_tlc_job, jobs):
            ck.states += distinct
            ck.transitions += generated
            ck.part("design:" + cfg, tlc_states=distinct, tlc_generated=generated, tlc_wall_s=round(wall, 2),
                    findings=len(fnd), classes=len(cls))
            if not ok:
                raise vf.ToolError("scaled model %s failed: %s" % (cfg, error))
            if "_fixed" in cfg:
                ck.require(not fnd, "repaired model %s printed findings" % cfg)
            findings += fnd
            classes += cls
    # the as-found models must rediscover exactly the documented design findings (guards the models)
    gold = {(f["op"]) for f in findings if "K" in f}
    mont = {(f["op"], f["x"] == f["P"], f["note"]) for f in findings if "P" in f}
    ck.require(gold == {"double", "mul_small"}, "as-found Goldilocks model findings changed: %s" % sorted(gold))
    ck.require(mont == {("inv", True, "does not terminate")}, "as-found Mont62 model findings changed: %s" % sorted(mont))
    band = sorted({f["x"] for f in findings if f.get("K") == 4 and f["op"] == "double"})
    ck.require(band == list(range(121, 128)), "K=4 double findings are not the band [ceil(p/2), 2^(W-1)): %s" % band)
    ck.part("design:findings", goldilocks_double_band_K4=band,
            goldilocks_mul_small_pairs_K4=len([f for f in findings if f.get("K") == 4 and f["op"] == "mul_small"]),
            mont62="inv does not terminate on representation P (zero as modulus), all other operations exact on [0,2P)")
    # lifting to 64-bit operands (f64 base field); judged by TraceFieldOps on the real code
    rng = ck.rng
    lifted, seen = [], set()
    for f in findings:
        if f.get("K") != 4:
            continue
        for _ in range(2):
            c = {"src": "finding", "op": f["op"], "x": lift_word(f["x"], rng), "y": 0, "k": lift_nibble(f["k"], rng)}
            if c["x"] < M64:
                lifted.append(c)
    per = collections.defaultdict(list)
    for c in classes:
        per[(c["op"], tuple(c["fl"]))].append(c)
    want = 40 if tier == "thorough" else 6
    for key in sorted(per):
        cs = per[key]
        rng.shuffle(cs)
        for c in cs[:want]:
            x, y = lift_word(c["x"], rng), lift_word(c["y"], rng)
            k = lift_nibble(c["y"] & 15, rng)
            if x < M64 and y < M64 and (c["op"], x, y) not in seen:
                seen.add((c["op"], x, y))
                lifted.append({"src": "class", "op": c["op"], "x": x, "y": y, "k": k})
    if tier != "thorough":
        fl = [c for c in lifted if c["src"] == "finding"]
        rng.shuffle(fl)
        lifted = fl[:80] + [c for c in lifted if c["src"] == "class"]
    ck.part("design:lifting", lifted_cases=len(lifted), from_findings=len([c for c in lifted if c["src"] == "finding"]),
            carry_classes=len(per))
    ck.require(len(per) >= 18 and len(lifted) > 100, "too few lifted cases / carry classes (%d / %d)" % (len(lifted), len(per)))
    return lifted


# ------------------------------------------------------------------------------------------------
def record(binary, seed, n, name, tier, only=None, lifted=None):
    wd = vf.workdir("fields")
    path = os.path.join(wd, "%s-%d.ndjson" % (name, os.getpid()))
    args = ["record", str(seed), str(n), path, tier] + (only or [])
    env = None
    if lifted is not None:
        lpath = os.path.join(wd, "%s-%d.lifted.ndjson" % (name, os.getpid()))
        vf.write_ndjson(lpath, lifted)
        env = {"WF_LIFTED": lpath}
    rc, out, err = vf.run_harness(binary, args, timeout=3000, env=env)
    if lifted is not None:
        os.unlink(lpath)
    if rc != 0:
        raise vf.ToolError("recorder failed rc=%d: %s" % (rc, err[-2000:]))
    summary = json.loads(out.strip().splitlines()[-1])
    events = vf.read_ndjson(path)
    os.unlink(path)
    return events, summary


def judge(ck, events, rejected, seed, tier):
    """Turns rejected events into violations (or tool errors for rejected certificates / witnesses)."""
    by_sig = collections.OrderedDict()
    for i in rejected:
        e = events[i]
        if e.get("cert"):
            raise vf.ToolError("certificate event rejected (committed spec data wrong?): %s" % json.dumps({k: e[k] for k in ("f", "d", "op", "k")}))
        if not (e.get("timeout") or e.get("crash") or e.get("panic")) and noncanonical(e):
            # the recorder reports operands / results through as_int / to_bytes: a value >= the modulus is
            # what TraceFieldOps!CanonVec rejects (the element's integer value is not its canonical one)
            by_sig.setdefault("%s as_int/to_bytes reports a value >= the modulus (operand classes %s/%s)"
                              % (label(e), e.get("ca"), e.get("cb")), []).append(i)
            continue
        if not (e.get("timeout") or e.get("crash") or e.get("panic")):
            exp = expected(e)
            got = e["eq"] if e["op"] == "eq" else vec(e["r"])
            if exp is not None and exp == got:
                raise vf.ToolError("TLC rejected an arithmetically correct event (witness helper or spec bug): %s" % describe(e))
        by_sig.setdefault(signature(e), []).append(i)
    for sig, idx in by_sig.items():
        e = events[idx[0]]
        combo = COMBOS.index((e["f"], e["d"])) if "sc" in e else None
        ck.violation(sig, "%d event(s); first: %s" % (len(idx), describe(e)),
                     {"engine": "record", "seed": seed, "tier": tier, "combo": combo, "sc": e.get("sc"), "k": e.get("k"),
                      "signature": sig, "event": {k: v for k, v in e.items() if k not in ("chain",)}})
    return by_sig


def coverage(ck, events, summary):
    per = collections.defaultdict(collections.Counter)
    classes = collections.Counter()
    scen = set()
    for e in events:
        if e.get("cert"):
            per["cert"][e["op"]] += 1
            continue
        c = (e["f"], e["d"]) if e["op"] not in ("new", "from_mont") else (e["f"], 1)
        per[c][e["op"]] += 1
        scen.add((e["f"], e.get("sc"), e["d"] if e["op"] not in ("new", "from_mont") else -1))
        for k in ("ca", "cb", "cr"):
            if k in e:
                classes[(e["f"], e[k])] += 1
        if e.get("dir"):
            classes[("dir", e["dir"])] += 1
            if e["dir"].startswith("lifted") and e["op"] not in ("new", "from_mont", "eq"):
                classes[("lifted-op", e["op"])] += 1
        if e["op"] == "eq":
            classes[("eq", e.get("eq"))] += 1
        if e["op"] == "exp":
            classes[("exp-links", min(len(e.get("chain", ())), 64) // 16)] += 1
    for (f, d) in COMBOS:
        c = per[(f, d)]
        need = [o for o in ALL_OPS if not (o == "new" and d > 1)] + (["mul_small", "from_mont"] if (f, d) == ("f64", 1) else []) + (["from"] if d > 1 else [])
        missing = [o for o in need if c[o] == 0]
        ck.require(not missing, "no %s events for %s degree %d" % (missing, f, d))
        ck.part("%s%s" % (f, "" if d == 1 else "x%d" % d), events=sum(c.values()), ops=dict(c))
    ck.require(per["cert"]["frobcert"] == 7, "expected 7 Frobenius-basis certificates, got %d" % per["cert"]["frobcert"])
    ck.require(classes[("f62", "lazy")] > 50, "f62 lazy representations [M,2M) not exercised")
    ck.require(classes[("f62", "zeroM")] > 0, "f62 zero-as-M representation not exercised")
    ck.require(classes[("dir", "f64-double-band")] > 0 and classes[("dir", "f64-mul_small-band")] > 0 and classes[("dir", "f62-zero-as-M")] > 0
               and classes[("dir", "f62-inv-path")] >= 60,
               "directed representation-class scenarios missing")
    ck.require(all(classes[("lifted-op", o)] > 0 for o in ("add", "sub", "mul", "double", "square", "neg", "mul_small")),
               "lifted cases of the scaled model did not reach the recorder")
    ck.require(classes[("eq", 1)] > 100 and classes[("eq", 0)] > 20, "== outcomes not both exercised")
    ck.require(classes[("exp-links", 3)] + classes[("exp-links", 4)] > 8, "no exp events with >= 48-bit exponents")
    ck.part("recorder", events=len(events), stuck_calls=summary["stuck"], skipped_after_repeated_timeouts=summary["skipped"],
            representation_classes={"%s:%s" % k: v for k, v in sorted(classes.items(), key=str)})
    return len(scen)


def harness_binary():
    # VERIF_FIELDS_BINARY: run against a harness built from a private, mutated copy of the sources
    # (mutation experiments without touching /repo); never set in normal runs
    return os.environ.get("VERIF_FIELDS_BINARY") or vf.build_harness("fields")


def run(ck, tier):
    binary = harness_binary()
    rc, out, err = vf.run_harness(binary, ["selftest"], timeout=120)
    if rc != 0:
        raise vf.ToolError("big-integer helper self-test failed: " + err[-500:])
    n = 1000 if tier == "thorough" else 55
    t0 = time.time()
    lifted = run_scaled_models(ck, tier)
    vf.log("[c10] scaled models explored, %d lifted cases, in %.1fs" % (len(lifted), time.time() - t0))
    t0 = time.time()
    events, summary = record(binary, ck.seed, n, "c10", tier, lifted=lifted)
    vf.log("[c10] recorded %d events (%d stuck, %d skipped) in %.1fs" % (len(events), summary["stuck"], summary["skipped"], time.time() - t0))
    corrupt = os.environ.get("VERIF_C10_CORRUPT")
    if corrupt:
        # demonstration hook (BUILD_GUIDE, definition of done 3): flip one bit of one recorded result
        i = int(corrupt)
        tgt = [j for j, e in enumerate(events) if e["op"] in ("mul", "add", "inv", "exp", "eq") and not e.get("dir") and "timeout" not in e][i]
        e = events[tgt]
        if e["op"] == "eq":
            e["eq"] ^= 1
        else:
            e["r"][0] = (e["r"][0] + [0])[:]
            e["r"][0][0] ^= 1
        vf.log("[c10] corrupted event %d: %s" % (tgt, json.dumps({k: e[k] for k in ("f", "d", "op", "sc", "k")})))
    nscen = coverage(ck, events, summary)
    t0 = time.time()
    rejected, states, trans = validate(events, "c10")
    vf.log("[c10] TLC validated %d events, %d rejected, in %.1fs" % (len(events), len(rejected), time.time() - t0))
    ck.states += states
    ck.transitions += trans
    ck.part("validate", tlc_states=states, tlc_generated=trans, rejected=len(rejected))
    ck.traces += nscen
    ck.evaluations += len(events)
    for e in events:
        if e["op"] in ("mul", "inv", "exp") and e["d"] == 3 and len(ck.samples) < 3:
            ck.sample({k: v for k, v in e.items() if k != "chain"})
    judge(ck, events, rejected, ck.seed, tier)
    ck.bounds = {"scenarios_per_combination": n, "combinations": ["%s degree %d" % c for c in COMBOS],
                 "operand_space": "sampled: boundary-biased + seeded random; not exhaustive"}
    ck.exhaustive = False
    ck.assumptions = ["p prime and extension polynomials irreducible (C11) for uniqueness of quotients r*b=a",
                      "watchdog: a call that burns >= 1 s CPU (or 60 s wall) without returning is a timeout",
                      "as_int is the canonical-value observer; raw representations are used for reporting only"]


def replay(ck, path):
    binary = harness_binary()
    obj = json.load(open(path))["replay"]
    lifted = None
    if obj["sc"] >= 1000000:
        ck.seed = obj["seed"]
        ck.rng.seed(obj["seed"])
        lifted = run_scaled_models(ck, obj.get("tier", "quick"))
    events, summary = record(binary, obj["seed"], 0, "c10-replay", obj.get("tier", "quick"),
                             only=["%d:%d" % (obj["combo"], obj["sc"])], lifted=lifted)
    rejected, states, trans = validate(events, "c10-replay", nproc=1)
    ck.states += states
    ck.transitions += trans
    ck.traces += 1
    ck.evaluations += len(events)
    judge(ck, events, rejected, obj["seed"], obj.get("tier", "quick"))
