"""C07 — protocol objects survive serialization round trips.
spec/wire/WireCodec.tla states, per component type, the constructor-accepted value space and the exact
byte image; MCWireCodec.tla enumerates every boundary of every field.  The harness builds each value with
the REAL public constructor, serialises (must equal the image TLC computed), deserialises (must succeed,
leave no bytes, compare equal, re-serialise identically) and runs the typed parsers
(Commitments::parse, Queries::parse, OodFrame::parse) whose result must equal the description.
Honest proofs of the instances of spec/wire/WireCases.tla are round-tripped whole and re-verified."""
import json, os
import vf, wirelib

SPECDIR = wirelib.SPECDIR

META = dict(
    technique="TLA+ codec specification (constructor-accepted value space + byte grammar of every proof component) evaluated by TLC; every enumerated value is built with the real constructor and compared with the TLC-computed byte image, then decoded and compared; generated proofs round-tripped and re-verified",
    text="TLC enumerates the boundaries of every field of TraceInfo, ProofOptions, Context, Commitments, Queries, OodFrame, FriProof (byte grammar), BatchMerkleProof and the digests of the five hashers inside the constructor-accepted space written in WireCodec.tla (checked by the invariant Accepted) and computes the exact expected encoding; the real code must produce that encoding, decode it to an equal value with nothing left, and the typed parsers must return the described contents. Proofs produced by the real prover for the WireCases instances decode to equal proofs with the same verdict.",
    note="Expected images come only from the specification (encode and decode cannot be wrong in the same way). FriProof has no public constructor: its values are obtained by decoding specification-built images and from real proofs. Large payloads are closed-form patterns shared by spec and harness. Interiors of the value spaces are covered by the full-range stars (queries 1..255, grinding 0..32, partitions 1..16, hash rates, exponents 3..63 in thorough), not by random sampling.",
    design="7/C07")


def input_class(sc):
    d = sc.get("d", {})
    ti = d.get("ti", d) if sc["ty"] in ("TraceInfo", "Context") else {}
    if sc["ty"] in ("TraceInfo", "Context") and ti.get("aux", 0) > 0 and ti.get("rands", 1) == 0:
        return "aux>0,rands=0"
    return "-"


def signature(sc, d):
    det = d["detail"]
    if d["kind"] in ("decode_err", "parse"):
        det = det[:120]
    elif d["kind"].endswith("panic"):
        det = wirelib.loc_of(det)
    else:
        det = ""
    return ("roundtrip %s[%s] %s %s" % (sc["ty"], input_class(sc), d["kind"], det)).strip()


def shrink(sc):
    s = json.loads(json.dumps(sc))
    for ch in s.get("exp", []):
        if len(ch.get("b", [])) > 48:
            ch["b"] = ch["b"][:24] + ["... %d bytes" % len(ch["b"])]
    return json.loads(json.dumps(s)[:4000]) if len(json.dumps(s)) <= 4000 else {"ty": s["ty"], "d": str(s["d"])[:1500]}


def replay_components(ck, binary, name, scenarios):
    path = os.path.join(wirelib.wd(), "%s-%d.ndjson" % (name, os.getpid()))
    vf.write_ndjson(path, scenarios)
    rc, out, err = vf.run_harness(binary, ["roundtrip", path], timeout=1800)
    os.unlink(path)
    if rc != 0:
        raise vf.ToolError("harness roundtrip failed rc=%d: %s" % (rc, err[-2000:]))
    summary = None
    bad = 0
    for ln in out.splitlines():
        d = json.loads(ln)
        if d.get("summary"):
            summary = d
            continue
        sc = scenarios[d["i"]]
        if d["kind"] == "harness":
            raise vf.ToolError("harness cannot interpret scenario %d: %s" % (d["i"], d["detail"]))
        bad += 1
        ck.violation(signature(sc, d), "%s %s: %s" % (sc["ty"], json.dumps(sc["d"])[:300], d["detail"][:300]),
                     {"engine": "roundtrip", "scenario": sc, "detail": d})
    if summary is None or summary["scenarios"] != len(scenarios):
        raise vf.ToolError("harness roundtrip produced no complete summary")
    ck.traces += summary["scenarios"]
    ck.evaluations += summary["scenarios"] * 5
    # values whose real encoding differs from the specification's byte image: reported, not gated (a
    # consistent wire-format change keeps the round-trip property)
    ck.part("wire_format", format_divergence=summary.get("format_divergence", 0))
    if summary.get("format_divergence", 0):
        vf.log("[c07] NOTE: %d values are encoded differently from the specification's byte image (not gated)" % summary["format_divergence"])
    return bad


def run_proofs(ck, binary, thorough):
    rows = wirelib.gen_cases(ck, thorough)
    proofs, ppath = wirelib.honest_proofs(ck, binary, rows, "c07")
    os.unlink(ppath)
    names = []
    for r, p in zip(rows, proofs):
        nm = wirelib.case_name(r)
        names.append(nm)
        if not p.get("ok"):
            # the instances are inside the supported configuration space by construction
            raise vf.ToolError("no honest proof for %s: %s" % (nm, p.get("error")))
        if p["rt"] != "ok":
            ck.violation("proof roundtrip %s" % p["rt"], "%s: %s %s" % (nm, p["rt"], p.get("rt_detail", "")[:300]),
                         {"engine": "gen", "case": r, "rt": p["rt"], "detail": p.get("rt_detail")})
        if p["verdict"][0] != p["verdict_decoded"][0] or (p["verdict"][0] == "err" and p["verdict"] != p["verdict_decoded"]):
            ck.violation("proof verdict original=%s decoded=%s" % (p["verdict"][0], p["verdict_decoded"][0]),
                         "%s: original %s, decoded %s" % (nm, p["verdict"], p["verdict_decoded"]),
                         {"engine": "gen", "case": r, "verdict": p["verdict"], "verdict_decoded": p["verdict_decoded"]})
        ck.traces += 1
        ck.evaluations += 3
    ck.require(all(p["verdict"][0] == "ok" for p in proofs) or ck.violations,
               "an honest proof was not accepted (C01 territory): %s" % [p["verdict"] for p in proofs])
    ck.part("proofs", cases=len(rows), sizes=[p["len"] for p in proofs], instances=names)
    return rows


def run(ck, tier):
    thorough = tier == "thorough"
    binary = vf.build_harness("wire")
    r = vf.tlc("MCWireCodec.tla", "GenWireCodec_thorough.cfg" if thorough else "GenWireCodec.cfg", cwd=SPECDIR,
               workers=1, timeout=2400)     # one state, one evaluation: more workers only add JVM overhead
    if not r.ok:
        raise vf.ToolError("WireCodec generator failed its own invariant (specification bug): %s" % (r.error or "")[:1500])
    ck.add_tlc("components", r)
    sc = r.tagged("REPLAY")
    sc.sort(key=lambda s: (s["ty"], s["h"], s["f"], s["x"], json.dumps(s["d"], sort_keys=True)))
    by_ty = {}
    for s in sc:
        by_ty[s["ty"]] = by_ty.get(s["ty"], 0) + 1
    need = {"TraceInfo": 300, "ProofOptions": 500, "Context": 100, "Digest": 100, "Commitments": 30,
            "BatchMerkleProof": 100, "Queries": 100, "OodFrame": 50, "FriProof": 50}
    for ty, n in need.items():
        ck.require(by_ty.get(ty, 0) >= n, "generator printed too few %s scenarios: %d" % (ty, by_ty.get(ty, 0)))
    for ty in ("Context", "Queries", "Commitments", "BatchMerkleProof"):
        ck.sample(shrink(next(s for s in sc if s["ty"] == ty)), limit=8)
    bad = replay_components(ck, binary, "components", sc)
    ck.part("components", scenarios=len(sc), by_type=by_ty, mismatches=bad)
    run_proofs(ck, binary, thorough)
    ck.bounds = {"components": "boundary grid per field (see MCWireCodec.tla); thorough adds exponents 3..63, hash rates 1..255",
                 "proofs": "%d WireCases instances" % (11 if thorough else 3)}
    ck.exhaustive = False
    ck.assumptions = ["64-bit usize (trace lengths up to 2^63 are constructor-accepted)",
                      "pattern payloads (PatByte/PatElem) are expanded identically by spec and harness"]


def replay(ck, path):
    binary = vf.build_harness("wire")
    obj = json.load(open(path))["replay"]
    if obj.get("engine") == "roundtrip":
        replay_components(ck, binary, "replay", [obj["scenario"]])
    else:
        row = obj["case"]
        proofs, ppath = wirelib.honest_proofs(ck, binary, [row], "c07r")
        os.unlink(ppath)
        p = proofs[0]
        if p.get("rt") != "ok":
            ck.violation("proof roundtrip %s" % p.get("rt"), str(p.get("rt_detail")), obj)
        if p.get("verdict", [""])[0] != p.get("verdict_decoded", [""])[0]:
            ck.violation("proof verdict original=%s decoded=%s" % (p["verdict"][0], p["verdict_decoded"][0]), "", obj)
        ck.traces += 1
