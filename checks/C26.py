"""C26 — primitive encodings round-trip and reject malformed input.
spec/serde/Vint.tla (vint64 size encoding over 8-byte BigNat values) and spec/serde/Codec.tla (typed grammar
u8..u128, bool, usize, Option, [T;N], Vec, BTreeMap, BTreeSet, String, tuples, nesting depth 2, with
Encode / Decode-of-any-byte-string / UTF-8 DFA / Rust's Ord) are evaluated by TLC, which prints one scenario
per case with the exact expected bytes, size hint, decoded value, bytes consumed, or the acceptable error
kinds.  The harness engine `codec` drives the real write_into / to_bytes / get_size_hint / read_from on
SliceReader, std::io::Cursor, ReadAdapter (chunked stream) and read_from_bytes and compares plain values."""
import json, os, re, time
from concurrent.futures import ThreadPoolExecutor
import vf

SPECDIR = os.path.join(vf.SPEC, "serde")

META = dict(
    technique="TLA+ denotational specification of the vint64 size encoding and of the typed serialization grammar; "
              "TLC enumerates values, truncations, single-byte corruptions and raw decoder inputs with their expected "
              "outcomes (and checks the specification's own round-trip / minimality / prefix-freeness / UTF-8 laws); "
              "every case is replayed on the real Serializable/Deserializable implementations over three readers",
    text="Every size value below 2^12 (2^15 thorough), every encoded-length boundary 2^(7k)-1, 2^(7k), 2^(7k)+1 (k=1..9), "
         "byte boundaries, 2^63, 2^64-1 and seeded 64-bit values are encoded and decoded by the real code and compared "
         "with the bytes, length, size hint, value and consumed count TLC computed; the vint decoder is driven over every "
         "first byte x 3 fillings x every length 0..11. For 106 monomorphic types (nesting depth 2, including collections "
         "whose elements encode to zero bytes, last in the input and followed by other data) TLC enumerates "
         "representative values, every truncation and every single-byte corruption from {0,1,2,0x7F,0x80,0xC0,0xFF} of "
         "their encodings plus raw inputs (all bool/Option tags, UTF-8 boundary families, non-minimal and oversized length "
         "prefixes, unsorted/duplicate set and map entries) and the real decoders must return exactly the specified value "
         "and remaining bytes or an error of an acceptable kind, never panic or abort.",
    note="Representative values per type, not all values; single-byte corruptions only; 64-bit platform (every u64 size "
         "value fits usize, the 'does not fit the platform' error cannot occur); error kinds are gated only up to the set "
         "the specification allows (first sequential error, plus InvalidValue for length prefixes exceeding the input, plus "
         "EOF for invalid input that is also too short); inputs announcing more than 1024 elements of a zero-sized type "
         "are outside the generated space (the decoder iterates that many times: hang-freedom is C05's business); get_size_hint is gated for usize only (elsewhere it is documented "
         "as an estimate); which of two map entries with equal keys survives is not gated; the real code runs in a "
         "forked worker with a 4 GiB address-space limit (an allocation abort is an outcome, not a harness crash). bool has no Serializable impl: it is exercised "
         "through write_bool/read_bool by a one-line wrapper in the harness.",
    design="7/C26")


# --------------------------------------------------------------------------------------------------
def norm_panic(p):
    p = re.sub(r"^/rustc/[0-9a-f]+/", "", p or "")
    p = p.replace("/repo/", "")
    loc, _, msg = p.partition(": ")
    if not msg:
        return p[:80]
    if loc.startswith("library/"):          # std internals: line numbers move between toolchains
        return msg[:80]
    return ("%s: %s" % (loc, msg))[:120]


def signature(sc, d):
    stage = d.get("stage")
    if stage == "encode":
        return "codec.encode ty=%s expected=bytes got=%s" % (d["ty"], d["got"])
    if stage == "size_hint":
        return "codec.size_hint ty=%s expected=%s got=%s" % (d["ty"], d["expected"], d["got"])
    got = d.get("got")
    if got == "panic":
        got = "panic(%s)" % norm_panic(d.get("outcome", {}).get("panic", ""))
    elif got == "abort":
        got = "abort(%s)" % re.sub(r"\d+", "N", d.get("stderr", "")[:80])
    return "codec.decode class=%s ty=%s reader=%s expected=%s got=%s" % (
        sc.get("cls"), d.get("ty"), d.get("reader"), d.get("expected"), got)


def run_codec(binary, path_tag, scenarios, extra_args=()):
    """Runs the harness on `scenarios`; returns (summary, [(index, detail)])."""
    wd = vf.workdir("c26")
    path = os.path.join(wd, "%s-%d.ndjson" % (path_tag, os.getpid()))
    vf.write_ndjson(path, scenarios)
    try:
        rc, out, err = vf.run_harness(binary, ["codec", path] + list(extra_args), timeout=1500,
                                       env={"RUST_BACKTRACE": "0"})
    finally:
        if os.path.exists(path):
            os.unlink(path)
    if rc != 0:
        raise vf.ToolError("harness codec failed rc=%d: %s" % (rc, err[-2000:]))
    summary, found = None, []
    for ln in out.splitlines():
        d = json.loads(ln)
        if d.get("summary"):
            summary = d
        else:
            found.append((d["i"], d["detail"]))
    if summary is None:
        raise vf.ToolError("harness produced no summary")
    if summary["scenarios"] != len(scenarios):
        raise vf.ToolError("harness replayed %d of %d scenarios" % (summary["scenarios"], len(scenarios)))
    return summary, found


def replay_scenarios(ck, binary, name, scenarios, extra_args=()):
    """Replays on the real code.  The cases that reach an oversized length prefix (they currently kill the
    worker process, one fork each, and a fork is the dearer the bigger the forking process) go in a file of
    their own."""
    t0 = time.time()
    groups = [[i for i, s in enumerate(scenarios) if "big" not in s["fl"]],
              [i for i, s in enumerate(scenarios) if "big" in s["fl"]]]
    if "--skip-big" in extra_args:
        groups[1] = []
    total = dict(scenarios=0, evaluations=0, mismatches=0, worker_forks=0, aborts=0, hint_inexact=0)
    stopped = False
    for g, idx in enumerate(groups):
        if not idx:
            continue
        summary, found = run_codec(binary, "%s-%d" % (name, g), [scenarios[i] for i in idx])
        for k in total:
            total[k] += summary[k]
        stopped = stopped or summary.get("stopped_early")
        for j, det in found:
            sc = scenarios[idx[j]]
            if det.get("stage") == "harness":
                raise vf.ToolError("harness cannot run scenario %d (%s): %s" % (idx[j], det.get("ty"), det.get("error")))
            # the scenario is stored whole: a replay file must reproduce the case exactly
            ck.violation(signature(sc, det), json.dumps(det)[:1500], {"engine": "codec", "scenario": sc, "detail": det})
    if stopped and not ck.violations:
        raise vf.ToolError("harness stopped early after repeated aborts but no violation was recorded")
    ck.traces += total["scenarios"]
    ck.evaluations += total["evaluations"]
    vf.log("[c26] replay %s: %d scenarios, %d real calls, %d mismatches, %d forks, %.1fs" % (
        name, total["scenarios"], total["evaluations"], total["mismatches"], total["worker_forks"], time.time() - t0))
    ck.part(name, scenarios=total["scenarios"], real_calls=total["evaluations"], mismatches=total["mismatches"],
            worker_forks=total["worker_forks"], aborts=total["aborts"],
            types=len({type_name(s["ty"]) for s in scenarios}), size_hints_not_exact=total["hint_inexact"])
    return total


def type_name(d):
    t = d[0]
    if t in ("opt", "vec", "set"):
        return "%s<%s>" % (t, type_name(d[1]))
    if t == "arr":
        return "[%s;%d]" % (type_name(d[2]), d[1])
    if t == "map":
        return "map<%s,%s>" % (type_name(d[1]), type_name(d[2]))
    if t == "tuple":
        return "(%s)" % ",".join(type_name(x) for x in d[1])
    return t


def random_u64s(rng, n):
    """Seeded 64-bit values, uniform over bit lengths so that every encoded length is hit."""
    out = []
    for _ in range(n):
        bits = rng.randint(0, 64)
        v = rng.getrandbits(bits) if bits else 0
        if rng.random() < 0.25 and bits >= 7:      # near a power of two
            v = (1 << (bits - 1)) + rng.randint(-3, 3)
        v = max(0, min(v, (1 << 64) - 1))
        out.append(list(v.to_bytes(8, "little")))
    return out


def gen_vint(ck, thorough):
    wd = vf.workdir("c26")
    rpath = os.path.join(wd, "vint-random-%d-%d.json" % (ck.seed, os.getpid()))
    nrand = 12000 if thorough else 1500
    with open(rpath, "w") as f:
        json.dump(random_u64s(ck.rng, nrand), f)
    try:
        r = vf.tlc("MCVint.tla", "GenVint_thorough.cfg" if thorough else "GenVint.cfg", cwd=SPECDIR, workers=2,
                   timeout=1500, env={"C26_RANDOM": rpath})
    finally:
        os.unlink(rpath)
    return r, nrand


def gen_codec(thorough):
    return vf.tlc("MCCodec.tla", "GenCodec_thorough.cfg" if thorough else "GenCodec.cfg", cwd=SPECDIR, workers=2,
                  timeout=2400, heap="6g")


def run(ck, tier):
    thorough = tier == "thorough"
    binary = vf.build_harness("serde")
    # debug assertions + overflow checks (what `cargo test` builds): thorough tier only, a second cargo build
    binary_dev = vf.build_harness("serde", profile="dev") if thorough else None
    rc, out, err = vf.run_harness(binary, ["codec", "menu"], timeout=60)
    if rc != 0:
        raise vf.ToolError("harness codec menu failed: " + err[-500:])
    menu = set(json.loads(out)["menu"])

    # ---- TLC: both generators (they also check the specification's own laws) ----
    with ThreadPoolExecutor(max_workers=2) as ex:
        fv = ex.submit(gen_vint, ck, thorough)
        fc = ex.submit(gen_codec, thorough)
        rv, nrand = fv.result()
        rc_ = fc.result()
    for name, r in (("vint", rv), ("codec", rc_)):
        if not r.ok:
            raise vf.ToolError("specification self-check (Laws) failed in the %s generator — specification bug: %s"
                               % (name, r.error))
    vf.log("[c26] TLC: vint %.1fs (%d states), codec %.1fs (%d states)" % (rv.wall, rv.distinct, rc_.wall, rc_.distinct))
    ck.add_tlc("gen:vint", rv)
    ck.add_tlc("gen:codec", rc_)
    t0 = time.time()
    vint = rv.tagged("REPLAY")
    codec = rc_.tagged("REPLAY")
    vf.log("[c26] parsed %d + %d scenarios in %.1fs" % (len(vint), len(codec), time.time() - t0))

    # ---- vacuity guards ----
    small = 32768 if thorough else 4096
    rt = [s for s in vint if s["kind"] == "rt"]
    ck.require(len(rt) >= 2 * (small + 51 + nrand), "vint generator printed too few round trips: %d" % len(rt))
    ck.require({s["hint"] for s in rt} == set(range(1, 10)), "not every encoded length 1..9 is covered by the vint values")
    for k in range(1, 10):
        for dlt in (-1, 0, 1):
            b = list(((1 << (7 * k)) + dlt).to_bytes(8, "little"))
            ck.require(any(s["v"] == b for s in rt), "vint boundary 2^%d%+d missing" % (7 * k, dlt))
    ck.require(any(s["v"] == [255] * 8 for s in rt), "usize = 2^64-1 missing")
    raw = [s for s in vint if s["kind"] == "raw"]
    ck.require(len(raw) == 256 * 3 * 12, "vint raw decoder family incomplete: %d" % len(raw))
    ck.require(sum(1 for s in raw if s["exp"]["t"] == "ok") > 3000 and sum(1 for s in raw if s["exp"]["t"] == "err") > 1000,
               "vint raw family lacks accepted or rejected inputs")
    ck.require(sum(1 for s in vint if s["kind"] == "trunc") > 200, "too few vint truncations")

    types_rt = {type_name(s["ty"]) for s in codec if s["kind"] == "rt"}
    types_all = {type_name(s["ty"]) for s in codec}
    ck.require(len(types_rt) >= 106, "codec generator covers only %d types" % len(types_rt))
    # collections of elements that encode to zero bytes: last in the input, and followed by other data
    def has(tyname, **kw):
        return any(type_name(s["ty"]) == tyname and all(s[k] == v for k, v in kw.items()) for s in codec)
    for tyname, inp in (("vec<unit>", [7]), ("vec<unit>", [7, 170, 1]), ("[unit;4]", []), ("[unit;4]", [170, 1]),
                        ("vec<[u16;0]>", [7]), ("set<unit>", [3]), ("set<unit>", [7]), ("map<unit,[u8;0]>", [3]),
                        ("map<unit,[u8;0]>", [7]), ("opt<unit>", [1])):
        ck.require(has(tyname, input=inp) and next(s for s in codec if type_name(s["ty"]) == tyname and s["input"] == inp)["exp"]["t"] == "ok",
                   "zero-sized-element case %s %s missing or not expected to decode" % (tyname, inp))
    for tyname in ("(u8,vec<unit>)", "(vec<unit>,u8)", "(unit,vec<unit>,unit)", "(u8,[unit;4])", "([unit;4],u8)",
                   "vec<vec<unit>>", "opt<vec<unit>>", "[vec<unit>;2]", "map<u8,vec<unit>>", "(set<unit>,map<unit,[u8;0]>)"):
        ck.require(sum(1 for s in codec if s["kind"] == "rt" and type_name(s["ty"]) == tyname) >= 3,
                   "zero-sized-element type %s has no round trips" % tyname)
    excluded = rc_.tagged("EXCLUDED")
    ck.require(len(excluded) < len(codec) // 50, "too many cases excluded for announcing > 1024 zero-sized elements: %d" % len(excluded))
    missing = types_all - menu
    if missing:
        raise vf.ToolError("types of the specification's menu missing in the harness menu: %s" % sorted(missing))
    kinds = {}
    for s in codec:
        kinds[s["kind"]] = kinds.get(s["kind"], 0) + 1
    for k, lo in (("rt", 700), ("trunc", 2000), ("corrupt", 12000), ("raw", 5000)):
        ck.require(kinds.get(k, 0) >= lo, "codec generator printed too few %s cases: %d" % (k, kinds.get(k, 0)))
    heads = {s["ty"][0] for s in codec if s["kind"] in ("trunc", "corrupt")}
    ck.require(heads >= {"u8", "u16", "u32", "u64", "u128", "bool", "usize", "string", "opt", "arr", "vec", "set", "map", "tuple"},
               "a type constructor has no truncation/corruption cases: %s" % sorted(heads))
    verdicts = {}
    for s in codec:
        key = s["exp"]["t"] + ":" + "+".join(s["exp"]["kinds"])
        verdicts[key] = verdicts.get(key, 0) + 1
    for key in ("ok:", "err:eof", "err:invalid", "err:eof+invalid"):
        ck.require(verdicts.get(key, 0) > 0, "no codec case expects %s" % key)
    inv_str = sum(1 for s in codec if s["ty"] == ["string"] and s["exp"]["t"] == "err" and s["exp"]["kinds"][0] == "invalid")
    inv_bool = sum(1 for s in codec if s["ty"] == ["bool"] and s["exp"]["t"] == "err")
    ck.require(inv_str > 1000 and inv_bool >= 254, "invalid UTF-8 / invalid bool cases missing (%d, %d)" % (inv_str, inv_bool))
    nbig = sum(1 for s in codec if "big" in s["fl"])
    ck.require(nbig > 50, "no oversized length prefixes generated")
    ck.require(sum(1 for s in codec if "dup" in s["fl"]) > 0, "no duplicate-key map input generated")

    ck.sample(rt[2 * 300])
    ck.sample(next(s for s in rt if s["hint"] == 9))
    ck.sample(next(s for s in raw if s["exp"]["t"] == "ok" and s["exp"]["n"] == 3))
    ck.sample(next(s for s in codec if s["kind"] == "corrupt" and s["exp"]["t"] == "err" and s["ty"][0] == "map"))
    ck.sample(next(s for s in codec if s["kind"] == "raw" and s["ty"] == ["string"] and s["exp"]["t"] == "err" and len(s["input"]) == 4))
    ck.sample(next(s for s in codec if s["kind"] == "rt" and s["ty"][0] == "tuple" and len(s["ty"][1]) == 6))

    # ---- replay on the real code ----
    replay_scenarios(ck, binary, "vint", vint)
    replay_scenarios(ck, binary, "codec", codec)
    if binary_dev:      # the oversized-prefix cases already ran above
        replay_scenarios(ck, binary_dev, "vint-dev-profile", vint)
        replay_scenarios(ck, binary_dev, "codec-dev-profile", codec, ["--skip-big"])
    ck.part("codec", case_kinds=kinds, expected_verdicts=verdicts, oversized_length_prefix_cases=nbig,
            excluded_cases_announcing_more_than_1024_zero_sized_elements=len(excluded))

    ck.bounds = {
        "vint_values": "all v < %d; 2^(7k)-1,2^(7k),2^(7k)+1 k=1..9; 2^(8j)-1,2^(8j),2^(8j)+1 j=1..7; 2^63; 2^64-2; 2^64-1; %d seeded" % (small, nrand),
        "vint_decoder_inputs": "256 first bytes x {00, FF, mixed} fill x lengths 0..11; every proper prefix of every boundary encoding",
        "types": "%d monomorphic types, nesting depth <= 2, tuples up to 6" % len(types_rt),
        "values": "3-10 representative values per type (incl. vec<u8>/string of length %s)" % ("127,128,129,300,1000" if thorough else "127,128"),
        "mutations": "every truncation; every position x {00,01,02,7F,80,C0,FF}%s; both ends only for encodings > 48 bytes" % (" with and without trailing bytes" if thorough else ""),
        "raw_inputs": "all 256 bool bytes / Option tags; UTF-8: all single bytes, 15 lead bytes x all second bytes%s, 3/4-byte boundary families, 37 hand-picked; non-minimal and oversized length prefixes; unsorted and duplicate set/map entries" % (", all two-byte strings" if thorough else ""),
        "readers": "SliceReader, std::io::Cursor, ReadAdapter (chunk patterns [256],[1],[2],[3],[1,3],[5,1]), read_from_bytes; release profile%s" % (" and dev profile (debug assertions, overflow checks)" if thorough else ""),
    }
    ck.exhaustive = False
    ck.assumptions = [
        "64-bit platform: every u64 size value fits usize",
        "error kinds are compared against the set the specification allows, not a single kind",
        "all cases run in a forked worker process limited to 4 GiB of address space; an abort (allocation failure) is an outcome of the case that was running",
        "Rust's std BTreeMap/BTreeSet/String::from_utf8 are trusted only in so far as the decoded value must equal the specified one",
    ]


def replay(ck, path):
    binary = vf.build_harness("serde")
    obj = json.load(open(path))
    replay_scenarios(ck, binary, "replay", [obj["replay"]["scenario"]])
