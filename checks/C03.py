"""C03 — data revealed after challenges must match earlier commitments.
(1) spec/stark/StarkProto.tla (design level): with every opening check present, Accepted => revealed =
committed for an adaptive prover; with any one opening check removed TLC produces the attack.
(2) Each attack is made concrete against the real verifier (harness/stark/src/attack.rs): the public
coin transcript of an honest proof is replayed to learn the challenges and the revealed trace rows,
auxiliary rows, constraint rows, FRI layer values or FRI remainder are substituted consistently with
every algebraic check; a commitment-blind run of the REAL verifier proves each forgery passes everything
except the opening checks; the real verifier must reject it.
(3) spec/stark/Transcript.tla (trace validation): coin events recorded from the real prover and verifier
must follow the specification's challenge schedule: every commitment is absorbed before the next
challenge, the remainder commitment before the query positions."""
import json, os
import vf, starklib

META = dict(
    technique="TLA+ commit/challenge/reveal model with an adaptive prover checked by TLC (attack per missing opening check) + concrete forgeries replayed on the real verifier + TLC trace validation of the recorded Fiat-Shamir transcript schedule",
    text="TLC shows on the protocol model that acceptance implies revealed = committed only if every opening check is present and derives one attack per component; each attack is instantiated against the real verifier (DEEP-neutral trace / auxiliary / constraint row changes, FRI coset kernel vector, remainder r + c*prod(x - x_i)), proven algebraically consistent by running the real verifier over a commitment-blind vector commitment, and must be rejected; recorded coin events of prover and verifier are validated against the specification's challenge schedule.",
    note="Forgeries need >= 2 columns of the attacked kind, linear DEEP batching, folding >= 4 and spare remainder degree (the configurations are chosen accordingly by the specification); hashes are ideal in the model; f64/f128 with Blake3 and Rp64.",
    design="7/C03")

KINDS = {"main": "trace", "aux": "aux", "constraints": "constraint", "fri1": "fri_layer", "remainder": "remainder"}


def run(ck, tier):
    thorough = tier == "thorough"
    binary = vf.build_harness("stark")
    # (1) design level
    r = vf.tlc("MCStarkProto.tla", "StarkProto_None.cfg", cwd=starklib.SPECDIR, workers=2, timeout=600)
    ck.add_tlc("proto:all-checks", r)
    if not r.ok:
        raise vf.ToolError("StarkProto with all opening checks violates Binding (specification bug): %s" % r.error)
    attacks = []
    for comp, cfg in (("main", "OffMain"), ("aux", "OffAux"), ("constraints", "OffConstraints"), ("fri1", "OffFri"), ("remainder", "OffRemainder")):
        r = vf.tlc("MCStarkProto.tla", "StarkProto_%s.cfg" % cfg, cwd=starklib.SPECDIR, workers=2, timeout=600)
        ck.add_tlc("proto:no-%s-check" % comp, r)
        if r.ok or "Binding" not in (r.error or ""):
            raise vf.ToolError("StarkProto without the %s opening check does not exhibit the attack (model vacuous)" % comp)
        attacks.append(KINDS[comp])
    # (2) concrete forgeries
    cfgs = starklib.generate(ck, "AttackStarkCfg.cfg", "attack-configs", tag="ATTACK")
    ck.require(len(cfgs) >= 8, "attack configuration list too short")
    cases = []
    for c in cfgs:
        for k in ["honest"] + attacks:
            # row forgeries are tried on three column pairs (first/last, the last two, the first two): with
            # partitioned row hashing different columns are bound by different partition digests
            for v in ((0, 1, 2) if k in ("trace", "aux", "constraint") else (0, 1, 2) if k == "remainder" else (0,)):
                d = dict(c)
                d["kind"] = k
                d["variant"] = v
                cases.append(d)
    res = starklib.run_pipeline(binary, "c03-attack", cases, engine="attack", timeout=3000)
    constructed = {k: 0 for k in attacks}
    stats = {}
    for c, r2 in zip(cases, res):
        k = c["kind"]
        key = "%s:%s" % (k, "skip" if r2.get("skip") else (r2.get("verdict") or r2.get("honest") or "?").split("(")[0][:60])
        stats[key] = stats.get(key, 0) + 1
        if r2.get("honest") != "accept":
            ck.violation("C03 honest proof not accepted: %s" % str(r2.get("honest"))[:60],
                         "%s :: %s" % (starklib.cfg_signature(c), json.dumps(r2)[:400]), {"engine": "attack", "case": c, "result": r2})
            continue
        if k == "honest":
            continue
        if r2.get("skip"):
            continue
        if r2.get("blind") != "accept" or not r2.get("changed"):
            # the substitute is not algebraically consistent: the attack was not constructed (tool concern)
            stats["%s:not-constructed" % k] = stats.get("%s:not-constructed" % k, 0) + 1
            continue
        constructed[k] += 1
        if r2.get("verdict", "").startswith("accept") or r2.get("verdict", "").startswith("verifier_panic"):
            ck.violation("C03 forged %s %s" % (k, "accepted" if r2["verdict"].startswith("accept") else "panics the verifier"),
                         "%s :: %s" % (starklib.cfg_signature(c), json.dumps(r2)[:400]), {"engine": "attack", "case": c, "result": r2})
    # vacuity is judged at the very end: a change of the protocol's challenge order also defeats the
    # forgery constructions, and is reported by the transcript validation below, not as a tool error
    vacuous = ["attack %s was constructed consistently only %d times (vacuous)" % (k, n) for k, n in constructed.items() if n < 2]
    ck.traces += len(cases)
    ck.evaluations += len(cases)
    ck.part("attacks", cases=len(cases), constructed=constructed, outcomes=stats)
    ck.sample({"attack_case": starklib.shrink(cases[1]), "result": res[1]})
    # (3) transcript schedule
    tcases = list(cfgs)
    more = starklib.generate(ck, "SimStarkDet.cfg", "transcript-configs", simulate=120 if thorough else 40, depth=45)
    more = [c for c in more if (c["field"], c["hash"]) in (("f64", "blake3_256"), ("f64", "rp64_256"), ("f128", "blake3_256")) and c["desc"]["log_len"] <= 9]
    tcases += more[: (60 if thorough else 20)]
    for c in tcases:
        c["kind"] = "transcript"
    res = starklib.run_pipeline(binary, "c03-transcript", tcases, engine="attack", timeout=3000)
    rows = []
    keep = []
    for c, r2 in zip(tcases, res):
        if r2.get("verdict") != "accept":
            ck.violation("C03 honest proof not accepted (transcript run): %s" % str(r2.get("verdict"))[:60],
                         "%s :: %s" % (starklib.cfg_signature(c), json.dumps(r2)[:300]), {"engine": "attack", "case": c, "result": r2})
            continue
        e = c["expect"]
        rows.append({"sched": {"aux": 1 if c["desc"]["aux"] else 0, "rands": e["aux_rands"], "ncc": e["ncc"], "ndeep": e["ndeep"],
                               "layers": e["fri_layers"], "queries": c["opts"]["queries"], "lde": str(e["lde_domain"])},
                     "commitments": r2["commitments"], "prover": r2["prover"], "verifier": r2["verifier"]})
        keep.append(c)
    ck.require(len(rows) >= 10, "too few transcripts recorded: %d" % len(rows))
    rejected, st, tr = vf.validate_trace("Transcript.tla", "Transcript.cfg", starklib.SPECDIR, rows, "c03t")
    ck.states += st
    ck.transitions += tr
    ck.traces += len(rows)
    for idx, row in rejected:
        c = keep[idx]
        ck.violation("C03 public-coin transcript deviates from the challenge schedule",
                     "%s :: verifier=%s" % (starklib.cfg_signature(c), json.dumps([(e["e"], e["n"]) for e in row["verifier"]])[:400]),
                     {"engine": "attack", "case": c, "row": row})
    ck.part("transcripts", validated=len(rows), rejected=len(rejected))
    ck.sample({"transcript": {"sched": rows[0]["sched"], "verifier": [(e["e"], e["n"], e["d"][:8]) for e in rows[0]["verifier"]]}})
    if vacuous and not ck.violations:
        raise vf.ToolError("vacuity/coverage guard failed: " + "; ".join(vacuous))
    ck.bounds = {"attack_configs": len(cfgs), "kinds": attacks, "transcripts": len(rows)}
    ck.exhaustive = False
    ck.assumptions = ["ideal commitments/hashes in StarkProto.tla", "the forgery families of attack.rs (one per component)"]


def replay(ck, path):
    rp = json.load(open(path))["replay"]
    binary = vf.build_harness("stark")
    c = rp["case"]
    r2 = starklib.run_pipeline(binary, "c03-replay", [c], engine="attack")[0]
    if c.get("kind") not in ("transcript", "honest") and r2.get("blind") == "accept" and str(r2.get("verdict", "")).startswith("accept"):
        ck.violation("C03 forged %s accepted" % c["kind"], json.dumps(r2)[:400], rp)
    ck.traces += 1
