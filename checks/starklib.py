"""Shared helpers for the end-to-end STARK checks (C01, C02, C03, C06, C29)."""
import json, os
import vf

SPECDIR = os.path.join(vf.SPEC, "stark")


def shrink(case):
    """A printable version of a case (metadata and long lists elided)."""
    c = json.loads(json.dumps(case))
    d = c.get("desc", {})
    if len(d.get("meta", [])) > 16:
        d["meta"] = "<%d bytes>" % len(d["meta"])
    if len(d.get("cols", [])) > 6:
        d["cols"] = d["cols"][:3] + ["... %d columns" % len(d["cols"])]
    if len(d.get("init", [])) > 8:
        d["init"] = d["init"][:4] + ["..."]
    for a in d.get("aux", []):
        if len(a.get("src", [])) > 8:
            a["src"] = a["src"][:4] + ["..."]
    return c


def run_pipeline(binary, name, cases, engine="pipeline", timeout=3000, env=None):
    wd = vf.workdir("stark")
    path = os.path.join(wd, name + ".ndjson")
    vf.write_ndjson(path, cases)
    rc, out, err = vf.run_harness(binary, [engine, path], timeout=timeout, env=env)
    if rc != 0:
        raise vf.ToolError("harness %s failed rc=%d: %s" % (engine, rc, err[-2000:]))
    res = [json.loads(l) for l in out.splitlines() if l.startswith("{")]   # examples print progress lines
    if len(res) != len(cases):
        raise vf.ToolError("harness returned %d results for %d cases" % (len(res), len(cases)))
    return res


def generate(ck, cfgname, name, simulate=None, depth=40, workers=1, timeout=900, tag="REPLAY"):
    module = "StarkCorrupt.tla" if "Corrupt" in cfgname else "Coeffs.tla" if cfgname.startswith("Coeffs") else "MCStarkCfg.tla"
    r = vf.tlc(module, cfgname, cwd=SPECDIR, workers=workers, simulate=simulate, depth=depth,
               seed=ck.seed if simulate else None, timeout=timeout)
    if not r.ok:
        raise vf.ToolError("generator %s failed (specification bug): %s" % (cfgname, (r.error or "")[:2000]))
    ck.add_tlc(name, r)
    return r.tagged(tag)


def cfg_signature(case):
    d, o = case["desc"], case["opts"]
    return "%s/%s ext=%d L=2^%d w=%d aux=%d e=%d blowup=%d fold=%d rem=%d q=%d parts=%d/%d" % (
        case["field"], case["hash"], o["ext"], d["log_len"], d["width"],
        d["aux"][0]["width"] if d.get("aux") else 0, d["exemptions"], o["blowup"], o["fold"], o["rem"],
        o["queries"], o.get("parts", 1), o.get("hash_rate", 1))


def generate_multi(ck, cfgname, name, tags, timeout=900):
    """One TLC run, several tagged case lists."""
    r = vf.tlc("MCStarkCfg.tla", cfgname, cwd=SPECDIR, workers=1, timeout=timeout)
    if not r.ok:
        raise vf.ToolError("generator %s failed (specification bug): %s" % (cfgname, (r.error or "")[:2000]))
    ck.add_tlc(name, r)
    return [r.tagged(t) for t in tags]
