"""C23 — transition divisors, degree bounds, composition columns and periodic columns are consistent.

spec/air/Degrees.tla   integer model: evaluation degree = degree of the product of the declared factors,
                       minimum blowup, the documented exemption bounds, CompDegree = max eval - (L - e),
                       required columns = ceil((CompDegree + 1) / L); TLC checks the design invariants on
                       every context and prints one scenario per context, replayed on
                       TransitionConstraintDegree and AirContext (values and accept / panic classes).
spec/air/Divisor.tla + GenDivisor.tla   Z(x) = PROD_{s < L-e} (x - g^s) over the toy fields; values at
                       every trace-domain point, every other element of F_97 / a coset, extension points,
                       for every e; replayed on ConstraintDivisor::from_transition and on the divisor an
                       AirContext + TransitionConstraints::new produce.
spec/air/Periodic.tla  the interpolant of a cycle and its value p(x^(L/c)) at every trace step, on the
                       LDE coset and at extension points; replayed on Air::get_periodic_column_polys
                       evaluated the way the verifier evaluates it.
spec/air/TransEval.tla the prover's side: the composition trace of an AIR with constraints
                       per_k(x) T(x) + T(g x), one assertion and e exemptions, by definition
                       SUM tc_k C_k(x)/Z_e(x) + cc (T(x) - v)/(x - g^s) on the constraint evaluation domain;
                       replayed on DefaultConstraintEvaluator::evaluate (periodic value table, LDE frames,
                       division by the transition divisor with e > 1), serial and concurrent builds."""
import json, os, collections
import vf, airalglib as al

META = dict(
    technique="TLA+ integer model of degrees / blowups / exemption bounds / composition columns model-checked by TLC over every context in scope, TLA+ definitions of the transition divisor and of periodic-column polynomials over toy prime fields; TLC-computed complete expected values replayed on the real generic code (Generate->Replay, toy-field instantiation)",
    text="TLC checks on 4 064 contexts (base 1..8, <= 2 cycles from {2..L}, L in 8..64, one or two constraints, main/aux) that the documented evaluation degree is the degree of the declared product, that the ce domain determines the composition polynomial for every accepted exemption count and that ceil((deg+1)/L) columns hold it; the same contexts (76 928 (context, e) tuples, 59 047 accepted) are replayed on TransitionConstraintDegree::{new, with_cycles, get_evaluation_degree, min_blowup_factor} and AirContext::{new, new_multi_segment, set_num_transition_exemptions, num_constraint_composition_columns, ce_domain_size} for values and accept/panic classes. The transition divisor is compared with PROD_{s<L-e}(x - g^s) at every trace-domain point, every other element of F_97 (or a coset of the larger fields) and extension points for every e in 1..L/2+1, L in 8..64, four toy fields. Periodic column polynomials of every cycle 2..L are evaluated as the verifier does at every trace step, on the blowup-2 LDE coset and at extension points. The prover's DefaultConstraintEvaluator (periodic value table, frames over the LDE, division by the transition divisor) is compared with the definition of the composition trace for e in {1,2,3,L/4,L/2+1} on the whole constraint evaluation domain, serial and concurrent builds.",
    note="Toy fields stand in for the production fields (the code is field-generic; field arithmetic is C10). The composition-column count is gated as 'enough to hold the polynomial' (more columns than required are counted, not flagged). min_blowup_factor is compared with max(2, next_power_of_two(base + #cycles - 1)), the meaning the AIR family of the framework relies on. At exempted trace-domain points the divisor's quotient representation is 0/0: either the polynomial value or 0-with-vanishing-denominator is accepted there; exactness of the zero set follows from agreement at more than L other points.",
    design="7/C23")


def sig_degrees(sc, det, label):
    cls = ""
    inp = det.get("expected", {}).get("input", {}) if isinstance(det.get("expected"), dict) else {}
    if sc.get("t") == "ctx":
        cls = " L=%s constraints=%d+%d" % (sc["L"], len(sc["main"]), len(sc["aux"]))
        if "e" in inp:
            cls += " e=%s" % inp["e"]
    return "degrees:%s %s%s" % (det.get("call"), det.get("what"), cls)


def sig_divisor(sc, det, label):
    return "divisor:%s %s P=%s L=%s e=%s" % (det.get("call"), det.get("what"), sc["P"], sc["L"], det.get("e"))


def sig_transeval(sc, det, label):
    return "transeval:%s[%s] %s P=%s L=%s e=%s d=%s" % (det.get("call"), label, det.get("what"), sc["P"], sc["L"], sc["e"], sc["d"])


def sig_periodic(sc, det, label):
    return "periodic:%s %s P=%s L=%s cycle=%s" % (det.get("call"), det.get("what"), sc["P"], sc["L"], det.get("cycle"))


def gen_all(ck, thorough):
    suf = "_thorough" if thorough else ""
    out = {}
    # design level: the column count as found loses a coefficient (expected TLC counterexample; not a gate)
    r = vf.tlc("Degrees.tla", "Degrees_found.cfg", cwd=al.AIRDIR, workers=2, timeout=300)
    ck.part("design:columns-as-found", tlc_reports=(r.error or "no violation")[:120],
            meaning="ceil(CompDegree / L) columns do not hold CompDegree + 1 coefficients (repaired in the tree)")
    if r.ok:
        raise vf.ToolError("Degrees_found.cfg no longer exhibits the lost coefficient: the model changed")
    sc = al.generate(ck, "degrees", "Degrees.tla", "GenDegrees%s.cfg" % suf, al.AIRDIR, timeout=1200)
    kinds = collections.Counter(s["t"] for s in sc)
    ck.require(kinds["ctx"] >= 4000 and kinds["ctor"] >= 25, "degree generator printed too few cases: %s" % dict(kinds))
    tuples = sum(len(s["ex"]) for s in sc if s["t"] == "ctx")
    accepted = sum(1 for s in sc if s["t"] == "ctx" for e in s["ex"] if e["ok"])
    multi = sum(1 for s in sc if s["t"] == "ctx" for e in s["ex"] if e["ok"] and e["cols"] > 1)
    exact = sum(1 for s in sc if s["t"] == "ctx" for e in s["ex"] if e["ok"] and e["deg"] % s["L"] == 0)
    ck.require(accepted > 10000 and tuples - accepted > 4000 and multi > 5000 and exact > 50,
               "degree cases are not diverse: tuples=%d accepted=%d multi-column=%d deg%%L==0: %d" % (tuples, accepted, multi, exact))
    ck.part("gen:degrees", contexts=kinds["ctx"], ctor_cases=kinds["ctor"], context_e_tuples=tuples, accepted=accepted,
            multi_column=multi, degree_multiple_of_L=exact)
    out["degrees"] = sc
    sc = al.generate(ck, "divisor", "MCDivisor.tla", "GenDivisor%s.cfg" % suf, al.AIRDIR, timeout=1200)
    ck.require(len(sc) >= 11 and {s["P"] for s in sc} == {97, 193, 257, 40961} and max(s["L"] for s in sc) >= 64,
               "divisor generator printed too few cases: %d" % len(sc))
    npts = sum(len(s[d]["pts"]) * len(s["deg"]) for s in sc for d in ("d1", "d2", "d3"))
    ck.part("gen:divisor", cases=len(sc), point_e_pairs=npts)
    out["divisor"] = sc
    sc = al.generate(ck, "periodic", "MCPeriodic.tla", "GenPeriodic%s.cfg" % suf, al.AIRDIR, timeout=1200)
    cyc = collections.Counter((s["P"], s["L"], len(v)) for s in sc for v in s["values"])
    ck.require(len(sc) >= 100 and all(cyc[(257, 64, c)] >= 2 for c in (2, 4, 8, 16, 32, 64)) and cyc[(40961, 128, 128)] >= 2,
               "periodic generator misses cycles: %d cases" % len(sc))
    ck.part("gen:periodic", cases=len(sc), columns=sum(len(s["values"]) for s in sc))
    out["periodic"] = sc
    sc = al.generate(ck, "transeval", "MCTransEval.tla", "GenTransEval%s.cfg" % suf, al.AIRDIR, timeout=1200)
    es = collections.Counter("e=1" if s["e"] == 1 else "e=L/2+1" if s["e"] == s["L"] // 2 + 1 else "1<e<=L/2" for s in sc)
    ck.require(len(sc) >= 50 and es["e=1"] >= 10 and es["e=L/2+1"] >= 10 and es["1<e<=L/2"] >= 20 and {s["d"] for s in sc} == {1, 2, 3},
               "transition-evaluation cases missing: %s" % dict(es))
    ck.part("gen:transeval", cases=len(sc), exemptions=dict(es), values=sum(len(s["comp"]) for s in sc))
    out["transeval"] = sc
    return out


def run(ck, tier):
    thorough = tier == "thorough"
    binary = vf.build_harness("airalg")
    sc = gen_all(ck, thorough)
    ck.sample(next(s for s in sc["degrees"] if s["t"] == "ctx" and s["L"] == 8 and len(s["aux"]) == 1 and s["main"][0]["cycles"]))
    ck.sample(next(s for s in sc["degrees"] if s["t"] == "ctor" and not s["ok"]))
    ck.sample(al.brief(sc["divisor"][0], 300))
    ck.sample(al.brief(next(s for s in sc["periodic"] if s["L"] == 8), 300))
    s1, _ = al.replay(ck, binary, "degrees", "degrees", sc["degrees"], sig=sig_degrees)
    ck.require(s1["calls"] > 50000, "degree replay made too few calls: %d" % s1["calls"])
    s2, _ = al.replay(ck, binary, "divisor", "divisor", sc["divisor"], sig=sig_divisor)
    ck.require(s2["calls"] > 20000, "divisor replay made too few calls: %d" % s2["calls"])
    s3, _ = al.replay(ck, binary, "periodic", "periodic", sc["periodic"], sig=sig_periodic)
    ck.require(s3["calls"] > 10000, "periodic replay made too few calls: %d" % s3["calls"])
    s4, _ = al.replay(ck, binary, "transeval", "transeval", sc["transeval"], sig=sig_transeval)
    ck.require(s4["calls"] > 2000, "transition-evaluation replay compared too few values: %d" % s4["calls"])
    conc = vf.build_harness("airalg", variant="concurrent")
    s5, _ = al.replay(ck, conc, "transeval", "transeval", sc["transeval"], label="concurrent", threads=[1, 4], sig=sig_transeval)
    ck.require(s5["concurrent"] is True and s5["runs"] == 2, "the concurrent binary did not run both pools")
    if thorough:
        dev = vf.build_harness("airalg", profile="dev")      # debug assertions and overflow checks on
        al.replay(ck, dev, "degrees", "degrees", sc["degrees"], label="serial-dev", sig=sig_degrees)
        al.replay(ck, dev, "divisor", "divisor", sc["divisor"], label="serial-dev", sig=sig_divisor)
        al.replay(ck, dev, "periodic", "periodic", sc["periodic"], label="serial-dev", sig=sig_periodic)
    ck.bounds = {"degrees": "base 1..8 (10 thorough), <= 2 cycles from {2,4,..,L}, L in {8,16,32,64} (+128), e in 0..L/2+2, 1-2 constraints (main/aux), option blowups {ce, 2ce, ce/2}",
                 "divisor": "L in 8..64 (128 thorough) over F_97 (L<=32), F_193, F_257, F_40961; every e in 1..L/2+1; all trace-domain points + all other elements of F_97 / coset + quadratic and cubic extension points",
                 "transeval": "L in {8,16,64} F_257, {32,128} F_40961, 16 F_193 (more thorough); e in {1,2,3,L/4,L/2+1}; two periodic columns; all 2L ce points for L <= 64, 16 sampled otherwise; base / quadratic / cubic coefficients; release builds",
                 "periodic": "cycles 2..L, L in 8..128 (512 thorough), seeded / constant / unit / ramp values, six-column mixtures; all trace steps, 2L coset points, 6 extension points"}
    ck.exhaustive = False
    ck.assumptions = ["toy field types implement FieldP.tla's arithmetic and get_root_of_unity returns RootOfUnity(P, k) (a wrong root shows up as a mismatch)",
                      "min_blowup_factor is specified as max(2, next_power_of_two(base + #cycles - 1))",
                      "an exempted trace-domain point may evaluate to 0 when the denominator of the divisor's quotient representation vanishes there",
                      "more composition columns than required are tolerated (counted in cols_above_required)"]


def replay(ck, path):
    obj = json.load(open(path))
    rp = obj["replay"]
    build = rp.get("build", "serial")
    binary = vf.build_harness("airalg", profile="dev" if build.endswith("-dev") else "release")
    sig = {"degrees": sig_degrees, "divisor": sig_divisor, "periodic": sig_periodic, "transeval": sig_transeval}[rp["engine"]]
    if build.startswith("concurrent"):
        binary = vf.build_harness("airalg", variant="concurrent")
        al.replay(ck, binary, rp["engine"], "replay", [rp["scenario"]], label=build, threads=[rp.get("threads") or 4], sig=sig)
    else:
        al.replay(ck, binary, rp["engine"], "replay", [rp["scenario"]], label=build, sig=sig)
