"""C20 — public-coin randomness is deterministic and well-formed.
(1) spec/coin/MCRandomCoin.tla: TLC model-checks the coin machine of RandomCoin.tla over symbolic hash
terms (determinism, sensitivity to one changed reseed digest, freshness of the digests results are read
from, count/range of integer draws, counter discipline) — design level.
(2) Record -> Validate: seeded random call histories are run on the real
DefaultRandomCoin<LoggedHasher<H>> (three runs each: A, A again, B with one reseed digest replaced) and
spec/coin/TraceCoin.tla validates every recorded call against the same machine, with the machine's
hash operators bound to the hasher calls the coin actually made."""
import json, os, re, time
import vf

SPECDIR = os.path.join(vf.SPEC, "coin")

META = dict(
    technique="TLA+ state machine of the random coin over symbolic hash terms, model-checked by TLC; seeded random call histories recorded on the real DefaultRandomCoin through a logging hasher and validated event by event by TLC against the same machine (trace validation)",
    text="Design level: for every history of up to 3 (4) calls over two model fields TLC checks that equal histories give equal states and results, that replacing one reseed digest makes every later result come from a different digest, that no result digest is used twice, that integer draws return exactly n values below the domain size and that the counter is reset by reseeding. Implementation level: every public call (new, reseed, draw over base/quadratic/cubic elements, draw_integers, check_leading_zeros) of recorded histories over 18 hasher/field instantiations plus a harness-defined transparent-head hasher (merge_with_int output begins with the integer times an odd constant, so check_leading_zeros is validated on every count 0..64 and integer draws have high bits set) is explained by the machine using the hasher calls the coin made; drawn elements are valid per coordinate, integers are the masked first 8 bytes, leading-zeros is the trailing-zero count of the first 8 bytes of merge_with_int(seed, nonce); two identical runs are event-for-event equal and a run with one reseed digest replaced reads all later results from different digests.",
    note="Hash functions are treated as collision-free (digests are interned ids); the machine's hashes are looked up among the calls the coin made through the Hasher/ElementHasher traits, so a coin that obtained the same digests without calling H::merge / H::merge_with_int / H::hash_elements would be rejected. Domain sizes 2..2^63 and drawn integers are 8-byte little-endian arrays (TLC integers are 32-bit), masking is byte arithmetic; n <= 255 (1000/1001 in the thorough tier); documented panics of draw_integers (size not a power of two, n >= size) are preconditions of the generator.",
    design="7/C20")

MOD = {"f64": 2**64 - 2**32 + 1, "f62": 2**62 - 111 * 2**39 + 1, "f128": 2**128 - 45 * 2**40 + 1,
       "t97": 97, "t257": 257, "t257r": 257, "t40961": 40961, "t40961r": 40961}
WIDTH = {"f64": 8, "f62": 8, "f128": 16, "t97": 4, "t257": 4, "t257r": 4, "t40961": 4, "t40961r": 4}
MAXDEG = {"f128": 2}
HNAME = {"thead": "TransparentHead", "b256": "Blake3_256", "b192": "Blake3_192", "sha3": "Sha3_256", "rp64": "Rp64_256", "rpj64": "RpJive64_256",
         "rp62": "Rp62_248"}
# (hasher, field, is_toy)
COMBOS = [("b256", "f128"), ("b256", "f64"), ("b256", "f62"), ("b192", "f128"), ("b192", "f64"), ("b192", "f62"),
          ("sha3", "f128"), ("sha3", "f64"), ("sha3", "f62"), ("rp64", "f64"), ("rpj64", "f64"), ("rp62", "f62"),
          ("b256", "t97"), ("b256", "t257"), ("sha3", "t257r"), ("b256", "t40961"), ("b192", "t40961"),
          ("sha3", "t40961r")]
NONCES = [0, 1, 2**64 - 1, 2**32, 2**63]
# The harness' transparent-head hasher (merge_with_int(seed, v) has v as its first 8 bytes): the driver
# chooses the digest head, so every trailing-zero count 0..64 of check_leading_zeros is reached (with real
# hashers a head with > ~30 trailing zero bits never occurs).
SWEEP_COMBOS = [("thead", "f64"), ("thead", "f128"), ("thead", "f62"), ("thead", "t40961")]


def le(v, n):
    return list(int(v).to_bytes(n, "little"))


def gen_history(rng, hid, h, f, maxlen, err_draws=1, nmax=255):
    p, w = MOD[f], WIDTH[f]
    toy = f.startswith("t")
    nseed = rng.choice([0, 1, 1, 2, 3, 4, 8])
    seed = [le(rng.choice([0, 1, p - 1, rng.randrange(p), rng.randrange(p)]), w) for _ in range(nseed)]
    nops = rng.randint(max(4, maxlen // 2), maxlen)
    ops = []
    draws = 0
    for _ in range(nops):
        k = rng.choice(["reseed", "reseed", "draw", "draw", "draw", "ints", "ints", "lz"])
        if k == "reseed":
            ops.append({"op": "reseed", "data": [rng.randrange(256) for _ in range(rng.choice([0, 1, 8, 32]))]})
        elif k == "draw":
            deg = rng.randint(1, MAXDEG.get(f, 3))
            if toy and deg > 1:
                # extension elements of a toy field need canonical 4-byte coordinates below a tiny modulus:
                # practically every candidate is rejected, the draw costs 1000 hasher calls and ends in
                # the documented error -- at most err_draws of those per history
                draws += 1
                if draws > err_draws:
                    deg = 1
            ops.append({"op": "draw", "deg": deg})
        elif k == "ints":
            bits = rng.choice([1, 2, 3, 5, 8, 10, 16, 20, 24, 31, 32, 33, 40, 56, 62, 63, rng.randint(1, 63), rng.randint(25, 63)])
            size = 1 << bits
            n = rng.choice([1, 1, 2, 3, 7, rng.randint(1, 40), rng.randint(1, nmax), nmax, size - 1])
            n = max(1, min(n, size - 1, nmax))
            ops.append({"op": "ints", "n": n, "size": le(size, 8), "nonce": le(rng.choice(NONCES + [rng.randrange(2**64)]), 8)})
        else:
            ops.append({"op": "lz", "nonce": le(rng.choice(NONCES + [rng.randrange(2**64), rng.randrange(2**16)]), 8)})
    # every history has every kind of call (and, when allowed, one failing toy-extension draw)
    have = {o["op"] for o in ops}
    if "draw" not in have:
        ops.append({"op": "draw", "deg": 1})
    if "ints" not in have:
        ops.append({"op": "ints", "n": 3, "size": le(1 << rng.choice([4, 36, 63]), 8), "nonce": le(rng.choice(NONCES), 8)})
    if "lz" not in have:
        ops.append({"op": "lz", "nonce": le(rng.choice(NONCES), 8)})
    if toy and err_draws > 0 and draws == 0:
        ops.insert(rng.randrange(len(ops) + 1), {"op": "draw", "deg": 2})
    # run B replaces the digest of one reseed call; make sure there is one, not at the very end
    idx = [i for i, o in enumerate(ops) if o["op"] == "reseed" and i < len(ops) - 2]
    if not idx:
        ops.insert(0, {"op": "reseed", "data": [7]})
        idx = [0]
    di = rng.choice(idx)
    alt = list(ops[di]["data"]) + [rng.randrange(256)]
    return {"hid": hid, "h": h, "f": f, "seed": seed, "ops": ops, "div": di + 2, "alt": alt}


def gen_lz_sweep(rng, hid, h, f):
    """check_leading_zeros with nonces of every trailing-zero count 0..64 (random odd number shifted left by
    the count; 0 for 64), spread over the coin states after new / reseed / draw / draw_integers"""
    counts = list(range(65))
    rng.shuffle(counts)
    nonces = [0 if k == 64 else ((2 * rng.randrange(2 ** (63 - k)) + 1) << k) for k in counts]
    between = [{"op": "reseed", "data": [rng.randrange(256) for _ in range(4)]}, {"op": "draw", "deg": 1},
               {"op": "ints", "n": 9, "size": le(1 << 63, 8), "nonce": le(rng.randrange(2**64), 8)},
               # toy extension draws practically always end in the 1000-candidate error: base draws only there
               {"op": "draw", "deg": 1 if f.startswith("t") else 2}, {"op": "reseed", "data": [3]},
               {"op": "ints", "n": 7, "size": le(1 << rng.randint(33, 62), 8), "nonce": le(rng.randrange(2**64), 8)}]
    ops = []
    for i, x in enumerate(nonces):
        ops.append({"op": "lz", "nonce": le(x, 8)})
        if i % 11 == 10 and between:
            ops.append(between.pop(0))
    first_reseed = next(i for i, o in enumerate(ops) if o["op"] == "reseed")
    return {"hid": hid, "h": h, "f": f, "oracle": 0, "seed": [le(rng.randrange(MOD[f]), WIDTH[f])], "ops": ops,
            "div": first_reseed + 2, "alt": [rng.randrange(256) for _ in range(5)]}


def record(binary, hists, name):
    wd = vf.workdir("c20")
    hp = os.path.join(wd, "%s-%d.hist.ndjson" % (name, os.getpid()))
    ep = os.path.join(wd, "%s-%d.events.ndjson" % (name, os.getpid()))
    vf.write_ndjson(hp, hists)
    rc, out, err = vf.run_harness(binary, ["coin", hp, ep], timeout=600)
    if rc != 0:
        raise vf.ToolError("harness coin failed rc=%d: %s" % (rc, err[-2000:]))
    summary = json.loads(out.strip().splitlines()[-1])
    events = vf.read_ndjson(ep)
    os.unlink(hp)
    os.unlink(ep)
    return events, summary


def coin_name(ev_begin):
    return "DefaultRandomCoin<%s<%s>>" % (HNAME.get(ev_begin["h"], ev_begin["h"]), ev_begin["f"])


def describe(events, k):
    """signature + description of the rejected event k (0-based) from the event itself"""
    e = events[k]
    b = k
    while b > 0 and events[b]["e"] != "begin":
        b -= 1
    name = coin_name(events[b])
    what = e["e"]
    if what == "ints":
        cls = "n=0" if e["n"] == 0 else ("n>1000" if e["n"] > 1000 else "n>=1")
        got = "returned %s with %d values" % (e["r"]["t"], len(e["r"]["v"])) if e["r"]["t"] == "ok" else e["r"]["t"]
        sig = "%s.draw_integers %s %s" % (name, cls, "wrong-count" if (e["r"]["t"] == "ok" and len(e["r"]["v"]) != e["n"]) else "mismatch")
        desc = "draw_integers(n=%d, domain_size=%d, nonce=%s) %s" % (e["n"], int.from_bytes(bytes(e["size"]), "little"), e["nonce"], got)
    elif what == "draw":
        sig = "%s.draw deg=%d %s" % (name, e["deg"], e["r"]["t"])
        desc = "draw of a degree-%d element returned %s, not what the coin machine gives for the logged hasher outputs" % (e["deg"], json.dumps(e["r"]))
    elif what == "lz":
        sig = "%s.check_leading_zeros" % name
        desc = "check_leading_zeros(nonce=%s) returned %s" % (e["nonce"], json.dumps(e["r"]))
    elif what == "end":
        sig = "%s.run-%s %s" % (name, e["run"], "nondeterministic" if e["run"] == "A2" else "insensitive-to-reseed")
        desc = ("two runs of the same history differ" if e["run"] == "A2"
                else "a run with reseed call %d given another digest is not separated from the original run" % e["div"])
    else:
        sig = "%s.%s %s" % (name, what, e["r"]["t"])
        desc = "%s returned %s / made hasher calls the machine does not explain" % (what, json.dumps(e["r"]))
    if e.get("r", {}).get("t") == "panic":
        sig += " @" + e["r"].get("msg", "").split(": ")[0].replace("/repo/", "")
    return sig, desc


def expected_for(events, s, k):
    """what the machine gives for event k: TLC re-validates the history's events s..k with the diagnostic
    configuration, which prints the machine's result for every event"""
    wd = vf.workdir("traces")
    path = os.path.join(wd, "diag-%d.ndjson" % os.getpid())
    vf.write_ndjson(path, events[s:k + 1])
    try:
        r = vf.tlc("TraceCoin.tla", "TraceCoinDiag.cfg", cwd=SPECDIR, workers=1, timeout=600, env={"TRACE": path}, deque=True)
    except vf.ToolError:
        return None
    finally:
        os.unlink(path)
    for x in r.tagged("EXPECT"):
        if x["l"] == k - s + 1:
            return x["x"]
    return None


def history_slices(events):
    """[(start, end)] event index ranges of the histories (runs A, A2, B of one hid)"""
    out, start = [], 0
    for i, e in enumerate(events):
        if e["e"] == "begin" and e["run"] == "A" and i > start:
            out.append((start, i))
            start = i
    out.append((start, len(events)))
    return out


def validate(ck, events, hists, name):
    """TLC validates the whole trace; after a rejection validation resumes at the next history (a rejected
    call leaves the model and the coin in different states, the rest of that history means nothing)."""
    slices = history_slices(events)
    by_start = {s: (s, e) for s, e in slices}
    pos, nrej = 0, 0
    while pos < len(events):
        cur = events[pos:]
        rej, states, trans = vf.validate_trace("TraceCoin.tla", "TraceCoin.cfg", SPECDIR, cur, name,
                                               max_rejections=1, timeout=900)
        ck.states += states
        ck.transitions += trans
        if not rej:
            break
        k = pos + rej[0][0]
        s, e = max((se for se in slices if se[0] <= k), key=lambda se: se[0])
        sig, desc = describe(events, k)
        known = any((kf.get("signature_regex") and re.search(kf["signature_regex"], sig)) or kf.get("signature") == sig
                    for kf in ck.known)
        exp = expected_for(events, s, k) if (events[k]["e"] not in ("begin", "end") and not known) else None
        if exp is not None:
            res = exp["res"]
            if res["t"] == "ok" and len(res["v"]) > 40:
                res = {"t": "ok", "v": "<%d values>" % len(res["v"])}
            desc += " | machine: %s, counter afterwards %s%s" % (json.dumps(res), exp["counter"],
                     "" if exp["found"] else " (a hash the machine needs was not among the coin's hasher calls)")
        hid = events[s]["hid"]
        hist = next((h for h in hists if h["hid"] == hid), None)
        ck.violation(sig, desc, {"engine": "coin", "history": hist, "rejected_event": events[k]["e"],
                                 "rejected_run": events[k]["run"], "event_index_in_history": k - s})
        nrej += 1
        if nrej >= 6:
            break
        pos = e
    return nrej


def design_level(ck, thorough):
    r = vf.tlc("MCRandomCoin.tla", "MCRandomCoin_thorough.cfg" if thorough else "MCRandomCoin.cfg", cwd=SPECDIR,
               workers=4, timeout=2400 if thorough else 400)
    ck.add_tlc("design:symbolic-coin", r)
    if not r.ok:
        raise vf.ToolError("the symbolic coin machine violates its design-level invariants (specification bug): %s" % r.error)
    ck.require(r.distinct > 1000, "symbolic model explored too few states: %d" % r.distinct)


def run(ck, tier):
    binary = vf.build_harness("hashcoin")
    thorough = tier == "thorough"
    design_level(ck, thorough)
    per_combo = 5 if thorough else 1
    maxlen = 30 if thorough else 16
    hists, hid = [], 0
    ntoy = 0
    for (h, f) in COMBOS:
        ntoy += f.startswith("t")
        for _ in range(per_combo):
            hid += 1
            # quick tier: a failing 1000-candidate draw only in the first toy instantiation, n <= 100
            hists.append(gen_history(ck.rng, hid, h, f, maxlen, err_draws=1 if (thorough or ntoy == 1) else 0,
                                     nmax=255 if thorough else 100))
    for (h, f) in SWEEP_COMBOS:
        hid += 1
        hists.append(gen_lz_sweep(ck.rng, hid, h, f))
    # the integer draw with zero requested values: a tiny history of its own at the end of the trace (after a
    # rejection validation resumes at the next history, so it hides nothing and nothing hides it)
    hid += 1
    zero = [{"hid": hid, "h": "b256", "f": "f128", "seed": [le(1, 16)],
             "ops": [{"op": "reseed", "data": [1]}, {"op": "ints", "n": 0, "size": le(8, 8), "nonce": le(0, 8)},
                     {"op": "draw", "deg": 1}],
             "div": 2, "alt": [2]}]
    if thorough:
        # exactly 1000 integers is the most one call can return; 1001 is the documented error
        hid += 1
        hists.append({"hid": hid, "h": "sha3", "f": "f64", "seed": [le(5, 8)],
                      "ops": [{"op": "reseed", "data": [9]}, {"op": "ints", "n": 1000, "size": le(1024, 8), "nonce": le(7, 8)},
                              {"op": "draw", "deg": 2}, {"op": "ints", "n": 1001, "size": le(1 << 63, 8), "nonce": le(2**64 - 1, 8)},
                              {"op": "draw", "deg": 1}, {"op": "lz", "nonce": le(1001, 8)}],
                      "div": 2, "alt": [10]})
    t0 = time.time()
    hists = hists + zero
    events, summary = record(binary, hists, "rec")
    ck.require(summary["histories"] == len(hists), "recorder dropped histories")
    kinds = {}
    for e in events:
        key = e["e"] + ("/" + e["r"]["t"] if e["e"] in ("draw", "ints") else "")
        kinds[key] = kinds.get(key, 0) + 1
    for k in ["new", "reseed", "draw/ok", "draw/err", "ints/ok", "lz", "end"] + (["ints/err"] if thorough else []):
        ck.require(kinds.get(k, 0) > 0, "no recorded event of kind " + k)
    # vacuity: over the transparent-head hasher every count 0..64 was reported by check_leading_zeros
    lz_counts, cur = {}, None
    for e in events:
        if e["e"] == "begin":
            cur = (e["h"], e["f"])
        elif e["e"] == "lz" and e["r"]["t"] == "ok":
            lz_counts.setdefault(cur, set()).add(e["r"]["v"][0])
    expected_nonce_counts = set(range(65))
    for hf in SWEEP_COMBOS:
        nonce_tz = set()
        for hh in hists:
            if (hh["h"], hh["f"]) == hf:
                for o in hh["ops"]:
                    if o["op"] == "lz":
                        v = int.from_bytes(bytes(o["nonce"]), "little")
                        nonce_tz.add(64 if v == 0 else (v & -v).bit_length() - 1)
        ck.require(nonce_tz == expected_nonce_counts, "leading-zeros sweep over %s<%s> misses digest heads with some trailing-zero count" % hf)
    # vacuity: integer draws over domains of at least 2^40 where the digest heads the values are read from
    # (hasher outputs, logged facts -- not what the coin returned) have bits 32..39 set, so that the expected
    # values exceed 2^32; with real hashers and with the transparent-head hasher; and the largest domain 2^63
    wide = {"real": 0, "thead": 0}
    top = 0
    for e in events:
        if e["e"] == "begin":
            cur = (e["h"], e["f"])
        elif e["e"] == "ints":
            sz = int.from_bytes(bytes(e["size"]), "little")
            top += sz == 1 << 63
            if sz >= 1 << 40 and any(x["fn"] == "mi" and x["ob"][4] != 0 for x in e["hf"][1:]):
                wide["thead" if cur[0] == "thead" else "real"] += 1
    ck.require(wide["real"] > 0 and wide["thead"] > 0, "no integer draw over a domain >= 2^40 read from a digest head with bits above 2^32: %s" % wide)
    ck.require(top > 0, "no integer draw over the domain 2^63")
    retried = sum(1 for e in events if e["e"] == "draw" and e["r"]["t"] == "ok" and len(e["hf"]) >= 2)
    ck.require(retried > 0, "no draw that succeeded after a rejected candidate")
    t1 = time.time()
    nrej = validate(ck, events, hists, "coin")
    t2 = time.time()
    ncalls = sum(1 for e in events if e["e"] not in ("begin", "end"))
    ck.traces += 3 * len(hists)
    ck.part("timing", record_s=round(t1 - t0, 1), validate_s=round(t2 - t1, 1))
    ck.evaluations += ncalls
    for e in events:
        if e["e"] == "draw" and e["r"]["t"] == "ok" and 2 <= len(e["hf"]) <= 3:
            ck.sample(e)
            break
    for e in events:
        if e["e"] == "lz":
            ck.sample(e)
            break
    ck.part("recorded", histories=len(hists), runs=3 * len(hists), coin_calls=ncalls, hasher_calls=summary["hash_facts"],
            events_by_kind=kinds, draws_accepted_after_rejection=retried, rejected_events=nrej,
            instantiations=["%s<%s>" % (HNAME[h], f) for h, f in COMBOS + SWEEP_COMBOS],
            integer_draws_with_values_above_2_32=wide, integer_draws_over_domain_2_63=top,
            leading_zero_counts_reported={"%s<%s>" % (HNAME[h], f): sorted(v) for (h, f), v in lz_counts.items()
                                          if (h, f) in SWEEP_COMBOS})
    ck.bounds = {"design": "histories <= %d calls, model fields m97/m251 (1-byte elements), MaxTries scaled to 3" % (4 if thorough else 3),
                 "recorded": "%d histories x 3 runs, <= %d calls each, 18 real + 4 transparent-head hasher/field instantiations, domain sizes 2..2^63 (8-byte arrays), n <= 100 (255 thorough), nonces incl. 0 and 2^64-1" % (len(hists), maxlen)}
    ck.exhaustive = False
    ck.assumptions = ["hash functions are collision free on the observed inputs (digests interned to ids)",
                      "the coin reaches its hashes through the Hasher / ElementHasher traits",
                      "draw_integers preconditions (power-of-two size, n < size) hold in generated histories"]


def replay(ck, path):
    binary = vf.build_harness("hashcoin")
    obj = json.load(open(path))
    hist = obj["replay"]["history"]
    events, summary = record(binary, [hist], "replay")
    validate(ck, events, [hist], "replay")
    ck.traces += 3
