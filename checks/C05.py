"""C05 — deserializing and verifying untrusted proofs never crashes or hangs.
Inputs: every C04 mutation enumerated by spec/wire/ProofWire.tla (field-level, boundary, structural,
length-compensating), the TLC-enumerated header byte values (one at a time everywhere, two at a time on
the first instance / everywhere in thorough), the same mutations applied to the isolated components and
fed to the component decoders, and seeded unstructured random strings / random substitutions.
Each input runs in an ISOLATED CHILD PROCESS (address space limited to 4 GiB, 10 s wall clock per
input, progress marker before each input) through Proof::from_bytes, winterfell::verify with the three
AcceptableOptions variants, and the component decoders.  spec/wire/TraceWire.tla (Mode C05) accepts an
outcome only if every operation returned Ok or Err; a panic, an abort, a memory-limit kill or a timeout
is a violation.  Both build profiles: dev (overflow checks and debug assertions on) and release."""
import json, os
import vf, wirelib, C04

META = dict(
    technique="TLC-enumerated structure-aware mutations and header byte strings (ProofWire.tla) + seeded random inputs, executed in isolated rlimit/timeout-guarded worker processes in both build profiles; TLC trace validation of the outcome classes (TraceWire.tla)",
    text="Every enumerated mutation of the honest proofs of the WireCases instances, the header byte boundary values, the mutated components (TraceInfo, ProofOptions, Context, Commitments::parse, Queries::parse, OodFrame::parse, FriProof::read_from + parse_layers + parse_remainder + num_partitions, BatchMerkleProof, digests, field elements) and seeded random strings are fed to Proof::from_bytes, to verify under OptionSet / MinConjecturedSecurity / MinProvenSecurity and to the component decoders; the only outcomes TraceWire.tla allows are a value or an error.",
    note="'Never' is explored, not proved. Hangs are bounded by a 10 s timeout per input, oversized allocations by RLIMIT_AS = 4 GiB (inputs are < 64 KiB). The AIR used for verification (harness/wire/src/air.rs) adapts to the trace info announced by the proof instead of asserting, and decoder arguments stay inside the documented preconditions, so every recorded panic originates in winterfell. Panic sites are reported by file:line.",
    design="7/C05")


def stage_and_site(task, res):
    """(stage, class, site) of the first operation of a result that did not return."""
    kind = task["k"]
    first = "decode %s" % task["d"] if kind == "dec" else "Proof::from_bytes"
    if res.get("timeout"):
        return (first if kind == "dec" else "Proof::from_bytes+verify"), "timeout", ">10s"
    if res.get("crash"):
        what = res.get("what", "")
        what = "memory allocation of N bytes failed" if "memory allocation" in what else what[:80]
        return (first if kind == "dec" else "Proof::from_bytes+verify"), "abort", what
    de = res.get("de", ["?", ""])
    if de[0] == "panic":
        return first, "panic", wirelib.loc_of(de[1])
    if res.get("ds", [""])[0] == "panic":
        return "Proof::read_from(ReadAdapter)", "panic", wirelib.loc_of(res["ds"][1])
    for v, o in sorted((res.get("ve") or {}).items()):
        if o[0] == "panic":
            return "verify", "panic", wirelib.loc_of(o[1])
    return first, "?", "?"


def signature(task, res):
    st, cl, site = stage_and_site(task, res)
    if cl == "panic":
        return "%s panic @%s" % (st, site)
    return "%s %s(%s)" % (st, cl, site)


def evaluate(ck, rows, tasks, meta, results, profile, name):
    events = []
    for r in results:
        de, ve = wirelib.classify(r)
        events.append({"de": de, "ve": [ve[k] for k in sorted(ve)], "diff": []})
    rejected = wirelib.validate_outcomes(ck, events, "C05", name)
    sites = {}
    for i in rejected:
        t, mt, r = tasks[i], meta[i], results[i]
        sig = signature(t, r)
        det = r.get("de", ["", ""])[1] if r.get("de", [""])[0] == "panic" else ""
        for v, o in sorted((r.get("ve") or {}).items()):
            if o[0] == "panic" and not det:
                det = o[1]
        sites[sig] = sites.get(sig, 0) + 1
        ck.violation(sig, "[%s build] %s on %s (%s of %s in %s): %s" % (
            profile, sig, wirelib.case_name(rows[mt["c"]]), mt["cls"], mt["fld"], mt["span"], (det or r.get("what", ""))[:200]),
            {"profile": profile, "case": rows[mt["c"]], "task": t, "meta": mt, "outcome": r})
    return events, rejected, sites


def build_tasks(ck, rows, proofs, tier):
    thorough = tier == "thorough"
    allm = wirelib.gen_mutations(ck, rows, proofs, thorough)
    muts = C04.select(allm, tier, ck.seed)
    tasks = [{"k": "mut", "c": m["c"], "e": m["e"], "acc": C04.variants_for(m)} for m in muts]
    meta = [{"c": m["c"], "span": "proof", "dec": "Proof", "cls": m["cls"], "fld": m["fld"]} for m in muts]
    # components: the (selected) mutations that fall inside one component, plus the honest components
    dt, dm = wirelib.decoder_tasks(rows, proofs, muts if thorough else [m for m in muts if not m["cls"].startswith("hdr.two")])
    n_raw, n_subst, n_dec = (300, 600, 60) if thorough else (60, 150, 12)
    rt, rm = wirelib.random_tasks(ck.rng, rows, proofs, n_raw, n_subst, n_dec)
    # "any public inputs": every 8th mutation again with a perturbed public input, and every honest /
    # lightly mutated proof handed to the verifier of every other instance
    pt, pm = [], []
    for j, (t, m) in enumerate(zip(tasks, meta)):
        if j % 8 == 0:
            pt.append(dict(t, pd=1 + j % 5))
            pm.append(dict(m, cls=m["cls"] + "+pub"))
    for a in range(len(rows)):
        for b in range(len(rows)):
            if a != b:
                pool = [m for m in muts if m["c"] == b and m["cls"] in ("end.identity", "hdr.one", "int.plus1", "int.zero")]
                for m in pool[:: max(1, len(pool) // (12 if thorough else 30))]:
                    pt.append({"k": "cross", "c": a, "src": b, "e": m["e"], "acc": C04.CTX_VARIANTS})
                    pm.append({"c": a, "span": "proof", "dec": "Proof", "cls": "cross." + m["cls"], "fld": m["fld"]})
    n_mut = len(tasks)
    # proofs are also read from files and sockets: every mutated / random proof image is decoded through the
    # streaming reader as well (one more operation that must return a value or an error)
    for t in tasks + rt:
        if t["k"] in ("mut", "raw"):
            t["stream"] = True
    return (tasks + dt + rt + pt, meta + dm + rm + pm,
            dict(mutations=n_mut, generated=len(allm), component_inputs=len(dt), random_inputs=len(rt), other_public_inputs=len(pt)))


def run(ck, tier):
    thorough = tier == "thorough"
    rel = vf.build_harness("wire")
    dev = vf.build_harness("wire", profile="dev")
    rows = wirelib.gen_cases(ck, thorough)
    proofs, ppath = wirelib.honest_proofs(ck, rel, rows, "c05")
    try:
        for r, p in zip(rows, proofs):
            if not p.get("ok") or p["verdict"][0] != "ok":
                raise vf.ToolError("no accepted honest proof for %s: %s %s" % (wirelib.case_name(r), p.get("error"), p.get("verdict")))
        tasks, meta, counts = build_tasks(ck, rows, proofs, tier)
        ck.require(counts["mutations"] > 800 * len(rows) and counts["component_inputs"] > 300 * len(rows) and counts["random_inputs"] > 100,
                   "too few inputs: %s" % counts)
        honest_bytes = [bytes.fromhex(p["hex"]) for p in proofs]
        # both profiles at once (separate worker pools)
        import threading
        runs = {}

        def go(profile, binary):
            try:
                runs[profile] = wirelib.run_workers(binary, ppath, tasks, "c05" + profile, par=3)
            except Exception as e:
                runs[profile] = e
        ths = [threading.Thread(target=go, args=a) for a in (("dev", dev), ("release", rel))]
        for t in ths:
            t.start()
        for t in ths:
            t.join()
        for profile in ("dev", "release"):
            if isinstance(runs[profile], Exception):
                raise vf.ToolError("[%s] %s" % (profile, runs[profile]))
            results, restarts = runs[profile]
            nm = counts["mutations"]
            wirelib.check_inputs([{"c": t["c"], "e": t["e"], "cls": m["cls"], "fld": m["fld"]} for t, m in zip(tasks[:nm], meta[:nm])],
                                 results[:nm], honest_bytes)
            events, rejected, sites = evaluate(ck, rows, tasks, meta, results, profile, "c05" + profile)
            n_ok = sum(1 for e in events if e["de"] == "ok")
            n_err = sum(1 for e in events if e["de"] == "err")
            n_acc = sum(1 for e in events if "ok" in e["ve"])
            # vacuity: the honest inputs are in the batch and must deserialize / be accepted
            ck.require(n_ok > 500 and n_err > 1000 and n_acc > 20, "[%s] outcome classes too thin: ok=%d err=%d accepted=%d" % (profile, n_ok, n_err, n_acc))
            honest_dec = [e for e, m in zip(events, meta) if m["cls"] == "honest"]
            ck.require(honest_dec and all(e["de"] == "ok" for e in honest_dec),
                       "[%s] an honest component did not decode with the honest parameters" % profile)
            ck.traces += len(tasks)
            ck.evaluations += sum(1 + len(t.get("acc", [])) for t in tasks)
            ck.part("run:" + profile, inputs=len(tasks), returned_ok=n_ok, returned_err=n_err, accepted=n_acc,
                    did_not_return=len(rejected), worker_restarts=restarts, sites=sites)
    finally:
        if os.path.exists(ppath):
            os.unlink(ppath)
    ck.part("inputs", instances=[wirelib.case_name(r) for r in rows], **counts)
    decs = sorted(set(m["dec"] for m in meta))
    ck.require(len(decs) >= 11, "decoders missing: %s" % decs)
    ck.part("decoders", names=decs)
    for m, t in list(zip(meta, tasks))[:2]:
        ck.sample({"meta": m, "task": {k: (v if k != "b" else v[:64] + "...") for k, v in t.items()}})
    ck.bounds = {"instances": len(rows), "inputs_per_profile": len(tasks), "profiles": ["dev", "release"],
                 "limits": "10 s per input, RLIMIT_AS 4 GiB, inputs < 64 KiB"}
    ck.exhaustive = False
    ck.assumptions = ["panic/abort/timeout freedom is explored over the enumerated and sampled inputs, not proved",
                      "decoder arguments (domain sizes, widths, counts) are inside the documented preconditions of the parse functions",
                      "the verifying AIR never asserts on proof-supplied trace info; public inputs are the honest ones"]


def replay(ck, path):
    obj = json.load(open(path))["replay"]
    binary = vf.build_harness("wire", profile=obj.get("profile", "dev"))
    row = dict(obj["case"], idx=0)
    proofs, ppath = wirelib.honest_proofs(ck, vf.build_harness("wire"), [row], "c05r")
    try:
        t = dict(obj["task"])
        if "c" in t:
            t["c"] = 0
        results, _ = wirelib.run_workers(binary, ppath, [t], "c05r", par=1)
    finally:
        os.unlink(ppath)
    evaluate(ck, [row], [t], [dict(obj["meta"], c=0)], results, obj.get("profile", "dev"), "c05r")
    ck.traces += 1
