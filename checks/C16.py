"""C16 — Rescue hashers match a reference Rescue-Prime implementation; sponge / Jive modes follow the
documented rules.

Three engines, all decided by TLA+ specifications in spec/hash:

 design   MCRescuePerm.tla: shapes / ranges of the specification's own constant tables (RescueConsts,
          pinned at design time) and MDS * INV_MDS = I for the documented circulant matrices (hint-free).
 perm     Record -> Validate (mechanisms B + D).  `wf-rescue perm` calls the REAL apply_permutation of
          Rp64_256, RpJive64_256 and Rp62_248 (the latter through the cfg(winterfell_verif) accessor) and
          the public apply_round of the 64-bit hashers on boundary-biased states, logging input, output
          and untrusted witnesses; TraceRescuePerm.tla validates every round against the DEFINITION in
          RescuePerm.tla (x^alpha, plain matrix-vector product, round constants, inverse S-box by
          y^alpha = x) with exact BigNat arithmetic, plus the sage known-answer vectors and the
          public constants.
 modes    Generate -> Replay (mechanisms A + C).  GenSponge.tla enumerates byte strings, element lists
          (degree 1, 2, 3), digest lists and integers and prints, for each call, the expected digest as a
          TERM over a free permutation (Sponge.tla); `wf-rescue modes` evaluates the term with the real
          permutation and real field addition and compares with the real entry point.
"""
import json, os, re
from concurrent.futures import ThreadPoolExecutor
import vf

SPECDIR = os.path.join(vf.SPEC, "hash")
HASHERS = ["rp64", "jive", "rp62"]
WIDTH = {"rp64": 12, "jive": 8, "rp62": 12}
ALPHA = {"rp64": 7, "jive": 7, "rp62": 3}

META = dict(
    technique="TLC trace validation of recorded Rescue permutation / round calls against a by-definition TLA+ round (BigNat witness checking) + TLC-generated sponge/Jive mode terms over a free permutation replayed on the real entry points",
    text="Every recorded call of the real permutation (three hashers; quick: known-answer vector + 10 states, thorough: + 480 states per hasher, boundary-biased incl. Montgomery-limb extremes, the carry corners of the split-limb MDS reduction (folded-sum overflow; mixes of the S-box fixed points 0, 1, -1) and non-canonical representations) and of the public round function is accepted by TLC only if each of its 7 rounds satisfies the textbook definition (power S-box, matrix MDS, pinned round constants, inverse S-box by its defining equation) in exact integer arithmetic; known-answer vectors of the sage reference and MDS*INV_MDS=I are checked too. For the modes TLC enumerates byte lengths 0..120 (0..300+), element counts 0..20 (42) in degrees 1-3, 0..5 (9) digests and boundary integers and the real hash / hash_elements / merge / merge_many / merge_with_int must equal the spec's term evaluated with the real permutation.",
    note="Round constants and the 62-bit MDS matrix are pinned from the tree at design time (offline sandbox), anchored by the sage known-answer vectors quoted in the unit tests; permutation conformance is sampled (states chosen by class, not exhaustive); witnesses are untrusted (unique-solution equations); mode terms are evaluated with the real permutation and real field addition (field arithmetic itself is C10).",
    design="7/C16")

def harness_binary():
    """vf.build_harness copies the binary over harness/bin/wf-rescue-*; when another check of this group
    (C16 / C17 share the crate) is executing that file the copy fails with ETXTBSY: use a private copy."""
    try:
        return vf.build_harness("rescue")
    except OSError as e:
        if e.errno != 26:
            raise
        import shutil
        src = os.path.join(vf.HARNESS, "target", "release", "wf-rescue")
        dst = os.path.join(vf.workdir("bin"), "wf-rescue-%d" % os.getpid())
        shutil.copy2(src, dst)
        return dst


# classes of make_state() in harness/rescue/src/perm.rs (k mod 12); k // 12 selects the variant
INTERESTING = [3, 4, 5, 6, 7, 8, 10, 17, 18, 29, 30, 41, 42, 15, 16, 19, 20, 0, 1, 2, 9, 11]


def perm_classes(tier, seed):
    if tier == "thorough":
        return list(range(480))
    # quick: boundary, montgomery-boundary and the MDS carry corner always, three more rotating with the seed
    rot = [c for c in INTERESTING if c not in (3, 4)]
    pick = {rot[(3 * seed + i * 7) % len(rot)] for i in range(3)}
    # class 11 + 12 * v: v even = the folded MDS sum overflows 64 bits, v odd = it stops just short
    # class 10 + 12 * v: mixes of the S-box fixed points 0, 1, -1 (v % 4 selects the pattern, v // 4 the position)
    return [3, 4, 11 + 24 * (seed % 3), 23 + 24 * (seed % 3), 10 + 48 * (seed % 12), 22 + 12 * (seed % 2), 46 + 48 * (seed % 12)] + sorted(pick - {10})


# ------------------------------------------------------------------------------------------------
# perm engine
# ------------------------------------------------------------------------------------------------
def record(binary, h, seed, classes, nsolo, tag):
    wd = vf.workdir("c16")
    path = os.path.join(wd, "perm-%s-%s-%d.ndjson" % (h, tag, os.getpid()))
    rc, out, err = vf.run_harness(binary, ["perm", h, str(seed), ",".join(str(c) for c in classes), str(nsolo), path],
                                  timeout=300)
    if rc != 0:
        raise vf.ToolError("harness perm %s failed rc=%d: %s" % (h, rc, err[-2000:]))
    rows = vf.read_ndjson(path)
    os.unlink(path)
    return rows


def validate(rows, name, timeout):
    """Runs TraceRescuePerm on the events; returns (list of rejected 0-based indexes, TlcResult)."""
    wd = vf.workdir("traces")
    path = os.path.join(wd, "%s-%d.ndjson" % (name, os.getpid()))
    vf.write_ndjson(path, rows)
    try:
        r = vf.tlc("TraceRescuePerm.tla", "TraceRescuePerm.cfg", cwd=SPECDIR, workers=1, timeout=timeout,
                   env={"TRACE": path}, deque=True)
    finally:
        os.unlink(path)
    rejected = []
    consumed = None
    for ln in r.prints:
        m = re.match(r'^<<"REJECTED_EVENT", (\d+)>>', ln)
        if m:
            rejected.append(int(m.group(1)) - 1)
        m = re.match(r'^<<"CONSUMED", (\d+)>>', ln)
        if m:
            consumed = int(m.group(1))
    if consumed != len(rows):
        raise vf.ToolError("trace validation of %s did not consume the trace (%s of %d): %s\n%s"
                           % (name, consumed, len(rows), r.error, r.raw[-2500:]))
    return sorted(set(rejected)), r


def perm_signature(ev):
    what = ev["ev"] + ("" if ev["ev"] != "round" else (".chain" if ev.get("chain") else ".apply_round") + " r=%d" % ev["r"])
    return "%s.permutation %s class=%s%s" % (ev["h"], what, ev.get("class", "-"), " panic" if "panic" in ev else "")


def perm_engine(ck, binary, tier, h, classes, nsolo):
    rows = record(binary, h, ck.seed, classes, nsolo, "run")
    rejected, r = validate(rows, "c16-" + h, 1500 if tier == "thorough" else 400)
    return h, rows, rejected, r


def report_perm(ck, h, rows, rejected, r, classes, nsolo):
    ck.add_tlc("perm:" + h, r)
    pids = sorted({e["pid"] for e in rows if e["ev"] != "consts"})
    perms = [e for e in rows if e["ev"] == "end"]
    solos = [e for e in rows if e["ev"] == "round" and not e.get("chain")]
    rounds = [e for e in rows if e["ev"] == "round"]
    ck.require(len(perms) == len(classes) + 1, "%s: %d permutations recorded, expected %d" % (h, len(perms), len(classes) + 1))
    ck.require(any(e.get("kat") == 1 for e in perms), "%s: known-answer vector not recorded" % h)
    if h != "rp62":
        ck.require(len(solos) == nsolo and rows[0]["ev"] == "consts", "%s: public round / constants events missing" % h)
    ck.traces += len(perms) + len(solos)
    nchecks = len(rounds) * (2 * WIDTH[h] * (ALPHA[h] - 1) + 2 * WIDTH[h])
    ck.evaluations += nchecks
    ck.part("perm:" + h, permutations=len(perms), apply_round_calls=len(solos), round_events=len(rounds),
            witness_equations=nchecks, classes=sorted({e.get("class") for e in perms}), rejected=len(rejected))
    seen = set()
    for i in rejected:
        ev = rows[i]
        if ev["pid"] in seen:
            continue
        seen.add(ev["pid"])
        slim = {k: v for k, v in ev.items() if k != "w"}
        ck.violation(perm_signature(ev), "TLC rejected event %d of the %s trace: %s" % (i, h, json.dumps(slim)[:600]),
                     {"engine": "perm", "h": h, "seed": ck.seed, "classes": classes, "nsolo": nsolo, "pid": ev["pid"],
                      "event": slim})
    if perms:
        e = perms[0]
        ck.sample({"engine": "perm", "h": h, "kat_out": e["out"][:2], "validated_events": len(rows)})


# ------------------------------------------------------------------------------------------------
# modes engine
# ------------------------------------------------------------------------------------------------
def mode_class(c):
    op = c["op"]
    if op == "hash":
        n = len(c["bytes"])
        return ("len>=57" if n >= 57 else "len<57") + (" len%7==0" if n % 7 == 0 else " len%7!=0")
    if op == "hash_elements":
        return "deg=%d n=%d" % (c["deg"], len(c["elems"]))
    if op == "merge_many":
        return "k=%d" % len(c["ds"])
    if op == "merge_with_int":
        return "int=%s" % "".join("%02x" % b for b in reversed(c["int"]))
    return "-"


def mode_signature(c, det):
    loc = ""
    if det.get("panic"):
        loc = " @" + det["panic"].split(": ")[0].replace("/repo/", "").rsplit(":", 1)[0]
    return "%s.%s %s %s%s" % (c["h"], c["op"], det["kind"], mode_class(c), loc)


def replay_modes(ck, binary, name, scenarios):
    wd = vf.workdir("c16")
    path = os.path.join(wd, "%s-%d.ndjson" % (name, os.getpid()))
    vf.write_ndjson(path, scenarios)
    rc, out, err = vf.run_harness(binary, ["modes", path], timeout=900)
    if rc != 0:
        raise vf.ToolError("harness modes failed rc=%d: %s" % (rc, err[-2000:]))
    summary = None
    for ln in out.splitlines():
        d = json.loads(ln)
        if d.get("summary"):
            summary = d
            continue
        if "tool_error" in d:
            raise vf.ToolError("harness could not interpret scenario %d: %s" % (d["i"], d["tool_error"]))
        sc = scenarios[d["i"]]
        c = sc["c"]
        ck.violation(mode_signature(c, d["detail"]),
                     "%s.%s(%s): %s" % (c["h"], c["op"], mode_class(c), json.dumps(d["detail"])[:500]),
                     {"engine": "modes", "scenario": sc, "detail": d["detail"]})
    if summary is None:
        raise vf.ToolError("harness modes produced no summary")
    return summary


def modes_engine(ck, binary, tier):
    cfg = "GenSponge_thorough.cfg" if tier == "thorough" else "GenSponge.cfg"
    r = vf.tlc("MCSponge.tla", cfg, cwd=SPECDIR, workers=2, timeout=1200)
    if not r.ok:
        raise vf.ToolError("GenSponge: the plan of some case is not well formed (specification bug): %s" % r.error)
    return r, r.tagged("REPLAY")


# ------------------------------------------------------------------------------------------------
def run(ck, tier):
    binary = harness_binary()
    thorough = tier == "thorough"
    classes = perm_classes(tier, ck.seed)
    nsolo = 140 if thorough else 7
    with ThreadPoolExecutor(max_workers=5) as ex:
        f_design = ex.submit(vf.tlc, "MCRescuePerm.tla", "MCRescuePerm.cfg", cwd=SPECDIR, workers=1, timeout=600)
        f_modes = ex.submit(modes_engine, ck, binary, tier)
        f_perm = [ex.submit(perm_engine, ck, binary, tier, h, classes, nsolo) for h in HASHERS]
        design = f_design.result()
        gen, scenarios = f_modes.result()
        perm = [f.result() for f in f_perm]
    # design level
    ck.add_tlc("design:MCRescuePerm", design)
    if not design.ok:
        raise vf.ToolError("design-level check of the constant tables failed (specification data bug): %s" % design.error)
    # permutation
    for h, rows, rejected, r in perm:
        report_perm(ck, h, rows, rejected, r, classes, nsolo)
    # modes
    ck.add_tlc("modes:gen", gen)
    per = {}
    for s in scenarios:
        per[(s["c"]["h"], s["c"]["op"])] = per.get((s["c"]["h"], s["c"]["op"]), 0) + 1
    for h in HASHERS:
        for op, lo in (("hash", 200), ("hash_elements", 100), ("merge", 9), ("merge_many", 15), ("merge_with_int", 60)):
            ck.require(per.get((h, op), 0) >= lo, "generator printed %d %s.%s cases (< %d)" % (per.get((h, op), 0), h, op, lo))
    summary = replay_modes(ck, binary, "modes", scenarios)
    ck.traces += summary["scenarios"]
    ck.evaluations += 2 * summary["scenarios"]
    ck.part("modes", scenarios=summary["scenarios"], mismatches=summary["mismatches"],
            per_entry_point={"%s.%s" % k: v for k, v in sorted(per.items())})
    for s in scenarios:
        if s["c"]["op"] == "merge_with_int" and s["c"]["h"] == "jive":
            ck.sample(s)
            break
    for s in scenarios:
        if s["c"]["op"] == "hash" and len(s["c"]["bytes"]) == 9:
            ck.sample(s)
            break
    ck.bounds = {
        "perm": "per hasher: sage known-answer vector + %d states (classes %s) through apply_permutation, %d apply_round calls (64-bit hashers); 7 rounds each, every modular product / reduction checked" % (len(classes), classes, nsolo),
        "modes": "byte lengths %s, 2-4 content kinds; 0..%d base coordinates as degree 1/2/3 elements x 3 value pools; 0..%d digests; 23 integers incl. k*p-1, k*p, k*p+1, 2^64-1; each case with plain and alternative internal representations"
                 % (("0..300 + 9 long" if thorough else "0..120"), 42 if thorough else 20, 9 if thorough else 5)}
    ck.exhaustive = False
    ck.assumptions = ["round constants / 62-bit MDS pinned from the design-time tree (spec/hash/RescueConsts.tla), anchored by the sage known-answer vectors",
                      "alpha coprime to p-1 (ASSUMEd and checked by TLC) makes the inverse S-box the unique solution of y^alpha = x",
                      "mode terms are evaluated with the real permutation and real field addition (their correctness is the perm engine and C10)"]


def replay(ck, path):
    binary = harness_binary()
    obj = json.load(open(path))["replay"]
    if obj["engine"] == "modes":
        replay_modes(ck, binary, "replay", [obj["scenario"]])
        ck.traces += 1
    elif obj["engine"] == "perm":
        rows = record(binary, obj["h"], obj["seed"], obj["classes"], obj["nsolo"], "replay")
        keep = [e for e in rows if e["pid"] == obj["pid"]]
        rejected, r = validate(keep, "c16-replay", 400)
        ck.add_tlc("perm:replay", r)
        ck.traces += 1
        for i in rejected:
            ev = keep[i]
            slim = {k: v for k, v in ev.items() if k != "w"}
            ck.violation(perm_signature(ev), "TLC rejected event: %s" % json.dumps(slim)[:600], obj)
            break
    else:
        raise vf.ToolError("unknown replay engine")
