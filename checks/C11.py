"""C11 — field constants and canonical encodings are correct.

(A) Constants, Record -> Validate: spec/field/FieldConst.tla first PRINTS the plan (the exponents
(p-1)/q of the committed, TLC-checked factorisation of p-1, the Euler exponents); harness/fields runs
the real GENERATOR.exp(..), get_root_of_unity(n) for every n, conjugate(), and reads every exposed
constant; TLC validates every recorded call link by link (BigNat witnesses) and derives the
Lucas/Pratt certificates (p prime, GENERATOR a generator), TWO_ADICITY = v2(p-1), exact order 2^n of
every root of unity, irreducibility of the five extension polynomials, Frobenius = p-th power.
(B) Encodings, Generate -> Replay: spec/field/FieldEnc.tla enumerates decoder inputs around 0, p, 2^62,
2^63, 2^64, 2^128 at right and wrong lengths with the expected Ok(value)/Err and re-encoding; the real
decoders of the 3 base fields and 5 extension fields are replayed on them."""
import json, os, re, collections, concurrent.futures
import vf
import C10

SPECDIR = os.path.join(vf.SPEC, "field")

META = dict(
    technique="TLC-checked Lucas/Pratt, root-of-unity, irreducibility and Frobenius certificates over square-and-multiply chains recorded from the real field code (FieldConst.tla); TLC-generated decoder cases with expected verdicts replayed on the real decoders (FieldEnc.tla)",
    text="For f64, f62 and f128 TLC derives from calls recorded on the real code that MODULUS is prime and GENERATOR generates the group (g^(p-1)=1, g^((p-1)/q)!=1 for every prime q of a TLC-verified factorisation of p-1, sub-primes certified recursively), TWO_ADICITY = v2(p-1), get_root_of_unity(n) has exact order 2^n for every n (111 orders, exhaustive), the five extension polynomials are irreducible (x^p - x invertible modulo the polynomial, Euler criterion for the quadratics) and conjugate() is the p-th power; and every decoder (TryFrom<u64/u128/[u8;8]/&[u8]>, read_from, read_from_bytes, from_random_bytes, from_bytes_with_padding, read_many, extension decoders) is replayed on TLC-enumerated boundary inputs with the specification's verdict (value < p accepted and re-encoded to the same bytes, value >= p and wrong lengths rejected); elements produced by new(v) and by arithmetic with a known value (x + (-x), x - x, x*y - y*x, a + b around p) are observed through every encoder (as_int, to_bytes, write_into, u64/u128 conversions) and must report the canonical value whatever their internal representation.",
    note="Factorisations of p-1 were computed once with sympy and are re-verified by TLC (product and recursive primality) in every run; decoder inputs are boundary-enumerated, not exhaustive; from_bytes_with_padding is exercised only on its documented domain; bytes_as_elements (unsafe, internal representation, documented as unchecked) is not treated as a decoder.",
    design="7/C11")


def _fieldconst_job(arg):
    f, path = arg
    r = vf.tlc("FieldConst.tla", "FieldConst.cfg", cwd=SPECDIR, workers=1, timeout=1500, env={"TRACE": path, "FIELD": f}, deque=True)
    return r.ok, r.error, r.raw, r.prints, r.distinct, r.generated, r.wall


def consts_part(ck, binary, tier):
    wd = vf.workdir("fields")
    # plan from the specification
    r = vf.tlc("FieldConst.tla", "FieldConstPlan.cfg", cwd=SPECDIR, workers=1, timeout=300)
    ck.add_tlc("plan", r)
    plans = r.tagged("PLAN")
    ck.require(len(plans) == 1 and set(plans[0]) == {"f64", "f62", "f128"}, "FieldConst plan missing")
    plan_path = os.path.join(wd, "c11-plan-%d.json" % os.getpid())
    json.dump(plans[0], open(plan_path, "w"))
    path = os.path.join(wd, "c11-%d.ndjson" % os.getpid())
    rc, out, err = vf.run_harness(binary, ["consts", str(ck.seed), plan_path, path, tier], timeout=1200)
    os.unlink(plan_path)
    if rc != 0:
        raise vf.ToolError("consts recorder failed rc=%d: %s" % (rc, err[-1500:]))
    summary = json.loads(out.strip().splitlines()[-1])
    events = vf.read_ndjson(path)
    corrupt = os.environ.get("VERIF_C11_CORRUPT")
    if corrupt == "root":
        # demonstration hook: corrupt one recorded root of unity (order 2^7 of f62)
        e = [x for x in events if x["op"] == "root" and x["f"] == "f62" and x["n"] == 7][0]
        e["w"][0] ^= 1
        vf.write_ndjson(path, events)
    elif corrupt == "genpow":
        e = [x for x in events if x["op"] == "exp" and x["f"] == "f128"][2]
        e["r"][0][0] ^= 1
        vf.write_ndjson(path, events)
    ops = collections.Counter(e["op"] for e in events)
    ck.require(ops["root"] == 32 + 39 + 40 or summary["stuck"], "expected 111 root-of-unity events, got %d" % ops["root"])
    os.unlink(path)
    ck.traces += 1
    ck.evaluations += len(events)
    # one FieldConst run per field, in parallel (the certificates of different fields are independent)
    jobs = []
    for f in ("f64", "f62", "f128"):
        idx = [i for i, e in enumerate(events) if e["f"] == f]
        fpath = os.path.join(wd, "c11-%s-%d.ndjson" % (f, os.getpid()))
        vf.write_ndjson(fpath, [events[i] for i in idx])
        jobs.append((f, idx, fpath))
    with concurrent.futures.ProcessPoolExecutor(max_workers=3) as ex:
        results = list(ex.map(_fieldconst_job, [(f, fpath) for f, idx, fpath in jobs]))
    total_failed, total_facts, all_rejected = 0, 0, 0
    for (f, idx, fpath), (ok, error, raw, prints, distinct, generated, wall) in zip(jobs, results):
        os.unlink(fpath)
        ck.states += distinct
        ck.transitions += generated
        consumed = [ln for ln in prints if ln.startswith('<<"CONSUMED"')]
        if not ok or not consumed:
            raise vf.ToolError("FieldConst validation (%s) did not complete: %s\n%s" % (f, error, raw[-1500:]))
        rejected = [idx[int(m.group(1)) - 1] for m in (re.match(r'^<<"REJECTED_EVENT", (\d+)>>', ln) for ln in prints) if m]
        concl = [m for m in (re.match(r'^<<"CONCLUSION", (\d+), (\d+)>>', ln) for ln in prints) if m]
        fails = [[x.replace('\\"', "").replace('"', "") for x in ln[5:-1].split(" | ")] for ln in prints if ln.startswith('"TAG ')]
        ck.require(len(concl) == 1, "FieldConst printed no conclusion for " + f)
        ck.part("consts:" + f, tlc_states=distinct, tlc_wall_s=round(wall, 2), events=len(idx), facts=int(concl[0].group(2)),
                rejected=len(rejected), failed_conditions=int(concl[0].group(1)))
        total_failed += int(concl[0].group(1))
        all_rejected += len(rejected)
        for i in rejected:
            e = events[i]
            if e.get("cert"):
                raise vf.ToolError("certificate event rejected (committed spec data wrong?): %s" % json.dumps({k: e.get(k) for k in ("f", "d", "op", "k")}))
            if e["op"] in C10.ALL_OPS + ["from", "from_mont", "mul_small"]:
                sig, desc = C10.signature(e), C10.describe(e)
            else:
                sig = "%s.%s rejected%s" % (e["f"], e["op"], " n=%d" % e["n"] if "n" in e else "")
                desc = json.dumps({k: v for k, v in e.items() if k not in ("h", "sq", "chain")})
            ck.violation("consts: " + sig, desc, {"engine": "consts", "seed": ck.seed, "tier": tier, "event": {k: v for k, v in e.items() if k != "chain"}})
        for kind, who, what in fails:
            if kind == "DATA_FAIL" and not rejected:
                raise vf.ToolError("committed specification data failed its own check: %s (%s)" % (what, who))
            ck.violation("certificate %s: %s" % (who, what), "condition not derivable from the recorded calls: %s for %s" % (what, who),
                         {"engine": "consts", "seed": ck.seed, "tier": tier, "failed": [kind, who, what]})
        ck.require(int(concl[0].group(1)) == len(fails), "conclusion count and printed failures disagree")
    ck.part("consts", events=len(events), ops=dict(ops), rejected=all_rejected, failed_conditions=total_failed, stuck=summary["stuck"])
    for e in events:
        if e["op"] == "consts":
            ck.sample({k: v for k, v in e.items()})




def signature_dec(d):
    det = d["detail"]
    inp = det["inp"]
    return "decoder %s %s degree %s: expected %s got %s (input %d bytes)" % (det["dec"], det["f"], det["d"], det["expected"]["t"], det["got"], len(inp))


def replay_cases(ck, binary, name, cases):
    wd = vf.workdir("fields")
    path = os.path.join(wd, "%s-%d.ndjson" % (name, os.getpid()))
    vf.write_ndjson(path, cases)
    rc, out, err = vf.run_harness(binary, ["decoders", path], timeout=900)
    os.unlink(path)
    if rc != 0:
        raise vf.ToolError("decoders engine failed rc=%d: %s" % (rc, err[-1500:]))
    summary = None
    for ln in out.splitlines():
        d = json.loads(ln)
        if d.get("summary"):
            summary = d
            continue
        ck.violation(signature_dec(d), json.dumps(d["detail"])[:1500], {"engine": "decoders", "case": cases[d["i"]], "detail": d["detail"]})
    if summary is None:
        raise vf.ToolError("decoders engine produced no summary")
    return summary


def encodings_part(ck, binary, tier):
    r = vf.tlc("FieldEnc.tla", "FieldEnc_thorough.cfg" if tier == "thorough" else "FieldEnc.cfg", cwd=SPECDIR, workers=4, timeout=1500)
    ck.add_tlc("encodings", r)
    if not r.ok:
        raise vf.ToolError("FieldEnc generator failed: %s" % r.error)
    cases = r.tagged("REPLAY")
    by = collections.Counter((c["dec"], c["exp"]["t"]) for c in cases)
    for dec in ("slice", "random", "read", "u64", "u128", "arr8", "many"):
        ck.require(by[(dec, "ok")] > 10 and by[(dec, "err")] > 10, "decoder %s: verdict classes not both generated (%s)" % (dec, dict(by)))
    ck.require(by[("padded", "ok")] > 50 and len(cases) > 3000, "too few decoder cases: %d" % len(cases))
    combos = {(c["f"], c["d"]) for c in cases}
    ck.require(len(combos) == 8, "not all 8 field types generated")
    if os.environ.get("VERIF_C11_CORRUPT") == "case":
        # demonstration hook: flip the expected verdict of one generated case (value p-1 of f62)
        c = [x for x in cases if x["dec"] == "slice" and x["f"] == "f62" and x["d"] == 1 and x["exp"]["t"] == "ok"][3]
        c["exp"] = {"t": "err", "v": [], "enc": []}
    summary = replay_cases(ck, binary, "c11-dec", cases)
    ck.traces += summary["cases"]
    ck.evaluations += summary["cases"]
    ck.part("encodings", cases=summary["cases"], mismatches=summary["mismatches"], by_decoder={"%s:%s" % k: v for k, v in sorted(by.items())})
    for c in cases[1000:1002]:
        ck.sample(c)


def run(ck, tier):
    binary = C10.harness_binary()
    rc, out, err = vf.run_harness(binary, ["selftest"], timeout=120)
    if rc != 0:
        raise vf.ToolError("big-integer helper self-test failed: " + err[-500:])
    consts_part(ck, binary, tier)
    encodings_part(ck, binary, tier)
    ck.bounds = {"roots_of_unity": "all orders 2^1..2^32 (f64), ..2^39 (f62), ..2^40 (f128)", "constants": "all",
                 "decoder_inputs": "values around 0, p, 2^32, 2^62, 2^63, 2^64, 2^127, 2^128-1 and the other moduli at 12 lengths; coordinate combinations for extensions"}
    ck.exhaustive = False
    ck.assumptions = ["a polynomial of degree <= 3 is irreducible iff it has no root in the base field",
                      "(sum a_k x^k)^p = sum a_k (x^k)^p in characteristic p (used for the linear Frobenius check, basis images certified by chains)",
                      "watchdog as in C10"]


def replay(ck, path):
    binary = C10.harness_binary()
    obj = json.load(open(path))["replay"]
    if obj.get("engine") == "decoders":
        summary = replay_cases(ck, binary, "c11-replay", [obj["case"]])
        ck.traces += 1
        ck.evaluations += 1
    else:
        ck.seed = obj.get("seed", ck.seed)
        consts_part(ck, binary, obj.get("tier", "quick"))
