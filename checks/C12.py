"""C12 — FFT evaluation and interpolation are correct and thread-independent.
spec/math/FFT.tla defines Eval(c, blowup, offset)[i] = SUM_j c_j (offset * w^i)^j in natural order over
the toy fields of FieldP.tla (w = the 2^k-th root StarkField::get_root_of_unity must return),
interpolation as its inverse, infer_degree as the index of the last non-zero coefficient, bit reversal,
and the FftInputs shift operations.  TLC enumerates sizes 2..32 over F_97 / F_257 (unit vectors,
all-ones, zero, seeded random; every blowup; offsets 1, g, -1, 10; base, quadratic and cubic
coefficients) with complete outputs, sizes 64..8192 over F_40961 (sparse polynomials with complete
outputs, dense ones at sampled output indices) and EVERY (coefficients, blowup) pair with domain <= 8192
over F_40961 (2 x 4096 ... 8192 x 1, complete outputs).  The harness calls the real functions in the serial
build and in the concurrent build inside rayon pools of 1,2,3,4,7,8,16 threads; every run must
return the values TLC computed (hence all runs agree with each other)."""
import json, os, collections
import vf

SPECDIR = os.path.join(vf.SPEC, "math")
THREADS = [1, 2, 3, 4, 7, 8, 16]
# larger, non-power-of-two pool sizes (more threads than cores is fine for rayon) for the scenarios whose
# transforms run the concurrent code (domain >= 1024): hand-rolled batch arithmetic such as
# n / num_batches only shows its remainder when the thread count does not divide the size
EXTRA_THREADS = [38, 41, 76, 96]

META = dict(
    technique="TLA+ definition of the transform over toy prime fields (TLC computes complete / sampled expected outputs, Generate->Replay); real generic FFT code instantiated over the same fields, serial build and concurrent build under 7 rayon pool sizes",
    text="evaluate_poly, evaluate_poly_with_offset, interpolate_poly(_with_offset), infer_degree, serial_fft, get_(inv_)twiddles (length), permute_index / FftInputs::permute, the [[E;K]] row implementation and shift_by(_series) are compared with TLC-computed values for sizes 2..32 (all unit vectors => every vector by linearity, every blowup, 4 offsets, 3 extension degrees) and sizes 64..8192 over F_40961 (crossing the 512 recursion switch and the 1024 concurrency threshold); the concurrent build is run with 1,2,3,4,7,8,16 threads (and 38,41,76,96 threads for every scenario whose domain is >= 1024) and must return exactly the same values.",
    note="Toy fields stand in for the production fields (generic code; field arithmetic itself is C10). Dense vectors above FullUpTo are checked at sampled output indices plus the interpolate(evaluate(c)) = c round trip; the rayon scheduler is sampled, not enumerated (see spec/math/Chunking.tla for the design-level schedule argument). Twiddle content is undocumented and not gated (only its length and that FFTs using it are correct).",
    design="7/C12")


def size_class(sc):
    n = sc.get("n", sc.get("size", 0))
    return "n<1024" if n < 1024 else "n>=1024"


def replay_scenarios(ck, binary, name, scenarios, threads, label):
    wd = vf.workdir("c12")
    path = os.path.join(wd, "%s-%d.ndjson" % (name, os.getpid()))
    vf.write_ndjson(path, scenarios)
    args = ["fft", path] + ([",".join(str(t) for t in threads)] if threads else [])
    rc, out, err = vf.run_harness(binary, args, timeout=1800)
    if rc != 0:
        raise vf.ToolError("harness fft failed rc=%d: %s" % (rc, err[-2000:]))
    summary = None
    for ln in out.splitlines():
        d = json.loads(ln)
        if d.get("summary"):
            summary = d
            continue
        sc = scenarios[d["i"]]
        det = d["detail"]
        sig = "%s[%s,%s,%s] %s" % (det["call"], label, sc.get("fam"), size_class(sc), det["what"])
        brief = {k: v for k, v in sc.items() if k not in ("c", "ev", "coef", "vals", "rows", "shifted", "series", "rev") or len(json.dumps(v)) < 300}
        ck.violation(sig, json.dumps({"threads": d["threads"], "scenario": brief, "detail": det})[:1500],
                     {"engine": "fft", "build": label, "threads": d["threads"], "scenario": sc, "detail": det})
    if summary is None:
        raise vf.ToolError("harness produced no summary")
    os.unlink(path)
    ck.traces += summary["scenarios"] * summary["runs"]
    ck.evaluations += summary["calls"]
    ck.part("replay:" + label, scenarios=summary["scenarios"], runs=summary["runs"], calls=summary["calls"],
            mismatches=summary["mismatches"], concurrent_feature=summary["concurrent"], threads=summary["threads"])
    return summary


def design_level(ck, thorough):
    """spec/math/Chunking.tla: every interleaving of the batches of fft::concurrent::permute (which
    swap cells outside their own index range) and of the offset-restarting shift batches; race
    freedom and equality with the sequential result."""
    cfg = "MCChunking_fft_thorough.cfg" if thorough else "MCChunking_fft.cfg"
    r = vf.tlc("Chunking.tla", cfg, cwd=SPECDIR, workers=4, timeout=1800 if thorough else 300)
    ck.add_tlc("design:chunking", r)
    if not r.ok:
        raise vf.ToolError("design-level chunking model %s failed its own invariant (specification bug): %s" % (cfg, r.error))
    ck.require(r.distinct > 20000, "chunking model explored too few states: %d" % r.distinct)


def run(ck, tier):
    thorough = tier == "thorough"
    serial = vf.build_harness("math")
    conc = vf.build_harness("math", variant="concurrent")
    design_level(ck, thorough)
    cfg = "GenFFT_thorough.cfg" if thorough else "GenFFT.cfg"
    r = vf.tlc("FFT.tla", cfg, cwd=SPECDIR, workers=4, timeout=3000 if thorough else 600,
               env={"SEED": ck.seed % 40009})
    if not r.ok:
        raise vf.ToolError("TLC failed on FFT.tla (specification bug): %s" % r.error)
    ck.add_tlc("gen", r)
    sc = r.tagged("REPLAY")
    fams = collections.Counter(s["fam"] for s in sc)
    ck.require(fams["error"] == 0, "the specification's own cross-check failed")
    ck.require(fams["full"] > 1000 and fams["sampled"] >= 8 and fams["pidx"] == 14 and fams["rows"] >= 50,
               "families missing from the generator output: %s" % dict(fams))
    big = collections.Counter(s["n"] for s in sc if s["fam"] in ("full", "sampled") and s["n"] >= 64)
    ck.require(all(big[n] >= 2 for n in (64, 128, 256, 512, 1024, 2048, 4096, 8192)),
               "a size between 64 and 8192 is missing: %s" % dict(big))
    # every (coefficients, blowup) pair the 2-adicity of F_40961 allows: short polynomials with large
    # blowups (domain >= 1024 with fewer coefficients than threads) up to long ones with blowup 1
    pairs = set((s["n"], s["blowup"]) for s in sc if s["fam"] == "full" and s["P"] == 40961)
    want = set((2 ** a, 2 ** b) for a in range(1, 14) for b in range(0, 13) if a + b <= 13)
    ck.require(want <= pairs, "(n, blowup) pairs missing from the grid: %s" % sorted(want - pairs)[:10])
    ck.part("gen", grid_pairs=len(want), short_poly_big_domain=sum(1 for (n, b) in pairs if n <= 16 and n * b >= 1024))
    combos = set((s["P"], s["d"]) for s in sc if s["fam"] in ("full", "sampled"))
    ck.require({(97, 1), (97, 2), (97, 3), (257, 1), (257, 2), (40961, 1), (40961, 2), (40961, 3)} <= combos,
               "field / extension combinations missing: %s" % sorted(combos))
    ck.part("gen", families=dict(fams), big_sizes={str(k): v for k, v in sorted(big.items())})
    shown = set()
    for s in sc:
        key = (s["fam"], s.get("d"))
        if key not in shown and len(json.dumps(s)) < 500:
            shown.add(key)
            ck.sample(s, limit=8)
    s1 = replay_scenarios(ck, serial, "serial", sc, [], "serial")
    ck.require(s1["concurrent"] is False, "the serial binary was built with the concurrent feature")
    s2 = replay_scenarios(ck, conc, "concurrent", sc, THREADS, "concurrent")
    ck.require(s2["concurrent"] is True and s2["runs"] == len(THREADS), "the concurrent binary did not run all pools")
    wide = [s for s in sc if s["fam"] in ("full", "sampled") and s["n"] * s["blowup"] >= 1024]
    ck.require(len(wide) >= 60 and all(any(s["n"] == n for s in wide) for n in (1024, 2048, 4096, 8192)),
               "too few scenarios reach the concurrent code paths: %d" % len(wide))
    s3 = replay_scenarios(ck, conc, "concurrent-many", wide, EXTRA_THREADS, "concurrent-many-threads")
    ck.require(s3["concurrent"] is True and s3["runs"] == len(EXTRA_THREADS), "the concurrent binary did not run the large pools")
    if thorough:
        # the permute model with the batch count NOT rounded up to a power of two: expected violations
        for cfgname, inv in (("MCChunking_permfound_partition.cfg", "Partition"), ("MCChunking_permfound_final.cfg", "Final")):
            rf = vf.tlc("Chunking.tla", cfgname, cwd=SPECDIR, workers=2, timeout=600)
            ck.part("design:" + cfgname, expected_violation=inv, reproduced=(not rf.ok and inv in (rf.error or "")), tlc_states=rf.distinct)
        # debug assertions and overflow checks on (the configuration `cargo test` uses)
        replay_scenarios(ck, vf.build_harness("math", profile="dev"), "serial-dev", sc, [], "serial-dev")
        replay_scenarios(ck, vf.build_harness("math", variant="concurrent", profile="dev"), "concurrent-dev", sc, [2, 8], "concurrent-dev")
    ck.bounds = {"design": "Chunking.tla: all interleavings of permute / shift batches, n <= 20 (40 thorough), threads 1..16",
                 "small": "n in 2..32, N = n*blowup <= 32 (F_97) / <= 256 (F_257), cfg " + cfg,
                 "big": "n in 64..8192 over F_40961, N <= 8192",
                 "grid": "all 91 pairs n = 2^a >= 2, blowup = 2^b, n*blowup <= 8192 over F_40961", "threads": THREADS, "extra_threads_for_domains_ge_1024": EXTRA_THREADS}
    ck.exhaustive = False
    ck.assumptions = ["toy field types implement FieldP.tla's arithmetic and get_root_of_unity returns RootOfUnity(P, k) (a wrong root shows up as a mismatch)",
                      "the OS/rayon schedules met during the runs are a sample; schedule-independence of the chunking design is model-checked separately (Chunking.tla)",
                      "dense vectors longer than FullUpTo are compared at sampled indices and through the round trip"]


def replay(ck, path):
    obj = json.load(open(path))
    rp = obj["replay"]
    build = rp.get("build", "serial")
    profile = "dev" if build.endswith("-dev") else "release"
    if build.startswith("concurrent"):
        binary = vf.build_harness("math", variant="concurrent", profile=profile)
        replay_scenarios(ck, binary, "replay", [rp["scenario"]], [rp.get("threads") or 4], build)
    else:
        binary = vf.build_harness("math", profile=profile)
        replay_scenarios(ck, binary, "replay", [rp["scenario"]], [], build)
