"""C28 — trace and composition LDEs and row commitments match their definitions.

spec/math/LDE.tla defines LDE row r = (p_1(x_r), .., p_k(x_r)) with x_r = offset * w^r in natural order,
the trace of the column polynomials, their values at extension points, and — with hashes as free
constructors — the row commitment Root([RowDigest(row_r)]) where RowDigest follows the partition rule
the VERIFIER applies (hash_row / PartitionOptions::partition_size).  TLC computes complete rows for
n = 8..64 over F_257 (N = n*blowup <= 128, k = 1..20 columns, base / quadratic / cubic elements), a
seeded sample of rows for n = 1024..4096 over F_40961, complete traces of sparse polynomials for
interpolation at n = 1024, 2048, and the digest term schema for k = 1..20, d = 1..3 and nine
(partitions, hash rate) pairs; it also checks (constant level) that the chunks tile the row and that
the chunk count the prover allocates is the verifier's.  The harness replays on the serial build and
on the concurrent build inside rayon pools of 1, 3, 4, 7 and 16 threads."""
import json, os, collections
import vf, airalglib as al

THREADS = [1, 3, 4, 7, 16]

META = dict(
    technique="TLA+ definitions of the LDE / trace / point evaluation over toy prime fields (TLC computes complete or sampled expected rows, Generate->Replay) and symbolic row-commitment terms under the verifier's partition rule, evaluated with the real hashers and MerkleTree (term evaluation); serial build and concurrent build under 5 rayon pool sizes (powers of two and not)",
    text="RowMatrix::evaluate_polys / evaluate_polys_over with segment widths 8 (the prover's), 4 and 1, ColMatrix::evaluate_columns_over / evaluate_columns_at / interpolate_columns(_into) are compared with TLC-computed rows for every column count 1..20 (partial segments included), n = 8..64 and blowup 2..16 over F_257 and n = 1024..4096 over F_40961 (both sides of the 1024 concurrency threshold), base, quadratic and cubic elements, the generator offset and seeded offsets. RowMatrix::commit_to_rows with nine partition options and ColMatrix::commit_to_rows are compared with the Merkle root of the per-row digests the verifier's hash_row rule defines (single hash, merge_many of 1..16 chunk digests, partition size larger than the row), with Blake3_256 over the toy fields and Rp64_256 / Blake3_256 over f64; every run of the concurrent build (1, 3, 4, 7, 16 threads) must return the same values.",
    note="Toy fields stand in for the production fields (generic code). For n >= 1024 the LDE is compared at a seeded sample of rows (first, last, n, N/2+1, random) and interpolation uses sparse polynomials whose complete trace TLC can compute. The commitment check takes the rows from the real matrix (whose values the lde engine checks) and trusts MerkleTree::new as the vector commitment (C18). The rayon scheduler is sampled, not enumerated.",
    design="7/C28")


def sig_lde(sc, det, label):
    big = "n>=1024" if sc.get("n", 0) >= 1024 else "n<1024"
    return "lde:%s[%s] %s %s d=%s" % (det.get("call"), label, det.get("what"), big, sc.get("d"))


def sig_commit(sc, det, label):
    return "commit:%s[%s] %s hasher=%s shape=%s d=%s" % (det.get("call"), label, det.get("what"), det.get("hasher"), det.get("shape"), sc.get("d"))


def generate(ck, thorough):
    sc = al.generate(ck, "lde", "MCLDE.tla", "GenLDE_thorough.cfg" if thorough else "GenLDE.cfg", al.MATHDIR,
                     timeout=3000 if thorough else 900)
    fams = collections.Counter(s["fam"] for s in sc)
    ck.require(fams["error"] == 0, "the specification's own cross-check failed")
    ck.require(fams["lde"] >= 120 and fams["interp"] >= 4 and fams["commit"] >= 64, "families missing: %s" % dict(fams))
    lde = [s for s in sc if s["fam"] in ("lde", "interp")]
    ks = {s["k"] for s in lde if s["fam"] == "lde" and s["n"] < 1024}
    ck.require({1, 7, 8, 9, 15, 16, 17, 20} <= ks, "column counts missing: %s" % sorted(ks))
    ck.require({(s["n"], s["blowup"]) for s in lde if s["fam"] == "lde"} >= {(8, 2), (8, 16), (16, 8), (32, 4), (64, 2), (1024, 8), (2048, 4), (4096, 2)},
               "sizes missing")
    ck.require({s["d"] for s in lde} == {1, 2, 3}, "extension degrees missing")
    partial = sum(1 for s in lde if s["fam"] == "lde" and (s["k"] * s["d"]) % 8 != 0)
    gen_off = sum(1 for s in lde if s["fam"] == "lde" and s["offset"] == s["gen"])
    ck.require(partial > 50 and gen_off > 30 and len(lde) - gen_off > 30, "partial segments / offsets not covered")
    com = [s for s in sc if s["fam"] == "commit"]
    shapes = collections.Counter()
    for s in com:
        # the Rescue runs over f64 are the slow part: a subset of the column counts
        s["f64"] = (s["k"] in (1, 3, 7, 9, 16, 20) and s["n"] < 1024) or (s["n"] >= 1024 and s["k"] == 7 and s["d"] == 1) or thorough
        for o in s["opts"]:
            t = o["term"][2]
            shapes["single" if t[0] == "he" else "chunks=%d%s" % (len(t[1]), " psize>k" if o["psize"] > s["k"] else "")] += 1
    ck.require(shapes["single"] > 60 and shapes["chunks=1 psize>k"] > 10 and shapes["chunks=16"] >= 3 and len(shapes) >= 10,
               "partition shapes missing: %s" % dict(shapes))
    ck.part("gen:lde", families=dict(fams), partial_segment_cases=partial, generator_offset_cases=gen_off,
            partition_shapes=dict(sorted(shapes.items())))
    return lde, com


def run(ck, tier):
    thorough = tier == "thorough"
    serial = vf.build_harness("airalg")
    conc = vf.build_harness("airalg", variant="concurrent")
    lde, com = generate(ck, thorough)
    ck.sample(al.brief(next(s for s in lde if s["fam"] == "lde" and s["n"] == 8 and s["k"] == 9), 300))
    ck.sample(al.brief(next(s for s in lde if s["fam"] == "lde" and s["n"] == 4096), 200))
    ck.sample({k: v for k, v in next(s for s in com if s["k"] == 7 and s["d"] == 2).items() if k != "polys"})
    s1, _ = al.replay(ck, serial, "lde", "lde", lde, label="serial", sig=sig_lde)
    ck.require(s1["concurrent"] is False and s1["calls"] > 100000, "serial lde replay: %s" % s1)
    s2, _ = al.replay(ck, conc, "lde", "lde", lde, label="concurrent", threads=THREADS, sig=sig_lde)
    ck.require(s2["concurrent"] is True and s2["runs"] == len(THREADS), "the concurrent binary did not run all pools")
    s3, _ = al.replay(ck, serial, "commit", "commit", com, label="serial", sig=sig_commit)
    ck.require(s3["calls"] >= 800 and s3["term_hashes"] > 100000, "serial commit replay: %s" % s3)
    s4, _ = al.replay(ck, conc, "commit", "commit", com, label="concurrent", threads=THREADS, sig=sig_commit)
    ck.require(s4["concurrent"] is True and s4["runs"] == len(THREADS), "the concurrent binary did not run all pools")
    if thorough:
        dev = vf.build_harness("airalg", profile="dev")
        al.replay(ck, dev, "lde", "lde", lde, label="serial-dev", sig=sig_lde)
        al.replay(ck, dev, "commit", "commit", [dict(s, f64=False) for s in com], label="serial-dev", sig=sig_commit)
    ck.bounds = {"small": "F_257: (n, blowup) in {(8,2..16), (16,2..8), (32,2..4), (64,2)}, k in %s, d by turns 1..3" % ("1..20"),
                 "big": "F_40961: n in {1024, 2048, 4096}, n*blowup <= 8192, k up to 20, %d sampled rows per case" % (12 if thorough else 6),
                 "interpolation": "complete for the small family; sparse polynomials at n = 1024, 2048",
                 "commit": "k = 1..20, d = 1..3, (partitions, rate) in {(1,1),(2,8),(4,8),(16,1),(3,4),(4,12),(7,2),(2,255),(16,8)}, 16..64 rows and 2048 rows; Blake3_256 over toy fields, Rp64_256 and Blake3_256 over f64",
                 "threads": THREADS}
    ck.exhaustive = False
    ck.assumptions = ["toy field types implement FieldP.tla's arithmetic and get_root_of_unity returns RootOfUnity(P, k)",
                      "hashes are ideal in the specification: the commitment is compared as a term evaluated with the real hash_elements / merge_many / MerkleTree::new",
                      "the rows fed to the term evaluator are read from the real matrix (their values are checked by the lde engine)",
                      "the OS/rayon schedules met during the runs are a sample"]


def replay(ck, path):
    obj = json.load(open(path))
    rp = obj["replay"]
    build = rp.get("build", "serial")
    profile = "dev" if build.endswith("-dev") else "release"
    sg = sig_lde if rp["engine"] == "lde" else sig_commit
    if build.startswith("concurrent"):
        binary = vf.build_harness("airalg", variant="concurrent", profile=profile)
        al.replay(ck, binary, rp["engine"], "replay", [rp["scenario"]], label=build, threads=[rp.get("threads") or 4], sig=sg)
    else:
        binary = vf.build_harness("airalg", profile=profile)
        al.replay(ck, binary, rp["engine"], "replay", [rp["scenario"]], label=build, sig=sg)
