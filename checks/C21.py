"""C21 — assertion step sets and overlap detection are exact.
spec/air/Assertions.tla: the denotational definitions Fits / Steps / Cells / Overlap are the oracle.
(1) TLC enumerates every assertion constructible with parameters <= LMax (each one an initial state),
checks the design-level invariants (steps well formed, overlap independent of the common trace length,
symmetric, the transcribed case analysis of overlaps_with equals the set-based definition) and prints
one scenario line per assertion: fits / (step, value) lists for 26 trace lengths and the overlap code
against the whole universe; (2) the harness replays every line on the real Assertion API;
(3) assertion lists of length 1..3 are handed to BoundaryConstraints::new (prepare_assertions) with the
spec's accept/reject verdict; (4) constructor argument classes."""
import json, os
import vf

SPECDIR = os.path.join(vf.SPEC, "air")

META = dict(
    technique="TLA+ denotational model of assertions (Fits/Steps/Overlap as sets) enumerated exhaustively by TLC; every assertion and every ordered pair of the universe replayed on the real Assertion API; prepare_assertions accept/reject replayed through BoundaryConstraints::new",
    text="TLC enumerates all single/periodic/sequence assertions with column in {0,1} and every step, power-of-two stride, first step and power-of-two value count up to 32 (128 in thorough), proves at that scope (64 in thorough) that the set-based overlap answer does not depend on the trace length and equals the transcribed case analysis, and the real validate_trace_length / get_num_steps / apply (26 trace lengths incl. 0, non-powers, 1..256) and overlaps_with (all ordered pairs) must return exactly what the specification computed; 36 674 assertion lists of length <= 3 are handed to BoundaryConstraints::new with the specification's accept/reject verdict.",
    note="Bounded: parameters <= 32 (quick) / 128 (thorough), two columns; overlap is only gated for pairs that fit a common trace length (others are called but not judged). Constructor rejection classes exclude first_step == stride (doc comment and code disagree, property silent).",
    design="7/C21")


def sig(det):
    call = det.get("call", "?")
    if call == "overlaps_with":
        return "Assertion.overlaps_with %s/%s expected=%s got=%s" % (det["a"]["k"], det["b"]["k"], det["expected"], det["got"])
    if call in ("validate_trace_length", "get_num_steps", "apply"):
        exp = det["expected"] if isinstance(det["expected"], str) else "steps"
        got = det["got"] if isinstance(det["got"], str) and not det["got"].startswith("panic") else ("panic" if isinstance(det["got"], str) else "steps")
        return "Assertion.%s %s expected=%s got=%s" % (call, det["a"]["k"], exp, got)
    if call == "constructor":
        a = det.get("a") or {"k": "list"}
        return "Assertion constructor %s expected=%s got=%s" % (a["k"], det["expected"], det["got"])
    return "%s expected=%s got=%s" % (call, det.get("expected"), det.get("got"))


def run_engine(ck, binary, engine, name, rows, mk_replay):
    wd = vf.workdir("c21")
    path = os.path.join(wd, "%s-%d.ndjson" % (name, os.getpid()))
    vf.write_ndjson(path, rows)
    rc, out, err = vf.run_harness(binary, [engine, path], timeout=900)
    if rc != 0:
        raise vf.ToolError("harness %s failed rc=%d: %s" % (engine, rc, err[-2000:]))
    summary = None
    for ln in out.splitlines():
        d = json.loads(ln)
        if d.get("summary"):
            summary = d
            continue
        ck.violation(sig(d["detail"]), json.dumps(d["detail"]), mk_replay(d))
    if summary is None:
        raise vf.ToolError("harness %s produced no summary" % engine)
    os.unlink(path)
    ck.traces += summary["scenarios"]
    ck.evaluations += summary["ops"]
    ck.part(name, **{k: v for k, v in summary.items() if k != "summary"})
    return summary


def sub_universe(rows, idxs):
    """The scenario lines of `idxs` re-indexed as a closed universe (for replay files)."""
    out = []
    for k, i in enumerate(idxs):
        r = rows[i]
        out.append({"i": k, "a": r["a"], "tbl": r["tbl"], "ov": [r["ov"][j] for j in idxs]})
    return out


def run(ck, tier):
    binary = vf.build_harness("airint")
    thorough = tier == "thorough"
    sfx = "_thorough" if thorough else ""
    # (1) universe: generator + design-level invariants of the denotation
    r = vf.tlc("MCAssertions.tla", "GenAssertions%s.cfg" % sfx, cwd=SPECDIR, workers=4, timeout=1200)
    if not r.ok:
        raise vf.ToolError("Assertions generator violated its own invariant (specification bug): %s" % r.error)
    ck.add_tlc("gen", r)
    rows = r.tagged("REPLAY")
    rows.sort(key=lambda x: x["i"])
    ck.require(len(rows) >= 400 and [x["i"] for x in rows] == list(range(len(rows))),
               "universe incomplete: %d lines" % len(rows))
    n = len(rows)
    codes = [0, 0, 0]
    for x in rows:
        for c in x["ov"]:
            codes[c] += 1
    ck.require(codes[1] > 1000 and codes[0] > 1000, "overlap codes degenerate: %s" % codes)
    fits = sum(1 for x in rows for t in x["tbl"] if t["fits"])
    ck.require(fits > n and fits < n * len(rows[0]["tbl"]), "fits table degenerate")
    ck.part("gen", universe=n, pairs_overlap=codes[1], pairs_disjoint=codes[0], pairs_no_common_length=codes[2],
            table_rows=n * len(rows[0]["tbl"]), table_rows_fitting=fits)
    s = dict(rows[n // 2]); s["ov"] = "<%d codes>" % n
    ck.sample(s)

    def mk(d):
        det = d["detail"]
        idxs = [d["i"]] + ([det["j"]] if det.get("call") == "overlaps_with" and det["j"] != d["i"] else [])
        return {"engine": "assertions", "lines": sub_universe(rows, idxs), "detail": det}
    run_engine(ck, binary, "assertions", "replay", rows, mk)

    # (1b) conditional edge family first = stride: judged only if the real constructor accepts the arguments
    r = vf.tlc("MCAssertions.tla", "GenAssertionEdge.cfg", cwd=SPECDIR, workers=2, timeout=600)
    if not r.ok:
        raise vf.ToolError("Assertions edge family violated its own invariant (specification bug): %s" % r.error)
    ck.add_tlc("gen-edge", r)
    edge = r.tagged("REPLAY")
    edge.sort(key=lambda x: x["i"])
    ck.require(len(edge) >= 20 and [x["i"] for x in edge] == list(range(len(edge))), "edge family incomplete: %d" % len(edge))
    run_engine(ck, binary, "assertions", "edge", edge,
               lambda d: {"engine": "assertions", "lines": [dict(edge[d["i"]], i=0, ov=[2])], "detail": d["detail"]})

    # (2) prepare_assertions through BoundaryConstraints::new
    r = vf.tlc("MCAssertions.tla", "GenAssertionSets.cfg", cwd=SPECDIR, workers=4, timeout=1200)
    ck.add_tlc("gen-sets", r)
    sets = r.tagged("REPLAY")
    nacc = sum(1 for x in sets if x["accept"])
    ck.require(len(sets) > 30000 and nacc > 1000 and nacc < len(sets) - 1000,
               "assertion-list cases degenerate: %d, %d accepted" % (len(sets), nacc))
    ck.sample(sets[len(sets) // 3])
    run_engine(ck, binary, "assertion-sets", "sets", sets,
               lambda d: {"engine": "assertion-sets", "lines": [sets[d["i"]]], "detail": d["detail"]})

    # (3) constructor classes
    r = vf.tlc("MCAssertions.tla", "GenAssertionCtor.cfg", cwd=SPECDIR, workers=2, timeout=600)
    ck.add_tlc("gen-ctor", r)
    ctor = r.tagged("REPLAY")
    nok = sum(1 for x in ctor if x["ok"])
    ck.require(len(ctor) > 300 and nok > 10 and nok < len(ctor) - 10, "constructor cases degenerate")
    run_engine(ck, binary, "assertion-ctor", "ctor", ctor,
               lambda d: {"engine": "assertion-ctor", "lines": [ctor[d["i"]]], "detail": d["detail"]})

    # (4) design level: L-independence, symmetry, code-shaped case analysis == set-based definition.
    # Runs after the replay: if the real overlaps_with is wrong the replay says so (VIOLATION); if the
    # replay is clean and this fails, the transcription in the specification is wrong (tool error).
    r = vf.tlc("MCAssertions.tla", "MCAssertions%s.cfg" % sfx, cwd=SPECDIR, workers=4, timeout=1800)
    ck.add_tlc("design", r)
    if not r.ok:
        if "LIndependent" in (r.error or "") or "Symmetric" in (r.error or "") or "OverlapSame" in (r.error or "") \
                or "Reflexive" in (r.error or "") or not ck.violations:
            raise vf.ToolError("design-level check of Assertions.tla failed (specification bug): %s" % r.error)
        ck.part("design", code_shaped_model_refuted=True)
    lmax = 128 if thorough else 32
    ck.bounds = {"LMax": lmax, "LMax_design_invariants": 64 if thorough else 32, "columns": [0, 1], "universe": n, "ordered_pairs": n * n,
                 "trace_lengths": [t["L"] for t in rows[0]["tbl"]],
                 "assertion_lists": "length 1,2 over 68 assertions (2 columns + invalid ones), length 3 over column 0; L=8, width=2"}
    ck.exhaustive = True
    ck.assumptions = ["overlap is judged only for pairs of assertions that fit a common trace length",
                      "a one-value sequence is a single assertion (constructor normalisation)"]


def replay(ck, path):
    binary = vf.build_harness("airint")
    obj = json.load(open(path))["replay"]
    lines = obj["lines"]
    run_engine(ck, binary, obj["engine"], "replay", lines,
               lambda d: {"engine": obj["engine"], "lines": lines, "detail": d["detail"]})
