"""C01 — honest proofs of satisfied AIR instances always verify.
spec/stark/StarkCfg.tla (+ spec/air/AirFamily.tla): the configuration space, Supported(cfg) and the
schedule quantities; TLC checks the schedule facts on every generated configuration and emits
(AIR description, options, field, hash) cases — a fixed boundary list (every option at its extremes) and
seeded simulation over the product space — each with the verdict and FRI schedule the specification
predicts. The harness builds the AIR (GenAir), the honest trace, proves with the real prover, serialises,
deserialises and verifies with the real verifier accepting the proof's own options."""
import json, os, re
import vf, starklib

META = dict(
    technique="TLA+ configuration/schedule model (Supported, FRI layers, remainder, composition columns) checked by TLC; TLC-generated boundary and simulated configurations replayed through the real prover and verifier",
    text="TLC enumerates a boundary list covering every option extreme and samples the configuration product space by simulation; for each supported configuration the real prover must produce a proof that survives a byte round trip and is accepted by the real verifier, with the FRI layer count, remainder length and LDE domain the specification predicts.",
    note="Sampled, not exhaustive, over the product space; only configurations inside Supported(cfg) are claimed; toy fields run without field extension; AIRs are the data-described family of AirFamily.tla plus the bundled examples.",
    design="7/C01")


def judge(ck, name, cases, results):
    bad = 0
    for c, r in zip(cases, results):
        exp = c["expect"]
        ok = r.get("verdict") == exp["verdict"] and r.get("roundtrip_equal") is True
        detail = r.get("detail", "")
        what = "verdict=%s" % r.get("verdict")
        if ok:
            for k in ("fri_layers", "remainder_len", "lde_domain"):
                if r.get(k) != exp[k]:
                    ok = False
                    what = "%s expected=%s got=%s" % (k, exp[k], r.get(k))
                    break
            if ok and not (1 <= r["unique_queries"] <= c["opts"]["queries"]):
                ok = False
                what = "unique_queries=%s out of range" % r["unique_queries"]
        if not ok:
            bad += 1
            loc = ""
            m = re.match(r"^/\S*?/((?:air|prover|verifier|fri|math|crypto|utils|winterfell|examples)/\S+?:\d+)", detail) if isinstance(detail, str) else None
            if m:
                loc = " @" + m.group(1)
            elif isinstance(detail, str) and detail:
                loc = " " + detail.split("(")[0][:60]
            sig = "C01 honest run%s %s%s" % (" (degenerate constant-column trace)" if name == "degenerate" else "", what, loc)
            ck.violation(sig, "%s :: %s :: %s" % (starklib.cfg_signature(c), what, str(detail)[:300]),
                         {"engine": "pipeline", "case": c, "result": r})
    ck.traces += len(cases)
    ck.evaluations += len(cases)
    ck.part(name, cases=len(cases), mismatches=bad)


def run(ck, tier):
    binary = vf.build_harness("stark")
    thorough = tier == "thorough"
    b, deg = starklib.generate_multi(ck, "BoundaryStarkCfg.cfg", "boundary", ["BOUNDARY", "DEGENERATE"])
    ck.require(len(b) >= 25, "boundary list too short: %d" % len(b))
    res = starklib.run_pipeline(binary, "c01-boundary", b)
    judge(ck, "boundary", b, res)
    # satisfied instances with a degenerate (constant-column) trace: recorded finding F09
    ck.require(len(deg) >= 2, "degenerate list missing")
    res = starklib.run_pipeline(binary, "c01-degenerate", deg)
    judge(ck, "degenerate", deg, res)
    ck.sample(starklib.shrink(b[1]))
    n = 4000 if thorough else 250
    s = starklib.generate(ck, "SimStarkCfg_thorough.cfg" if thorough else "SimStarkCfg.cfg", "simulate", simulate=n, depth=40)
    ck.require(len(s) >= n // 4, "simulation produced too few supported configurations: %d of %d" % (len(s), n))
    res = starklib.run_pipeline(binary, "c01-sim", s)
    judge(ck, "simulate", s, res)
    for x in s[:2]:
        ck.sample(starklib.shrink(x))
    # the AIRs bundled with the repository, options from the specification (StarkExamples.tla)
    ne = 400 if thorough else 40
    r = vf.tlc("StarkExamples.tla", "SimStarkExamples.cfg", cwd=starklib.SPECDIR, workers=1, simulate=ne, depth=10,
               seed=ck.seed, timeout=1800)
    if not r.ok:
        raise vf.ToolError("StarkExamples generator failed: %s" % (r.error or "")[:1500])
    ck.add_tlc("examples", r)
    ex = r.tagged("EXAMPLE")
    ck.require(len(ex) >= ne // 2, "too few example cases: %d" % len(ex))
    res = starklib.run_pipeline(binary, "c01-examples", ex, engine="examples", timeout=3000)
    bad = 0
    for c, r2 in zip(ex, res):
        e = c["expect"]
        what = None
        if r2.get("verdict") != "accept" or r2.get("roundtrip_equal") is not True:
            what = "verdict=%s" % r2.get("verdict")
        else:
            for k in ("fri_layers", "lde_domain", "trace_len"):
                if r2.get(k) != e[k]:
                    what = "%s expected=%s got=%s" % (k, e[k], r2.get(k))
                    break
        if what:
            bad += 1
            ck.violation("C01 example %s %s" % (c["example"], what), json.dumps({"case": c, "result": r2})[:600],
                         {"engine": "examples", "case": c, "result": r2})
        elif not str(r2.get("wrong_inputs", "")).startswith("reject"):
            bad += 1
            ck.violation("C01/C02 example %s accepts wrong public inputs" % c["example"], json.dumps({"case": c, "result": r2})[:600],
                         {"engine": "examples", "case": c, "result": r2})
    ck.traces += len(ex)
    ck.part("examples", cases=len(ex), mismatches=bad, names=sorted({c["example"] for c in ex}))
    ck.sample(ex[0])
    # coverage of the option space actually exercised
    cov = {}
    for c in b + s:
        o = c["opts"]
        for k in ("blowup", "fold", "rem", "ext", "cbatch", "dbatch", "parts"):
            cov.setdefault(k, set()).add(o[k])
        cov.setdefault("field/hash", set()).add(c["field"] + "/" + c["hash"])
        cov.setdefault("log_len", set()).add(c["desc"]["log_len"])
        cov.setdefault("fri_layers", set()).add(c["expect"]["fri_layers"])
        cov.setdefault("comp_columns", set()).add(c["expect"]["comp_columns"])
        cov.setdefault("aux", set()).add(len(c["desc"]["aux"]))
    ck.part("option_coverage", **{k: sorted(v) for k, v in cov.items()})
    ck.require(len(cov["field/hash"]) >= 10, "too few field/hash combinations exercised")
    ck.bounds = {"boundary": "%d fixed configurations" % len(b),
                 "simulation": "%d supported configurations, trace length <= 2^%d" % (len(s), 9 if thorough else 7)}
    ck.exhaustive = False
    ck.assumptions = ["Supported(cfg) of StarkCfg.tla is the claimed configuration space",
                      "the honest trace is non-degenerate (at least one column of full degree)"]


def replay(ck, path):
    binary = vf.build_harness("stark")
    obj = json.load(open(path))
    c = obj["replay"]["case"]
    if obj["replay"]["engine"] == "examples":
        r2 = starklib.run_pipeline(binary, "c01-replay", [c], engine="examples")[0]
        if r2.get("verdict") != "accept":
            ck.violation("C01 example %s verdict=%s" % (c["example"], r2.get("verdict")), json.dumps(r2)[:400], obj["replay"])
        return
    res = starklib.run_pipeline(binary, "c01-replay", [c])
    judge(ck, "replay", [c], res)
