"""C04 — tampered proof bytes are rejected unless semantically identical.
spec/wire/ProofWire.tla owns (a) the byte grammar of a serialised proof — it validates the field map
of every honest proof against the grammar derived from the instance alone —, (b) the mutation operator
family per field kind / boundary / structure, and spec/wire/TraceWire.tla owns (c) the acceptance rule:
an input may be ACCEPTED only if every parsed component equals the honest proof's.  The harness applies
the byte edits blindly, runs Proof::from_bytes and winterfell::verify in isolated workers and reports,
for accepted inputs, which parsed components (as returned by the real parsers) differ."""
import json, os
import vf, wirelib

META = dict(
    technique="TLA+ byte grammar of Proof (validates the real field map, enumerates field-level, boundary, structural and length-compensating mutations) + TLC trace validation of the recorded verdicts against the acceptance rule",
    text="For honest accepted proofs of the WireCases instances (3 quick / 11 thorough: all fields, hasher families, extension degrees, one- and two-segment traces, 1-5 FRI layers) TLC enumerates every single-site mutation of every encoded field (bit flips, zero, max, +-1, 2^31/2^40/2^63 sizes, non-minimal vint re-encodings, data corruption), every boundary edit (truncate, insert, delete, duplicate, drop), structural edits (extra / missing FRI layer, digest, query row, OOD element, padded or halved remainder), length-compensating pairs and header byte values; the real deserializer and verifier (OptionSet, and for context mutations also MinConjecturedSecurity / MinProvenSecurity) run on each; TraceWire.tla accepts an Accepted verdict only when context, unique-query count, commitments, query values and openings, OOD frame, FRI layers, remainder, partitions and nonce all parse to the original's contents.",
    note="What the spec decides: the grammar (field sequence and every length relation), which mutations exist, and the acceptance rule. What the harness computes: field offsets (walking the proof's own serialisation with the real reader; validated by TLC before use), the mutated bytes (cross-checked by an independent implementation in the supervisor), and the parsed-component comparison through the real parsers with the honest instance's parameters. Transcript-changing mutations are rejected only with overwhelming probability (< 2^-40 by WireCases!Binding and >= 62-bit fields). Panics/aborts are C05's subject and are only counted here.",
    design="7/C04")

CTX_VARIANTS = ["optset", "conj", "proven"]
COSTLY_FIELDS = {"bmp.nodes", "bmp.vcnt", "q.vals", "fl.vals", "com.d", "ood.tvals", "ood.qvals", "fri.rem"}


def variants_for(m):
    if m["grp"] in ("ctx", "uq") or m["cls"].startswith("hdr.") or any(e["o"] < 64 for e in m["e"]):
        return CTX_VARIANTS
    return ["optset"]


REPETITIVE = {"bmp.vcnt", "bmp.nodes", "com.d"}


def select(muts, tier, seed):
    """Quick tier: every mutation on the first instance except that the repetitive fields (node vectors of
    the batch openings, digests) are mutated in their first two occurrences per group only; on the other
    instances additionally only a seeded third of the data-corruption and boundary edits inside bulky fields."""
    if tier == "thorough":
        return muts
    out = []
    seen = {}
    for j, m in enumerate(muts):
        if m["fld"] in REPETITIVE:
            key = (m["c"], m["grp"], m["fld"], m["cls"])
            seen[key] = seen.get(key, 0) + 1
            if seen[key] > 2:
                continue
        bulky = m["fld"] in COSTLY_FIELDS and (m["cls"].startswith("data.") or m["cls"].startswith("cut."))
        if m["c"] == 0 or not bulky or (j + seed) % 3 == 0:
            out.append(m)
    return out


def signature(m, ve, diff):
    acc = ",".join(sorted(v for v, o in ve.items() if o == "ok"))
    return "accepted under %s with different parsed %s: %s %s" % (acc, "+".join(diff), m["cls"], m["fld"])


def evaluate(ck, rows, muts, results, name):
    events = []
    for m, r in zip(muts, results):
        de, ve = wirelib.classify(r)
        events.append({"de": de, "ve": [ve[k] for k in sorted(ve)], "diff": r.get("diff", []) if "ok" in ve.values() else []})
    rejected = wirelib.validate_outcomes(ck, events, "C04", name)
    for i in rejected:
        m, r = muts[i], results[i]
        de, ve = wirelib.classify(r)
        ck.violation(signature(m, ve, r.get("diff", [])),
                     "%s: mutation %s of field %s (%s) accepted %s although parsed %s differ" % (
                         wirelib.case_name(rows[m["c"]]), m["cls"], m["fld"], m["grp"], ve, r.get("diff")),
                     {"case": rows[m["c"]], "mutation": m, "outcome": {k: v for k, v in r.items() if k not in ("i",)}})
    return events, rejected


def run(ck, tier):
    thorough = tier == "thorough"
    binary = vf.build_harness("wire")
    rows = wirelib.gen_cases(ck, thorough)
    proofs, ppath = wirelib.honest_proofs(ck, binary, rows, "c04")
    try:
        for r, p in zip(rows, proofs):
            if not p.get("ok") or p["verdict"][0] != "ok":
                raise vf.ToolError("no accepted honest proof for %s: %s %s" % (wirelib.case_name(r), p.get("error"), p.get("verdict")))
        allm = wirelib.gen_mutations(ck, rows, proofs, thorough)
        muts = select(allm, tier, ck.seed)
        ck.require(len(muts) > 800 * len(rows), "too few mutations: %d" % len(muts))
        tasks = [{"k": "mut", "c": m["c"], "e": m["e"], "acc": variants_for(m)} for m in muts]
        n_enum = len(muts)
        if thorough:
            # seeded uniformly random multi-byte substitutions (not part of the enumerated family)
            rt, rm = wirelib.random_tasks(ck.rng, rows, proofs, 0, 500, 0)
            tasks += rt
            # a random substitution is named by the grammar fields it touches (honest field map), so that a
            # finding is identified by WHAT was changed and not by the operator that happened to change it
            def touched(ci, raw):
                honest, b = bytes.fromhex(proofs[ci]["hex"]), bytes.fromhex(raw)
                offs = [i for i in range(min(len(honest), len(b))) if honest[i] != b[i]]
                names = sorted({f["n"] for f in proofs[ci]["map"] for o in offs if f["o"] <= o < f["o"] + f["l"]})
                return "+".join(names) if names else "-"
            muts = muts + [{"c": m["c"], "cls": m["cls"], "fld": touched(m["c"], t["b"]), "grp": "-", "e": [], "raw": t["b"]} for t, m in zip(rt, rm)]
        results, restarts = wirelib.run_workers(binary, ppath, tasks, "c04", par=4)
        wirelib.check_inputs(muts[:n_enum], results[:n_enum], [bytes.fromhex(p["hex"]) for p in proofs])
    finally:
        if os.path.exists(ppath):
            os.unlink(ppath)
    events, rejected = evaluate(ck, rows, muts, results, "c04")
    # coverage and vacuity guards
    n_deser_err = sum(1 for e in events if e["de"] == "err")
    n_rejected = sum(1 for e in events if e["de"] == "ok" and e["ve"] and "ok" not in e["ve"] and all(v == "err" for v in e["ve"]))
    n_same = sum(1 for e in events if "ok" in e["ve"] and not e["diff"])
    n_crash = sum(1 for e in events if e["de"] in ("panic", "crash", "timeout") or any(v in ("panic", "crash", "timeout") for v in e["ve"]))
    classes = sorted(set(m["cls"] for m in muts))
    for ci in range(len(rows)):
        ident = [e for m, e in zip(muts, events) if m["c"] == ci and m["cls"] == "end.identity"]
        ck.require(len(ident) == 1 and "ok" in ident[0]["ve"] and not ident[0]["diff"],
                   "the unmodified proof of instance %d is not accepted as identical" % ci)
    ck.require(n_deser_err > 200 and n_rejected > 200 and n_same > 20,
               "outcome classes too thin: deser_err=%d rejected=%d accepted_identical=%d" % (n_deser_err, n_rejected, n_same))
    ck.require(len(classes) >= 40, "mutation operator classes missing: %d" % len(classes))
    ck.traces += len(muts)
    ck.evaluations += sum(1 + len(t["acc"]) for t in tasks)
    ck.part("mutations", generated=len(allm), run=len(muts), operator_classes=len(classes), instances=len(rows),
            deser_err=n_deser_err, rejected_by_verifier=n_rejected, accepted_identical=n_same,
            accepted_different=len(rejected), panicked_or_aborted_not_judged_here=n_crash, worker_restarts=restarts,
            proof_sizes=[p["len"] for p in proofs])
    ck.part("instances", names=[wirelib.case_name(r) for r in rows])
    some = [m for m in muts if m["cls"] in ("fri.extra_layer_wellformed", "vint.nonminimal9", "len.plus1_insert")][:3]
    for m in some:
        ck.sample({"instance": wirelib.case_name(rows[m["c"]]), "mutation": m})
    ck.bounds = {"instances": len(rows), "mutations": len(muts),
                 "operators": "single-site per field kind, per boundary, structural, length-compensating, header values" + (", two-site pairs" if thorough else "")}
    ck.exhaustive = False
    ck.assumptions = ["mutation operators are the finite family of ProofWire.tla; uniformly random multi-byte edits are not a C04 input (C05 uses them)",
                      "transcript-changing edits are rejected with probability > 1 - 2^-40 (WireCases!Binding; fields >= 62 bits)",
                      "public inputs are the honest ones; the AIR adapts its auxiliary part to the announced trace info instead of asserting"]


def replay(ck, path):
    binary = vf.build_harness("wire")
    obj = json.load(open(path))["replay"]
    row, m = obj["case"], obj["mutation"]
    row = dict(row, idx=0)
    proofs, ppath = wirelib.honest_proofs(ck, binary, [row], "c04r")
    try:
        m = dict(m, c=0)
        if m.get("raw"):
            tasks = [{"k": "raw", "c": 0, "b": m["raw"], "acc": ["optset", "conj", "proven"]}]
        else:
            tasks = [{"k": "mut", "c": 0, "e": m["e"], "acc": variants_for(m)}]
        results, _ = wirelib.run_workers(binary, ppath, tasks, "c04r", par=1)
    finally:
        os.unlink(ppath)
    evaluate(ck, [row], [m], results, "c04r")
    ck.traces += 1
