"""C19 — Merkle verification rejects wrong data and never panics.
spec/merkle/MerkleCases.tla derives, from honest openings, mutated inputs with the verdict the PROPERTY
assigns to each (wrong data -> rejected; duplicate / out-of-range / empty index lists and proofs that
lack information -> Err from get_root, verify_batch and into_openings; tolerated excess and arbitrary
garbage -> at least no panic), plus exhaustive small spaces of arbitrary malformed proofs (depth 0..255).
TLC checks at design level that the transcribed algorithms (MerkleBatch.tla) take an exit compatible
with every verdict and never reach a modelled panic; the mutated inputs are then rebuilt from terms on
the real BatchMerkleProof (public fields nodes/depth) and MerkleTree::verify / verify_batch / get_root /
into_openings are called under a panic hook, in the release profile and in the dev profile (overflow
checks on, as in `cargo test`)."""
import json, os
import vf
import C18

SPECDIR = C18.SPECDIR
HASHERS = 6

META = dict(
    technique="TLC-generated mutations of honest Merkle openings with property-level verdict classes (design-checked against a TLA+ transcription of get_root/into_openings) replayed on the real verify / verify_batch / get_root / into_openings under a panic hook, release and dev (overflow-checked) profiles",
    text="From every honest opening of the 2- and 4-leaf trees (thorough: also 8), from seeded samples of 8/16-leaf openings and from trees of 64, 1024 and 4096 leaves, TLC derives: substituted leaf / proof node / in-range index, swapped nodes, swapped indexes (with and without the leaves), duplicated, out-of-range (up to usize::MAX) and empty index lists, removed / added / inserted nodes, node vectors and leaves, every depth byte 0..255 for two openings per tree and a spread of depths for the others; and, independently, every malformed proof of a small exhaustive space (depths 0,1,2,3,63,64,255 x index lists with duplicates and out-of-range values x node-vector shapes x 0..3 leaves). Single-opening verification must reject every substituted leaf, node and in-range index (verdict computed by the specification's VerifyOpening on terms). Batch calls must answer as the verdict class says and must never panic, with six hashers, in release and in dev profile.",
    note="Hashing is ideal in the specification; real digests of distinct terms are assumed distinct (probability of a false alarm < 2^-90 per comparison). Verdicts 'Err required' are limited to what the property states: wrong data, invalid index lists, proofs lacking nodes/leaves, impossible depth; excess material (extra nodes, vectors, leaves) is only required not to panic. Mutated proofs are built from the specification's description of the honest proof; if the real verifier rejected that description the run is a tool error, not a violation. Single-opening verify with an empty path or an out-of-range index is outside the statement and not exercised.",
    design="7/C19")


def sampled_cases(rng, thorough):
    out = []
    seen = set()

    def add(n, idx, alld=False):
        key = (n, tuple(idx))
        if idx and key not in seen:
            seen.add(key)
            out.append(C18.case("batch", n, idx, alld=alld))

    small = ((8, 900), (16, 2500)) if thorough else ((8, 220), (16, 120))
    for n, cnt in small:
        if not (thorough and n == 8):
            out.append(C18.case("tree", n, sidx=range(n)))
        add(n, [n - 1], True); add(n, [0, n - 1], True); add(n, list(range(n)))
        for _ in range(cnt):
            k = rng.randint(1, n)
            idx = rng.sample(range(n), k)
            if rng.random() < 0.6:
                idx.sort()
            add(n, idx)
    for n in (64, 1024, 4096):
        out.append(C18.case("tree", n, sidx=sorted(set([0, n - 1, n // 2] + rng.sample(range(n), 5 if not thorough else 20)))))
        add(n, [0]); add(n, [n - 1], True); add(n, [0, n - 1], True); add(n, [n // 2 - 1, n // 2])
        for _ in range(12 if thorough else 3):
            k = rng.randint(2, 10)
            idx = rng.sample(range(n), k)
            if rng.random() < 0.5:
                idx.sort()
            add(n, idx)
    return out


def signature(d):
    msg = d.get("msg") or ""
    call, kind = d["call"], d.get("kind")
    if d["got"] == "panic":
        if (d.get("depth") or 0) >= 64 and "overflow" in msg:
            return "C19 %s depth>=64 overflow panic" % call
        if call == "into_openings" and kind in ("b_oob", "shape") and "attempt to add with overflow" in msg \
                and "merkle/proofs.rs" in msg:
            big = any(isinstance(x, list) and len(x[1]) == 8 and x[1][-1] == 255 for x in (d.get("mutation", {}).get("idx") or []))
            if big:
                return "C19 into_openings index+2^depth overflow panic"
        site = msg.split(": ")[0]
        site = site.replace("/repo/", "")
        if "/library/" in site:
            site = "std:" + site.split("/library/")[1].rsplit(":", 1)[0]
        return "%s %s expected=%s got=panic @%s (%s)" % (call, kind, d["expected"], site, msg.split(": ", 1)[-1][:60])
    return "%s %s expected=%s got=%s" % (call, kind, d["expected"], d["got"])


def report(ck, records, bad, profile):
    for d in bad:
        rec = dict(records[d["i"]])
        if rec["kind"] == "tree":
            recs = [rec]
        else:
            # keep only the failing mutation in the replay file
            if d.get("mutation") is not None:
                rec["muts"] = [d["mutation"]]
            recs = [C18.tree_of(records, rec["n"]), rec]
        desc = "profile=%s hasher=%s n=%s idx=%s depth=%s kind=%s expected=%s got=%s %s" % (
            profile, d.get("hasher"), rec["n"], rec.get("idx"), d.get("depth"), d.get("kind"), d["expected"], d["got"],
            d.get("msg") or "")
        ck.violation(signature(d), desc, {"engine": "c19", "variant": "serial", "profile": profile,
                                          "records": recs, "mismatch": d})


def corrupt_for_selftest(records):
    """VERIF_C19_CORRUPT=<what>: deliberately wrong verdict, to demonstrate that the binding bites."""
    what = os.environ.get("VERIF_C19_CORRUPT")
    if not what:
        return
    for r in records:
        if what == "accept" and r["kind"] == "batch" and r["n"] == 4 and r["idx"] == [2, 1]:
            for m in r["muts"]:
                if m["k"] == "b_leaf":
                    m["vb"] = "ok"; m["gr"] = "root"          # a substituted leaf claimed to verify
                    return
        if what == "err" and r["kind"] == "batch" and r["n"] == 4 and r["idx"] == [0]:
            for m in r["muts"]:
                if m["k"] == "sh_addnode":
                    m["gr"] = m["vb"] = m["io"] = "err"       # tolerated excess claimed to be an error
                    return
        if what == "single" and r["kind"] == "tree" and r["n"] == 4:
            r["smuts"][1]["muts"][0]["exp"] = "ok"
            return


def run(ck, tier):
    thorough = tier == "thorough"
    rel = vf.build_harness("merkle")
    dev = vf.build_harness("merkle", profile="dev")
    cases = sampled_cases(ck.rng, thorough)
    records = C18.run_tlc(ck, "mutations", "MCMerkle_c19_thorough.cfg" if thorough else "MCMerkle_c19.cfg", cases,
                          timeout=2400)
    nb = sum(1 for r in records if r["kind"] == "batch")
    ns = sum(1 for r in records if r["kind"] == "shape")
    nm = sum(len(r["muts"]) for r in records if r["kind"] == "batch")
    nsm = sum(len(s["muts"]) for r in records if r["kind"] == "tree" for s in r["smuts"])
    kinds = set(m["k"] for r in records if r["kind"] == "batch" for m in r["muts"])
    ck.require(nb >= (3000 if thorough else 350), "too few honest openings to mutate: %d" % nb)
    ck.require(ns >= 10000, "too few arbitrary malformed proofs: %d" % ns)
    ck.require(nm >= 20000 and nsm >= 1500, "too few mutations: batch %d single %d" % (nm, nsm))
    need = {"b_leaf", "b_node", "b_nodeswap", "b_idx", "b_idxswap", "b_swapboth", "b_dup", "b_oob", "b_empty",
            "sh_empty", "sh_dropnode", "sh_dropvec", "sh_addnode", "sh_insfront", "sh_addvec", "sh_dropleaf",
            "sh_addleaf", "sh_depth"}
    ck.require(need <= kinds, "mutation classes missing from the generator: %s" % sorted(need - kinds))
    depths = set(m["depth"] for r in records if r["kind"] == "batch" for m in r["muts"] if m["k"] == "sh_depth")
    ck.require(depths >= set(range(256)) - set(range(1, 13)), "depth bytes 0..255 not all generated")
    # design-level models of the overflow behaviour (information; see known finding F-C19-1)
    r = vf.tlc("MCMerkle.tla", "MCMerkle_c19_found.cfg", cwd=SPECDIR, workers=2, timeout=600)
    ck.add_tlc("design_as_found_overflow_checks", r)
    i = r.raw.find("INCONSISTENT")
    ck.part("design_as_found_overflow_checks", invariant_holds=r.ok,
            counterexample=" ".join(r.raw[i:i + 400].split()) if i >= 0 else None)
    r = vf.tlc("MCMerkle.tla", "MCMerkle_c19_guard.cfg", cwd=SPECDIR, workers=2, timeout=600)
    ck.add_tlc("design_with_depth_guard", r)
    if not r.ok:
        raise vf.ToolError("design model with the depth guard fails its invariant: %s" % r.error)
    corrupt_for_selftest(records)
    for r in records:
        if r["kind"] == "batch" and r["n"] == 8 and len(r["idx"]) == 3:
            s = dict(r); s["muts"] = s["muts"][:2] + [m for m in s["muts"] if m["k"] in ("sh_depth", "sh_dropnode")][:2]
            ck.sample(s, limit=2)
            break
    for r in records:
        if r["kind"] == "shape" and r["depth"] == 64 and len(r["idx"]) == 2 and len(r["nodes"]) == 1:
            ck.sample(r, limit=3)
            break
    for profile, binary in (("release", rel), ("dev", dev)):
        summ, bad = C18.replay_records(ck, "C19", "c19", binary, "serial", profile, records, timeout=2400)
        report(ck, records, bad, profile)
        c = summ["counts"]
        ck.require(summ["extra"].get("overflow_checks") is (profile == "dev"), "profile mix-up: %s" % summ["extra"])
        if c.get("base_rejected", 0):
            raise vf.ToolError("the real verifier rejected %d honest openings as described by the specification; "
                               "C19 mutations are meaningless then (see C18)" % c["base_rejected"])
        ck.require(c.get("batches", 0) == nb * HASHERS and c.get("shapes", 0) == ns * HASHERS
                   and c.get("single_mutations", 0) == nsm * HASHERS, "replay incomplete: %s" % c)
        ck.traces += c.get("batch_mutations", 0) + c.get("single_mutations", 0)
        ck.evaluations += c.get("calls", 0)
        ck.part("replay_" + profile, **c)
    ck.bounds = {
        "honest_openings_mutated": nb, "batch_mutations": nm, "single_opening_mutations": nsm,
        "arbitrary_malformed_proofs": ns,
        "exhaustive": "all openings of trees with %s leaves (every ascending list, every order of <= 4 indexes); "
                      "malformed-proof space of MCMerkle_c19%s.cfg" % ("2,4,8" if thorough else "2,4", "_thorough" if thorough else ""),
        "sampled": "%d seeded openings of 8/16-leaf trees and of trees with 64, 1024, 4096 leaves" % len(cases),
        "depth_bytes": "0..255 for two openings per tree, 0..d+2 and 31,32,33,62,63,64,65,127,128,254,255 otherwise",
        "profiles": ["release", "dev (overflow checks, debug assertions)"],
    }
    ck.exhaustive = False
    ck.assumptions = ["ideal hashing in the specification; distinct terms evaluate to distinct real digests",
                      "'Err required' only for wrong data, invalid index lists, missing nodes/leaves and impossible depths; excess material only has to be panic free",
                      "mutated proofs are built through the public fields of BatchMerkleProof"]


def replay(ck, path):
    obj = json.load(open(path))["replay"]
    profile = obj.get("profile", "release")
    binary = vf.build_harness("merkle", profile=profile)
    records = obj["records"]
    summ, bad = C18.replay_records(ck, "C19", "c19", binary, "serial", "replay", records)
    report(ck, records, bad, profile)
    ck.traces += len(records)
    ck.evaluations += summ["counts"].get("calls", 0)
