"""C06 — proof bytes are independent of threading and build features.
spec/stark/Determinism.tla is a run-independence monitor validated by TLC against observations recorded
from the real prover built three ways (serial, concurrent with several worker-thread counts, async),
each run in its own process, on instances TLC generated (StarkCfg.tla) with sizes on both sides of the
parallelism thresholds. Trace-table construction routes are covered by C29."""
import json, os
import vf, starklib

META = dict(
    technique="TLA+ run-independence monitor (Determinism.tla) validated by TLC against component digests recorded from serial / concurrent (1-16 threads) / async builds of the real prover on TLC-generated instances",
    text="For each generated instance the real prover is run in separate processes as serial build, concurrent build with 1,2,3,4,5,7,8,11,16,38 worker threads (quick: 1,2,4,7,16), and async build; digests of context, commitments, out-of-domain frame, whole proof (keyed by nonce) and the verification verdict are validated by TLC against the monitor, which accepts only equal observations.",
    note="The rayon scheduler is sampled (thread counts, repeated runs), not enumerated; exhaustive schedule exploration exists only at the design level (chunking model). Instances: trace lengths up to 2^11 (quick) / 2^13 (thorough).",
    design="7/C06")

FIXED = [  # sizes on both sides of the thresholds; built from generated cases by overriding sizes
    dict(log_len=6, blowup=8), dict(log_len=7, blowup=8), dict(log_len=10, blowup=2), dict(log_len=10, blowup=8),
]


def run(ck, tier):
    thorough = tier == "thorough"
    gen = starklib.generate(ck, "SimStarkDet.cfg", "instances", simulate=150 if thorough else 60, depth=45)
    ck.require(len(gen) >= 8, "too few instances generated: %d" % len(gen))
    # prefer instances with grinding and with width > 8 (two segments), keep it affordable
    gen.sort(key=lambda c: (-(c["desc"]["width"] > 8), -min(c["opts"]["grind"], 1), -c["desc"]["log_len"]))
    fixed = starklib.generate(ck, "DetStarkCfg.cfg", "fixed-instances", tag="DET")
    ck.require(len(fixed) >= 4, "fixed instance list missing")
    cases = fixed + gen[: (24 if thorough else 5)]
    if thorough:
        grid = starklib.generate(ck, "DetGridStarkCfg.cfg", "grid-instances", tag="DETGRID")
        ck.require(len(grid) >= 24, "grid instance list missing")
        cases += grid
    ck.require(any(c["desc"]["width"] > 8 for c in cases), "no multi-segment instance")
    ck.require(any(c["opts"]["grind"] > 0 for c in cases), "no instance with grinding")
    ck.require(any(c["desc"]["log_len"] + {2: 1, 4: 2, 8: 3, 16: 4, 32: 5, 64: 6, 128: 7}[c["opts"]["blowup"]] >= 11 for c in cases),
               "no instance with an LDE domain above the concurrency thresholds")
    # design level: every interleaving of the concurrent Merkle-node builder's task schedule
    mdir = os.path.join(vf.SPEC, "merkle")
    for c in (("16_4", "16_8", "32_4", "8_8") if thorough else ("16_4", "16_8")):
        r = vf.tlc("MerkleConc.tla", "MerkleConc_%s.cfg" % c, cwd=mdir, workers=2, timeout=900)
        ck.add_tlc("design:MerkleConc_" + c, r)
        if not r.ok:
            raise vf.ToolError("MerkleConc design model violates its invariants (specification bug): %s" % r.error)
    variants = [("serial", None)] + [("concurrent", t) for t in ((1, 2, 3, 4, 5, 7, 8, 11, 16, 38) if thorough else (1, 2, 4, 7, 16))] + [("async", None)]
    events = []
    nruns = 0
    for variant, t in variants:
        b = vf.build_harness("stark", variant=variant)
        name = variant if t is None else "%s-%d" % (variant, t)
        reps = 2 if (variant == "concurrent" and t and t > 1) else 1   # repeat: scheduling differs run to run
        for rep in range(reps):
            res = starklib.run_pipeline(b, "c06-%s-%d" % (name, rep), cases, engine="digests",
                                        env={"WF_THREADS": str(t or 1)}, timeout=3000)
            for i, r in enumerate(res):
                nruns += 1
                if "context" not in r:
                    # a prover failure on a supported instance is C01's concern; here it breaks the comparison
                    events.append({"inst": i, "run": name, "comp": "verdict", "v": r.get("verdict", "?"), "nonce": ""})
                    continue
                for comp in ("context", "commitments", "ood", "proof"):
                    events.append({"inst": i, "run": name, "comp": comp, "v": r[comp], "nonce": r["nonce"]})
                events.append({"inst": i, "run": name, "comp": "verdict", "v": r["verdict"], "nonce": r["nonce"]})
    rejected, st, tr = vf.validate_trace("Determinism.tla", "Determinism.cfg", starklib.SPECDIR, events, "c06")
    ck.states += st
    ck.transitions += tr
    ck.traces += nruns
    ck.evaluations += len(events)
    for idx, e in rejected:
        c = cases[e["inst"]]
        sig = "C06 %s differs in run %s" % (e["comp"], e["run"].split("-")[0])
        ck.violation(sig, "%s :: event %s" % (starklib.cfg_signature(c), json.dumps(e)),
                     {"engine": "digests", "case": c, "event": e, "variants": [v for v in variants]})
    distinct_nonces = len({(e["inst"], e["nonce"]) for e in events if e["comp"] == "proof"})
    ck.part("runs", instances=len(cases), runs=nruns, events=len(events), variants=[("%s-%s" % v) for v in variants],
            distinct_instance_nonce_pairs=distinct_nonces)
    ck.sample(starklib.shrink(cases[0]))
    ck.sample(events[0])
    ck.bounds = {"instances": len(cases), "max_log_len": max(c["desc"]["log_len"] for c in cases)}
    ck.exhaustive = False
    ck.assumptions = ["separate processes per variant; only final outputs are compared, no cross-thread ordering is inferred"]


def replay(ck, path):
    rp = json.load(open(path))["replay"]
    c = rp["case"]
    events = []
    for variant, t in [("serial", None), ("concurrent", 1), ("concurrent", 4), ("concurrent", 16), ("async", None)]:
        b = vf.build_harness("stark", variant=variant)
        name = variant if t is None else "%s-%d" % (variant, t)
        r = starklib.run_pipeline(b, "c06-replay", [c], engine="digests", env={"WF_THREADS": str(t or 1)})[0]
        for comp in ("context", "commitments", "ood", "proof"):
            if comp in r:
                events.append({"inst": 0, "run": name, "comp": comp, "v": r[comp], "nonce": r["nonce"]})
        events.append({"inst": 0, "run": name, "comp": "verdict", "v": r.get("verdict", "?"), "nonce": r.get("nonce", "")})
    rejected, st, tr = vf.validate_trace("Determinism.tla", "Determinism.cfg", starklib.SPECDIR, events, "c06r")
    ck.states += st; ck.transitions += tr; ck.traces += 5
    for idx, e in rejected:
        ck.violation("C06 %s differs in run %s" % (e["comp"], e["run"].split("-")[0]), json.dumps(e), rp)
