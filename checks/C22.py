"""C22 — boundary constraints vanish exactly on asserted cells; coefficient assignment is independent
of the order of the assertion list.

spec/air/Boundary.tla (over FieldP / PolyP / Divisor.tla, assertion step sets and overlap from C21's
Assertions.tla) generates valid assertion sets with, per assertion: asserted steps, points g^s and
values; the divisor PROD (x - g^s) on the LDE coset and at out-of-domain points; the constraint
t - b(x) at out-of-domain points (b = THE interpolant of the asserted values).  TLC checks on every
case that the interpolant takes the asserted values and that the documented closed form of the
divisor is that product.  The harness calls the real BoundaryConstraints::new for 2-4 permutations of
the assertion lists, matches every real constraint to the assertion with its column whose steps are
the zero set of the group's divisor over the whole trace domain, and compares values.  What depends on
the coefficient assignment is recorded and validated by TLC with spec/air/TraceBoundary.tla: the
assignment per ordering, every real group's evaluate_at, and the composition trace the PROVER's
DefaultConstraintEvaluator produces (single-value, small-polynomial and large-polynomial constraint
tables of prover/src/constraints/evaluator/boundary.rs) for an Air whose transition constraints vanish
identically, over a TLC-defined execution trace."""
import json, os, re, collections
import vf, airalglib as al

META = dict(
    technique="TLA+ definitions of boundary constraints over toy prime fields: TLC computes complete expected values (Generate->Replay on the real BoundaryConstraints::new through AirContext over toy fields) and validates the recorded coefficient assignments and group evaluations (Record->Validate, TraceBoundary.tla)",
    text="Every non-overlapping pair of assertion shapes at trace length 8 over F_97 (one column, two columns, main/auxiliary), every shape at length 16, seeded sets of up to 8+4 assertions at lengths 16/32 over F_257/F_193 and sequences of 64..256 values with zero and non-zero first step over F_40961 (L = 128..512): each real constraint evaluates to zero at g^s exactly on the asserted value (all 97 field values for P = 97, 8-11 candidates otherwise, base and extension trace values), each group divisor has the asserted points as its exact zero set over the whole trace domain, degree = number of asserted steps, and the TLC-computed values on the LDE coset and at out-of-domain points; constraint values at out-of-domain points equal t - b(x). For 2-4 orderings of each list the assertion -> coefficient assignment read from cc() is a bijection and identical, and every group's evaluate_at equals SUM cc*(state[col]-b(x))/Z(x) as validated by TLC; the prover's constraint evaluator (DefaultConstraintEvaluator over DefaultTraceLde, transition constraints identically zero) returns SUM_a cc_a (T_col(x)-b_a(x))/Z_a(x) at every point of the constraint evaluation domain for L <= 32 and at 12 sampled points for the long sequences, with the LDE blowup 1x, 2x, 4x and 8x the constraint evaluation blowup (as far as the field has roots of unity; all four for the long sequences) (release builds).",
    note="Toy fields stand in for the production fields. Which coefficient an assertion receives is not fixed by the property and not gated (only bijectivity and order independence are). The byte-identity of whole proofs under permuted assertion lists is the end-to-end half of the property and belongs to the Determinism engine (C06/C01 group). The prover's evaluator is exercised in release builds only (its degree validation of the all-zero transition constraints is a debug assertion).",
    design="7/C22")


def sig(sc, det, label):
    a = det.get("assertion") or {}
    cls = "%s" % a.get("k", "-")
    if a.get("k") == "sequence":
        cls += " n%s64 first%s0" % (">=" if a.get("nvals", 0) >= 64 else "<", "=" if a.get("first") == 0 else ">")
    return "boundary:%s %s [%s] fam=%s d=%s" % (det.get("call"), det.get("what"), cls, sc.get("fam"), sc.get("d"))


def generate(ck, thorough):
    sc = al.generate(ck, "boundary", "Boundary.tla", "GenBoundary_thorough.cfg" if thorough else "GenBoundary.cfg",
                     al.AIRDIR, timeout=3000 if thorough else 900)
    fams = collections.Counter(s["fam"] for s in sc)
    ck.require(fams["error"] == 0, "the generator produced coefficient vectors that are not pairwise distinct")
    ck.require(fams["pair"] > 900 and fams["each"] >= 100 and fams["rand"] >= 30 and fams["long"] >= 10,
               "families missing from the generator output: %s" % dict(fams))
    kinds = collections.Counter()
    long_first = collections.Counter()
    for s in sc:
        for seg in ("main", "aux"):
            for r in s[seg]:
                a = r["a"]
                kinds[(seg, a["k"])] += 1
                if a["k"] == "sequence" and len(a["vals"]) >= 64:
                    long_first[(seg, a["first"] > 0, len(a["vals"]))] += 1
    ck.require(all(kinds[(g, k)] >= 20 for g in ("main", "aux") for k in ("single", "periodic", "sequence")),
               "assertion kinds missing: %s" % dict(kinds))
    ck.require(all(long_first[("main", f, n)] >= 1 for f in (False, True) for n in (64, 128, 256)) and
               sum(v for (g, f, n), v in long_first.items() if g == "aux") >= 6,
               "long sequences missing: %s" % dict(long_first))
    ck.require(all(s["blowups"][:3] == [2, 4, 8] for s in sc if s["fam"] == "long") and any(s["blowups"] == [2, 4, 8, 16] for s in sc if s["fam"] == "long") and all(len(s["blowups"]) >= 2 for s in sc if s["fam"] == "pair")
               and sum(1 for s in sc if s["fam"] in ("rand", "each") and 16 in s["blowups"]) >= 20,
               "LDE blowups 2x/4x/8x the constraint evaluation blowup are missing from the prover-evaluator cases")
    ck.require({s["d"] for s in sc} == {1, 2, 3} and {s["P"] for s in sc} >= {97, 193, 257, 40961}, "fields / extension degrees missing")
    ck.part("gen:boundary", families=dict(fams), assertions={"%s/%s" % k: v for k, v in sorted(kinds.items())},
            sequences_of_64_or_more={"%s first>0=%s n=%d" % k: v for k, v in sorted(long_first.items())})
    return sc


def events_of(scenarios, obs):
    ev, idx = [], []
    for o in obs:
        sc = scenarios[o["i"]]
        ob = o["obs"]
        if not ob["complete"]:
            continue        # a violation was already reported for this scenario
        rows = sc["main"] + sc["aux"]
        ev.append({"P": sc["P"], "d": sc["d"], "n": len(rows), "cc": sc["cc"],
                   "seg": [0] * len(sc["main"]) + [1] * len(sc["aux"]),
                   "steps": [r["steps"] for r in rows], "num": [r["num"] for r in rows], "z": [r["zx"] for r in rows],
                   "assign": ob["assign"], "groups": [{"members": g["members"], "vals": g["vals"]} for g in ob["groups"]],
                   "cnum": [r["cnum"] for r in rows], "cz": [r["zc"] for r in rows],
                   "blowups": sc["blowups"], "comp": ob.get("comp", [])})
        idx.append(o["i"])
    return ev, idx


def validate(ck, scenarios, events, idx, name="trace"):
    """TraceBoundary.tla over the recorded events; every rejected event is a violation (the remainder
    of the trace is validated too)."""
    wd = vf.workdir("airalg")
    cur, base, rejected = events, 0, 0
    while cur:
        path = os.path.join(wd, "%s-%d.ndjson" % (name, os.getpid()))
        vf.write_ndjson(path, cur)
        r = vf.tlc("TraceBoundary.tla", "TraceBoundary.cfg", cwd=al.AIRDIR, workers=1, timeout=900, env={"TRACE": path}, deque=True)
        os.unlink(path)
        ck.states += r.distinct
        ck.transitions += r.generated
        if r.ok:
            break
        m = why = None
        for ln in r.prints:
            m = m or re.match(r'^<<"REJECTED_AT", (\d+)>>', ln)
            w = re.match(r'^<<"WHY", (\d+), "(\w+)">>', ln)
            why = why or (w.group(2) if w else None)
        if not m:
            raise vf.ToolError("TraceBoundary validation failed without a REJECTED_AT line:\n" + r.raw[-3000:])
        k = int(m.group(1))
        sc = scenarios[idx[base + k - 1]]
        ev = cur[k - 1]
        shapes = sorted(set(rw["a"]["k"] for rw in sc["main"] + sc["aux"]))
        ck.violation("boundary:coefficients %s fam=%s d=%s kinds=%s" % (why, sc["fam"], sc["d"], "+".join(shapes)),
                     json.dumps({"rejected_by": "TraceBoundary.tla", "conjunct": why, "assign": ev["assign"], "groups": al.brief(ev["groups"]),
                                 "scenario": al.brief(sc)})[:2500],
                     {"engine": "boundary", "build": "serial", "scenario": sc, "event": ev, "conjunct": why})
        rejected += 1
        if rejected >= 6:
            break
        base += k
        cur = cur[k:]
    ck.traces += len(events)
    ck.part("validate:" + name, events=len(events), rejected=rejected,
            permutations=sum(len(e["assign"]) for e in events), groups=sum(len(e["groups"]) for e in events),
            evaluator_runs=sum(len(e["comp"]) for e in events),
            evaluator_runs_by_lde_over_ce_blowup=dict(collections.Counter("%dx" % (b // 2) for e in events for b in e["blowups"][:len(e["comp"])])),
            composition_values=sum(len(v) for e in events for v in e["comp"]))


def run_all(ck, binary, sc, label="serial"):
    summary, obs = al.replay(ck, binary, "boundary", "boundary", sc, label=label, sig=sig)
    ck.require(len(obs) == len(sc), "the harness returned %d observations for %d scenarios" % (len(obs), len(sc)))
    events, idx = events_of(sc, obs)
    ck.require(len(events) + len(ck.violations) + len(ck.known_hits) >= len(sc) or len(events) > 0.9 * len(sc),
               "too few complete observations: %d of %d" % (len(events), len(sc)))
    validate(ck, sc, events, idx, name="trace-" + label)
    if not label.endswith("-dev") and len(events) == len(sc):
        ck.require(all(len(e["comp"]) == len(e["blowups"]) for e in events), "the prover's evaluator did not run for every LDE blowup")
    return summary


def run(ck, tier):
    thorough = tier == "thorough"
    binary = vf.build_harness("airalg")
    sc = generate(ck, thorough)
    for fam in ("pair", "rand", "long"):
        s = next(x for x in sc if x["fam"] == fam and (fam != "pair" or (x["aux"] and x["main"][0]["a"]["k"] == "sequence")))
        ck.sample(al.brief(s, 240))
    summary = run_all(ck, binary, sc)
    ck.require(summary["calls"] > 300000, "boundary replay made too few calls: %d" % summary["calls"])
    if thorough:
        run_all(ck, vf.build_harness("airalg", profile="dev"), sc, label="serial-dev")
    ck.bounds = {"pair": "L = 8, F_97: all non-overlapping shape pairs on one column, all shape pairs on two columns, %s main/aux pairs; E = base / quadratic / cubic" % ("all" if thorough else "half of the"),
                 "each": "L = 16, F_97 and F_257: each of the 60 shapes with a companion (main or auxiliary)",
                 "rand": "L = 16, 32 over F_257, F_193: %d seeded sets each (<= 8 main, <= 4 aux candidates, greedy non-overlap)" % (40 if thorough else 8),
                 "long": "F_40961, L in 128..512 (1024 thorough): sequences of 64/128/256 values, first step 0 and > 0, two per group + single + periodic + auxiliary sequence",
                 "orderings": "identity, reverse, rotation, seeded shuffle of each list",
                 "prover_evaluator": "option blowup in {2,4,8,16} = {1,2,4,8} x ce blowup while L*blowup <= 2^two-adicity: F_97 L=8 {1x,2x}, L=16 {1x}; F_257 L=16 all, L=32 up to 4x; F_193 up to 2x; F_40961 all"}
    ck.exhaustive = False
    ck.assumptions = ["toy field types implement FieldP.tla's arithmetic and get_root_of_unity returns RootOfUnity(P, k)",
                      "validity of an assertion set is C21's predicate (Assertions.tla: fits the length and width, pairwise no common cell per segment)",
                      "trace values tried at an asserted point: every element of F_97 (P = 97), otherwise 8 values around the asserted one plus extension perturbations",
                      "proof-byte identity under permuted assertion lists is checked end to end elsewhere (Determinism)"]


def replay(ck, path):
    obj = json.load(open(path))
    rp = obj["replay"]
    build = rp.get("build", "serial")
    binary = vf.build_harness("airalg", profile="dev" if build.endswith("-dev") else "release")
    run_all(ck, binary, [rp["scenario"]], label=build)
