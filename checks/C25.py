"""C25 — security estimates are monotone and bounded; option checks match.
spec/air/Security.tla (+ MCSecurity, GenSecurity, TraceSecurity):
(1) design level: TLC explores the whole option grid of the integer model of conjectured security
    (one state per option tuple; actions raise queries / grinding / extension degree) and checks the
    bounds as an invariant and monotonicity as an action property;
(2) model agreement: TLC prints the model's value for every grid point, the harness compares with the
    real conjectured_security().bits() — this carries (1) over to the code; a disagreement is reported
    as model drift, not as a violation (the property does not fix the formula);
(3) gate, Record->Validate: for grid cells chosen by TLC -simulate (seeded) the harness records tables of
    conjectured / proven (ldr, udr) estimates over extension degree x grinding x queries and the
    is_at_least / AcceptableOptions::validate decisions for thresholds around the values;
    TraceSecurity.tla accepts an event iff every bound, every monotonicity fact and every decision
    agrees with the property;
(4) Generate->Replay of AcceptableOptions::OptionSet cases (options differing in exactly one of the ten
    fields, batching and partitions included)."""
import json, os, re, threading
import vf

SPECDIR = os.path.join(vf.SPEC, "air")

META = dict(
    technique="TLC exploration of the integer model of conjectured security over the full option grid (invariant + action property), full-grid agreement replay against the real code, and TLC trace validation of recorded conjectured/proven estimate tables and accept/reject decisions",
    text="Bounds (<= collision resistance, < extension field bits) and monotonicity in queries, grinding and extension degree are model-checked on all option tuples x field bits {7,9,16,31,62,64,128} x collision resistance {96,124,128} of the integer model (3.7 M states), whose value is compared with the real conjectured_security() on the grid for 18 encodings of the base field (built-in f62/f64/f128, custom StarkFields with minimal-length and zero-padded modulus bytes, contexts read from the wire with a zero-padded modulus); the field size is the bit length of the modulus VALUE computed by the specification, never what the code reports; independently of any formula, TLC validates the same facts plus the is_at_least / validate(MinConjecturedSecurity|MinProvenSecurity) decision rule on tables recorded from the real code (3 x grinding x 255 entries per cell, conjectured and proven ldr/udr) for seeded TLC-chosen cells plus one fixed cell per field encoding (blowup, field encoding, hasher, trace length 2^3..2^22, constraint count, width, FRI parameters, batching methods); OptionSet acceptance is replayed on 1 342 generated cases.",
    note="Proven security is floating point: only relational facts on recorded values are decided, not agreement with the cited theorems. Monotonicity of proven security is checked along unit steps of the recorded axes within sampled cells, not on the whole grid. Proof objects are Proof::new_dummy() with the public context field replaced (Context::new over a StarkField type, or Context::read_from on serialized bytes).",
    design="7/C25")

GS_QUICK = [0, 1, 2, 5, 10, 16, 20, 31, 32]
GS_ALL = list(range(33))


def run_engine(ck, binary, engine, name, rows, mk_replay, gate=True):
    wd = vf.workdir("c25")
    path = os.path.join(wd, "%s-%d.ndjson" % (name, os.getpid()))
    vf.write_ndjson(path, rows)
    rc, out, err = vf.run_harness(binary, [engine, path], timeout=900)
    if rc != 0:
        raise vf.ToolError("harness %s failed rc=%d: %s" % (engine, rc, err[-2000:]))
    summary, mism = None, []
    for ln in out.splitlines():
        d = json.loads(ln)
        if d.get("summary"):
            summary = d
            continue
        mism.append(d)
        if gate:
            det = d["detail"]
            ck.violation("%s expected=%s got=%s" % (det["call"], det["expected"], str(det["got"]).split(" ")[0]),
                         json.dumps(det), mk_replay(d))
    if summary is None:
        raise vf.ToolError("harness %s produced no summary" % engine)
    os.unlink(path)
    ck.traces += summary["scenarios"]
    ck.evaluations += summary["ops"]
    ck.part(name, **{k: v for k, v in summary.items() if k != "summary"})
    return summary, mism


def record(ck, binary, cells, gs, name):
    wd = vf.workdir("c25")
    cpath = os.path.join(wd, "%s-cells-%d.ndjson" % (name, os.getpid()))
    epath = os.path.join(wd, "%s-events-%d.ndjson" % (name, os.getpid()))
    vf.write_ndjson(cpath, cells)
    rc, out, err = vf.run_harness(binary, ["security-record", cpath, ",".join(map(str, gs))], stdout_path=epath, timeout=1800)
    if rc != 0:
        raise vf.ToolError("harness security-record failed rc=%d: %s" % (rc, err[-2000:]))
    events = vf.read_ndjson(epath)
    os.unlink(cpath); os.unlink(epath)
    if len(events) != len(cells):
        raise vf.ToolError("recorder returned %d events for %d cells" % (len(events), len(cells)))
    return events


def validate(ck, events, name, mutate=None):
    """TLC validates the events (TraceSecurity.tla), in up to 4 parallel chunks. Returns the list of
    (event index, clause, witness position, count)."""
    if mutate:
        mutate(events)
    wd = vf.workdir("c25")
    nchunks = min(4, max(1, len(events) // 3))
    chunks = [list(range(k, len(events), nchunks)) for k in range(nchunks)]
    results = [None] * nchunks

    def work(k):
        path = os.path.join(wd, "%s-trace-%d-%d.ndjson" % (name, os.getpid(), k))
        vf.write_ndjson(path, [events[i] for i in chunks[k]])
        try:
            results[k] = vf.tlc("TraceSecurity.tla", "TraceSecurity.cfg", cwd=SPECDIR, workers=1, timeout=1800,
                                env={"TRACE": path}, deque=True, heap="3g")
        except Exception as ex:          # re-raised in the main thread
            results[k] = ex
        finally:
            os.unlink(path)
    ths = [threading.Thread(target=work, args=(k,)) for k in range(nchunks)]
    for t in ths:
        t.start()
    for t in ths:
        t.join()
    rejected = []
    for k, r in enumerate(results):
        if isinstance(r, Exception):
            raise r
        ck.add_tlc("validate", r) if k == 0 else None
        if k > 0:
            ck.states += r.distinct; ck.transitions += r.generated
            ck.parts["validate"]["tlc_states"] += r.distinct
            ck.parts["validate"]["tlc_generated"] += r.generated
        consumed = any(p.startswith('<<"CONSUMED", %d>>' % len(chunks[k])) for p in r.prints)
        if not r.ok or not consumed:
            raise vf.ToolError("trace validation did not consume the trace: %s\n%s" % (r.error, r.raw[-1500:]))
        for j in r.tagged("REJECTED"):
            rejected.append((chunks[k][j["l"] - 1], j["clause"], list(j["pos"]), j["count"]))
        if any(p.startswith('<<"REJECTED"') for p in r.prints) and not r.tagged("REJECTED"):
            raise vf.ToolError("unparsed REJECTED line in TLC output")
    return rejected


def describe(ev, clause, pos):
    d = {"cell": ev["cell"], "clause": clause}
    if ev.get("panic"):
        d["panic"] = ev["panic"]
        return d
    if len(pos) >= 3:
        e, gi, qi = pos[0], pos[1], pos[2]
        d.update(e=e, grinding=ev["gs"][gi - 1], queries=qi)
        for t in ("conj", "ldr", "udr"):
            d[t] = ev[t][e - 1][gi - 1][qi - 1]
            nb = {}
            if qi < ev["nq"]:
                nb["queries+1"] = ev[t][e - 1][gi - 1][qi]
            if gi < len(ev["gs"]):
                nb["grinding->%d" % ev["gs"][gi]] = ev[t][e - 1][gi][qi - 1]
            if e < 3:
                nb["e+1"] = ev[t][e][gi - 1][qi - 1]
            d[t + "_next"] = nb
    if len(pos) == 4:
        d["m"] = pos[3]
        d["decisions"] = [x for x in ev["dec"] if (x["e"], x["gi"], x["qi"], x["m"]) == tuple(pos)]
    return d


def record_validate(ck, binary, cells, gs, name, mutate=None):
    events = record(ck, binary, cells, gs, name)
    for c, e in zip(cells, events):
        if not e.get("panic") and e["mod"] != c["mod"]:
            raise vf.ToolError("the harness built a context announcing modulus bytes %s for the cell %s" % (e["mod"], c))
    ndec = sum(len(e["dec"]) for e in events)
    nvals = sum(3 * 3 * len(e["gs"]) * e["nq"] for e in events if not e.get("panic"))
    rejected = validate(ck, events, name, mutate)
    for (i, clause, pos, count) in rejected:
        ev = events[i]
        det = describe(ev, clause, pos)
        det["positions_contradicting"] = count
        c = ev["cell"]
        ck.violation("security: %s" % clause, json.dumps(det),
                     {"engine": "security-record", "cell": c, "gs": ev["gs"], "detail": det})
    ck.traces += len(events)
    ck.evaluations += nvals + 2 * ndec
    ck.part(name, cells=len(events), table_values=nvals, decisions=ndec, rejected_clauses=len(rejected))
    return events


def run(ck, tier, mutate=None):
    binary = vf.build_harness("airint")
    thorough = tier == "thorough"
    # (1) design level: full grid of the integer model
    r = vf.tlc("MCSecurity.tla", "MCSecurity_thorough.cfg", cwd=SPECDIR, workers=4, timeout=1200)
    ck.add_tlc("design", r)
    if not r.ok:
        raise vf.ToolError("the integer model of conjectured security violates the property (specification bug or "
                           "a defect of the transcribed formula): %s" % r.error)
    ck.require(r.distinct > 3500000, "grid exploration too small: %d states" % r.distinct)
    # (2) agreement of the model with the real code on the grid
    r = vf.tlc("GenSecurity.tla", "GenSecurityLines%s.cfg" % ("_thorough" if thorough else ""), cwd=SPECDIR,
               workers=4, timeout=1200)
    ck.add_tlc("gen-lines", r)
    lines = r.tagged("REPLAY")
    ck.require(len(lines) >= 1000, "too few model lines: %d" % len(lines))
    ck.sample({k: (v if k != "bits" else v[:45] + ["..."]) for k, v in lines[len(lines) // 2].items()})
    summ, mism = run_engine(ck, binary, "security-lines", "model-agreement", lines, None, gate=False)
    drift = len(mism)
    if drift:
        vf.log("NOTE C25: the integer model of conjectured security disagrees with the code on %d of %d lines "
               "(e.g. %s); not a violation of the property, the relational validation below still gates"
               % (drift, len(lines), json.dumps(mism[0]["detail"])))
        ck.part("model-agreement", drift_example=mism[0]["detail"])
    # (3) the gate: record -> validate on TLC-chosen cells
    ncell = 60 if thorough else 12
    r = vf.tlc("GenSecurity.tla", "GenSecurityCells.cfg", cwd=SPECDIR, workers=1, simulate=ncell, depth=13,
               seed=ck.seed, timeout=600)
    ck.add_tlc("gen-cells", r)
    cells = r.tagged("REPLAY")
    ck.require(len(cells) >= ncell - 2, "too few cells: %d" % len(cells))
    # always present: one cell per base-field encoding (built-in fields, custom StarkFields with minimal or
    # zero-padded modulus bytes, contexts read from the wire with a zero-padded modulus) and three grid corners
    r = vf.tlc("GenSecurity.tla", "GenSecurityFixedCells.cfg", cwd=SPECDIR, workers=1, timeout=600)
    ck.add_tlc("gen-fixed-cells", r)
    fixed = r.tagged("REPLAY")
    ck.require(len(fixed) >= 21 and len(set(c["fld"] for c in fixed)) >= 18
               and any(len(c["mod"]) * 8 - c["fbits"] >= 8 for c in fixed),
               "fixed cells do not cover the field encodings (zero-padded moduli): %d" % len(fixed))
    cells += fixed
    gs = GS_ALL if thorough else GS_QUICK
    events = record_validate(ck, binary, cells, gs, "record", mutate)
    ev = events[0]
    ck.sample({"cell": ev["cell"], "gs": ev["gs"], "conj[e=1][g=%d][q=1..40]" % ev["gs"][0]: ev["conj"][0][0][:40],
               "ldr[e=2][g=%d][q=1..40]" % ev["gs"][0]: ev["ldr"][1][0][:40],
               "udr[e=2][g=%d][q=1..40]" % ev["gs"][0]: ev["udr"][1][0][:40], "dec[0..2]": ev["dec"][:3]})
    # vacuity: the tables are not flat and the decisions contain both outcomes
    flat = all(len(set(e[t][1][0])) == 1 for e in events for t in ("conj", "ldr", "udr"))
    ck.require(not flat, "recorded tables are flat")
    al = [d["ok"] for e in events for d in e["dec"]]
    ck.require(any(al) and not all(al), "decisions are one-sided")
    # (4) option sets
    r = vf.tlc("GenSecurity.tla", "GenSecurityOptSets.cfg", cwd=SPECDIR, workers=2, timeout=600)
    ck.add_tlc("gen-optsets", r)
    oc = r.tagged("REPLAY")
    nacc = sum(1 for x in oc if x["accept"])
    ck.require(len(oc) > 1000 and 50 < nacc < len(oc) - 50, "option-set cases degenerate: %d/%d" % (nacc, len(oc)))
    ck.sample(oc[len(oc) // 2])
    run_engine(ck, binary, "security-optsets", "optsets", oc,
               lambda d: {"engine": "security-optsets", "lines": [oc[d["i"]]], "detail": d["detail"]})
    ck.bounds = {"model_grid": "queries 1..255 x blowup {2..128} x grinding 0..32 x extension 1..3 x field bits {7,9,16,31,62,64,128} x collision resistance {96,124,128}",
                 "field_encodings": sorted(set(c["fld"] for c in cells)),
                 "agreement_lines": len(lines), "recorded_cells": len(cells), "grinding_axis": gs, "queries_axis": "1..255",
                 "cell_parameters": "trace length 2^{3..22}, constraints {1..1000}, width {1..255}, folding {2,4,8,16}, remainder degree {0..255}, batching {linear, algebraic, horner}^2"}
    ck.exhaustive = (drift == 0)
    ck.assumptions = ["exhaustive refers to conjectured security (model explored on the whole grid and equal to the code on every grid point); proven security is validated on sampled cells only",
                      "hash collision resistance enters through Blake3_192 (96), Rp62_248 (124), Blake3_256 (128)"]


def replay(ck, path):
    binary = vf.build_harness("airint")
    obj = json.load(open(path))["replay"]
    if obj["engine"] == "security-record":
        record_validate(ck, binary, [obj["cell"]], obj["gs"], "replay")
    else:
        lines = obj["lines"]
        run_engine(ck, binary, obj["engine"], "replay", lines,
                   lambda d: {"engine": obj["engine"], "lines": lines, "detail": d["detail"]})
