"""Shared helpers of the wire-format checks (C07, C04, C05): honest proofs of the instances chosen by
spec/wire/WireCases.tla, TLC-generated mutations (spec/wire/ProofWire.tla), and the supervisor of the
isolated worker processes (harness/wire/src/worker.rs)."""
import json, os, subprocess, time, re, threading
import vf

SPECDIR = os.path.join(vf.SPEC, "wire")


def wd():
    return vf.workdir("wire")


def gen_cases(ck, thorough):
    r = vf.tlc("MCWireCases.tla", "GenWireCases_thorough.cfg" if thorough else "GenWireCases.cfg", cwd=SPECDIR,
               workers=1, timeout=300)
    if not r.ok:
        raise vf.ToolError("WireCases generator failed (specification bug): %s" % (r.error or "")[:1500])
    ck.add_tlc("cases", r)
    rows = sorted(r.tagged("REPLAY"), key=lambda x: x["idx"])
    ck.require(len(rows) >= 3, "too few honest-proof instances: %d" % len(rows))
    return rows


def honest_proofs(ck, binary, rows, tag):
    """Runs engine `gen`; returns the list of proof records (one per case) and writes the proofs file the
    workers load (case + hex)."""
    cases_path = os.path.join(wd(), "%s-cases-%d.ndjson" % (tag, os.getpid()))
    vf.write_ndjson(cases_path, [r["case"] for r in rows])
    rc, out, err = vf.run_harness(binary, ["gen", cases_path], timeout=900)
    os.unlink(cases_path)
    if rc != 0:
        raise vf.ToolError("harness gen failed rc=%d: %s" % (rc, err[-2000:]))
    res = [json.loads(l) for l in out.splitlines() if l.strip()]
    if len(res) != len(rows):
        raise vf.ToolError("gen returned %d results for %d cases" % (len(res), len(rows)))
    proofs_path = os.path.join(wd(), "%s-proofs-%d.ndjson" % (tag, os.getpid()))
    vf.write_ndjson(proofs_path, [{"case": r["case"], "hex": p.get("hex", "")} for r, p in zip(rows, res)])
    return res, proofs_path


def case_name(row):
    c = row["case"]
    d, o = c["desc"], c["opts"]
    return "%s/%s ext=%d L=2^%d w=%d aux=%d blowup=%d fold=%d rem=%d q=%d" % (
        c["field"], c["hash"], o["ext"], d["log_len"], d["width"], d["aux"][0]["width"] if d.get("aux") else 0,
        o["blowup"], o["fold"], o["rem"], o["queries"])


def gen_mutations(ck, rows, proofs, thorough, name="mutations"):
    """Hands the field maps to TLC (ProofWire.tla): the grammar check of every map and the mutation family."""
    maps_path = os.path.join(wd(), "maps-%d.ndjson" % os.getpid())
    vf.write_ndjson(maps_path, [{"i": r["idx"], "len": p["len"], "uq": p["uq"], "map": p["map"]}
                                for r, p in zip(rows, proofs)])
    r = vf.tlc("ProofWire.tla", "GenProofWire_thorough.cfg" if thorough else "GenProofWire.cfg", cwd=SPECDIR,
               workers=4, timeout=1500, env={"MAPS": maps_path}, heap="6g")
    if not r.ok:
        raise vf.ToolError("ProofWire rejected a field map or failed (grammar / walker / wire format): %s"
                           % (r.error or "")[:2000])
    ck.add_tlc(name, r)
    muts = r.tagged("MUT")
    muts.sort(key=lambda m: (m["c"], m["grp"], m["fld"], m["cls"], json.dumps(m["e"], sort_keys=True)))
    os.unlink(maps_path)
    return muts


def apply_edits(orig, edits):
    """Python twin of worker.rs::apply_edits (used only to build component-decoder inputs)."""
    base = bytearray(orig)
    for e in edits:
        if e.get("x", 0):
            if e["o"] < len(base):
                base[e["o"]] ^= e["x"]
    st = sorted([e for e in edits if not e.get("x", 0)], key=lambda e: -e["o"])
    for e in st:
        o = min(e["o"], len(base))
        d = min(e.get("d", 0), len(base) - o)
        c = e.get("c") or []
        if len(c) == 2:
            ins = bytearray(orig[c[0]:c[0] + c[1]])
            for rel, val in e.get("p") or []:
                if rel < len(ins):
                    ins[rel] = val
        else:
            ins = bytearray(e.get("b") or [])
        base[o:o + d] = ins
    return bytes(base)


# ------------------------------------------------------------------------------------------------
# supervisor of the isolated workers
# ------------------------------------------------------------------------------------------------
def _alone(binary, proofs_path, task, tag, timeout_s, as_mib):
    """Runs one task in its own worker; returns its result record, or None if the worker died again."""
    tpath = os.path.join(wd(), "tasks-%s-alone.ndjson" % tag)
    opath = os.path.join(wd(), "out-%s-alone.ndjson" % tag)
    vf.write_ndjson(tpath, [task])
    if os.path.exists(opath):
        os.unlink(opath)
    res = None
    try:
        subprocess.run([binary, "worker", proofs_path, tpath, opath, "0", str(timeout_s), str(as_mib)],
                       stdout=subprocess.PIPE, stderr=subprocess.PIPE, env=dict(os.environ, RUST_BACKTRACE="0"),
                       timeout=timeout_s * 4 + 60)
        if os.path.exists(opath):
            for ln in open(opath):
                try:
                    d = json.loads(ln)
                except ValueError:
                    continue
                if d.get("i") == 0:
                    res = d
    except subprocess.TimeoutExpired:
        res = None
    for p in (tpath, opath):
        if os.path.exists(p):
            os.unlink(p)
    return res


def _run_slice(binary, proofs_path, tasks, tag, timeout_s, as_mib, results, max_restarts):
    tpath = os.path.join(wd(), "tasks-%s.ndjson" % tag)
    opath = os.path.join(wd(), "out-%s.ndjson" % tag)
    vf.write_ndjson(tpath, tasks)
    if os.path.exists(opath):
        os.unlink(opath)
    start = 0
    restarts = 0
    env = dict(os.environ, RUST_BACKTRACE="0")
    while start < len(tasks):
        try:
            p = subprocess.run([binary, "worker", proofs_path, tpath, opath, str(start), str(timeout_s), str(as_mib)],
                               stdout=subprocess.PIPE, stderr=subprocess.PIPE, env=env,
                               timeout=timeout_s * 4 + 600)
            rc, err = p.returncode, p.stderr.decode(errors="replace")
        except subprocess.TimeoutExpired:
            rc, err = -999, "supervisor timeout"
        lines = []
        if os.path.exists(opath):
            with open(opath) as f:
                for ln in f:
                    ln = ln.strip()
                    if ln:
                        try:
                            lines.append(json.loads(ln))
                        except ValueError:
                            pass          # a line cut by the death of the worker
        done = bool(lines and lines[-1].get("done"))
        last_started = max([l["s"] for l in lines if "s" in l] or [-1])
        finished = set(l["i"] for l in lines if "i" in l)
        if done:
            break
        # the worker died: attribute the death to the last started, unfinished task
        if last_started < start and not finished:
            raise vf.ToolError("worker died before starting any task (rc=%s): %s" % (rc, err[-1500:]))
        timed_out = any(l.get("timeout") and l.get("i") == last_started for l in lines)
        if last_started not in finished or timed_out:
            # confirm in a fresh worker running this input alone: a death or timeout that does not
            # reproduce (machine overload, an unrelated kill) is not an outcome of the code under test
            again = _alone(binary, proofs_path, tasks[last_started], tag, timeout_s, as_mib)
            if again is not None and not again.get("timeout"):
                again["i"] = last_started
                again["retried"] = True
                with open(opath, "a") as f:
                    f.write(json.dumps(again) + "\n")
            elif last_started not in finished:
                m = re.search(r"memory allocation of \d+ bytes failed", err)
                what = "memory allocation of N bytes failed" if m else (err.strip().splitlines()[0][:200] if err.strip() else "")
                if rc < 0:
                    what = "signal %d %s" % (-rc, what)
                elif rc != 0:
                    what = "exit %d %s" % (rc, what)
                with open(opath, "a") as f:
                    f.write(json.dumps({"i": last_started, "crash": "abort", "what": what.strip()}) + "\n")
        restarts += 1
        if restarts > max_restarts:
            raise vf.ToolError("more than %d worker deaths in one batch; last: rc=%s %s" % (max_restarts, rc, err[-800:]))
        start = last_started + 1
    out = {}
    with open(opath) as f:
        for ln in f:
            ln = ln.strip()
            if not ln:
                continue
            try:
                d = json.loads(ln)
            except ValueError:
                continue
            if "i" in d:
                out[d["i"]] = d
    os.unlink(tpath)
    os.unlink(opath)
    results[tag] = (out, restarts)


def _guarded_slice(binary, proofs_path, tasks, tag, timeout_s, as_mib, results, max_restarts):
    try:
        _run_slice(binary, proofs_path, tasks, tag, timeout_s, as_mib, results, max_restarts)
    except Exception as e:          # re-raised by run_workers in the main thread
        results[tag] = e


def run_workers(binary, proofs_path, tasks, tag, par=4, timeout_s=10, as_mib=4096, max_restarts=4000):
    """Runs the tasks in `par` isolated worker processes (contiguous slices).  Returns a list of result
    records aligned with `tasks`; a task that killed its worker gets {"crash": ..} / {"timeout": True}."""
    n = len(tasks)
    if n == 0:
        return [], 0
    par = max(1, min(par, (n + 199) // 200))
    size = (n + par - 1) // par
    results = {}
    threads = []
    for j in range(par):
        sl = tasks[j * size:(j + 1) * size]
        t = threading.Thread(target=_guarded_slice, args=(binary, proofs_path, sl, "%s-%d-%d" % (tag, os.getpid(), j),
                                                          timeout_s, as_mib, results, max_restarts))
        t.start()
        threads.append((t, j, len(sl)))
    for t, _, _ in threads:
        t.join()
    out = []
    restarts = 0
    for _, j, ln in threads:
        key = "%s-%d-%d" % (tag, os.getpid(), j)
        if key not in results:
            raise vf.ToolError("worker slice %d of %s failed" % (j, tag))
        if isinstance(results[key], Exception):
            raise vf.ToolError("worker slice %d of %s: %s" % (j, tag, results[key]))
        res, rs = results[key]
        restarts += rs
        for i in range(ln):
            if i not in res:
                raise vf.ToolError("no result for task %d of slice %d (%s)" % (i, j, tag))
            out.append(res[i])
    return out, restarts


def loc_of(detail):
    """'<file>:<line>: message' -> 'file:line' with the /repo prefix and toolchain paths normalised."""
    m = re.match(r"^(\S+?):(\d+): ", detail or "")
    if not m:
        return "?"
    f = m.group(1)
    if "/library/" in f and "/rustc/" in f:
        f = "std:" + f.split("/library/")[1]
    else:
        # cut everything before the crate directory, wherever the tree under test is checked out
        # (/repo, a scratch worktree such as /tmp/mut-x, ...)
        c = re.search(r"(?:^|/)((?:air|prover|verifier|fri|math|crypto|utils|winterfell|examples)/.*)$", f)
        if c:
            f = c.group(1)
    return "%s:%s" % (f, m.group(2))


def msg_of(detail):
    m = re.match(r"^\S+?:\d+: (.*)$", detail or "", re.S)
    s = m.group(1) if m else (detail or "")
    return re.sub(r"\d+", "N", s)[:100]


def validate_outcomes(ck, events, mode, name):
    """TraceWire.tla decides which recorded outcomes the property allows.  Returns the sorted indices
    (into events) of the rejected events."""
    if not events:
        return []
    path = os.path.join(wd(), "trace-%s-%d.ndjson" % (name, os.getpid()))
    vf.write_ndjson(path, events)
    r = vf.tlc("TraceWire.tla", "TraceWire_%s.cfg" % mode, cwd=SPECDIR, workers=1, timeout=1500,
               env={"TRACE": path}, deque=True, heap="4g")
    os.unlink(path)
    rej = [int(m.group(1)) - 1 for m in (re.match(r'^<<"REJECTED_EVENT", (\d+)>>', ln) for ln in r.prints) if m]
    consumed = [int(m.group(1)) for m in (re.match(r'^<<"CONSUMED", (\d+)>>', ln) for ln in r.prints) if m]
    if not consumed or consumed[0] != len(events):
        raise vf.ToolError("TraceWire did not consume the whole trace %s: %s" % (name, (r.error or r.raw[-1500:])))
    ck.add_tlc("validate:" + name, r)
    return sorted(set(rej))


def classify(res):
    """(de, ve dict) outcome classes of a worker result record."""
    if res.get("timeout"):
        return "timeout", {}
    if res.get("crash"):
        return "crash", {}
    de = res.get("de", ["?", ""])[0]
    ve = {k: v[0] for k, v in (res.get("ve") or {}).items()}
    if "ds" in res:
        # C05: the same bytes decoded through the streaming reader is one more operation that must return
        ve["~stream_decode"] = res["ds"][0]
    return de, ve


def fnv(b):
    h = 0x811c9dc5
    for x in b:
        h = ((h ^ x) * 0x01000193) & 0xffffffff
    return h


def check_inputs(muts, results, honest_bytes):
    """Cross-checks that the worker tested exactly the bytes the edits denote (independent twin)."""
    for m, r in zip(muts, results):
        if "fnv" not in r:
            continue          # the worker died on this input before reporting
        b = apply_edits(honest_bytes[m["c"]], m["e"])
        if len(b) != r["len"] or fnv(b) != r["fnv"]:
            raise vf.ToolError("worker and supervisor disagree on the mutated bytes of %s/%s (case %d)"
                               % (m["cls"], m["fld"], m["c"]))


# ------------------------------------------------------------------------------------------------
# component decoder inputs (C05)
# ------------------------------------------------------------------------------------------------
def spans_of(proof, case):
    """Byte spans of the components inside an honest proof, with the decoder that reads each and the
    arguments / type parameters the verifier would use: name -> (decoder, start, end, ext, args)."""
    fm = proof["map"]
    p = proof["params"]
    x = case["opts"]["ext"]
    first = {}
    last_end = {}
    for f in fm:
        first.setdefault((f["g"], f["n"]), f["o"])
        first.setdefault(f["g"], f["o"])
        last_end[f["g"]] = f["o"] + f["l"]
    uq = proof["uq"]
    out = {
        "context": ("Context", 0, first["uq"], 1, []),
        "trace_info": ("TraceInfo", 0, first[("ctx", "modlen")], 1, []),
        "options": ("ProofOptions", first[("ctx", "opt.queries")], first[("ctx", "ncons")], 1, []),
        "commitments": ("Commitments", first["com"], last_end["com"], 1, [p["segments"], p["fri_layers"]]),
        "tq0": ("Queries", first["tq0"], last_end["tq0"], 1, [p["lde"], uq, p["main_width"]]),
        "cq": ("Queries", first["cq"], last_end["cq"], x, [p["lde"], uq, p["comp_cols"]]),
        "ood": ("OodFrame", first["ood"], last_end["ood"], x, [p["main_width"], p["aux_width"], p["comp_cols"]]),
        "fri": ("FriProof", first[("fri", "fri.nlayers")], first["nonce"], x, [p["lde"], p["fold"]]),
        "bmp": ("BatchMerkleProof", first[("tq0", "bmp.depth")], last_end["tq0"], 1, []),
        "digest": ("Digest", first[("com", "com.d")], first[("com", "com.d")] + p["digest_bytes"], 1, []),
        "element": ("Element", first[("cq", "q.vals")], first[("cq", "q.vals")] + p["ext_bytes"], x, []),
        "base_element": ("BaseElement", first[("tq0", "q.vals")], first[("tq0", "q.vals")] + p["base_bytes"], 1, []),
        "proof": ("Proof", 0, proof["len"], 1, []),
    }
    if "tq1" in first:
        out["tq1"] = ("Queries", first["tq1"], last_end["tq1"], x, [p["lde"], uq, p["aux_width"]])
    return out


def rebase(edits, start, end):
    """Edits of a whole-proof mutation expressed relative to the span [start, end), or None when a site
    or a copy source lies outside it."""
    out = []
    for e in edits:
        o, d = e["o"], e.get("d", 0)
        if e.get("x", 0):
            d = 1
        if o < start or o + d > end:
            return None
        c = e.get("c") or []
        r = dict(e, o=o - start)
        if len(c) == 2:
            if c[0] < start or c[0] + c[1] > end:
                return None
            r["c"] = [c[0] - start, c[1]]
        out.append(r)
    return out


def decoder_tasks(rows, proofs, muts):
    """One `dec` task per (mutation, component span containing all of its sites)."""
    tasks, meta = [], []
    for ci, (row, pr) in enumerate(zip(rows, proofs)):
        case = row["case"]
        honest = bytes.fromhex(pr["hex"])
        spans = spans_of(pr, case)
        mine = [m for m in muts if m["c"] == ci]
        for name, (dec, a, b, x, args) in spans.items():
            if name == "proof":
                continue
            comp = honest[a:b]
            tasks.append({"k": "dec", "d": dec, "f": case["field"], "h": case["hash"], "x": x, "b": comp.hex(), "a": args})
            meta.append({"c": ci, "span": name, "dec": dec, "cls": "honest", "fld": "-"})
            for m in mine:
                if not m["e"]:
                    continue
                r = rebase(m["e"], a, b)
                if r is None:
                    continue
                tasks.append({"k": "dec", "d": dec, "f": case["field"], "h": case["hash"], "x": x,
                              "b": apply_edits(comp, r).hex(), "a": args})
                meta.append({"c": ci, "span": name, "dec": dec, "cls": m["cls"], "fld": m["fld"]})
    return tasks, meta


def random_tasks(rng, rows, proofs, n_raw, n_subst, n_dec):
    """Seeded unstructured inputs: random strings and honest encodings with random byte substitutions."""
    tasks, meta = [], []
    acc = ["optset", "conj", "proven"]
    for ci, (row, pr) in enumerate(zip(rows, proofs)):
        case = row["case"]
        honest = bytes.fromhex(pr["hex"])
        for j in range(n_raw):
            ln = rng.choice([0, 1, 2, 7, 26, 27, 40, 64, 100, 300, 1000])
            b = bytes(rng.randrange(256) for _ in range(ln))
            if j % 2 == 1:          # an honest prefix followed by noise
                cut = rng.randrange(len(honest))
                b = honest[:cut] + b
            tasks.append({"k": "raw", "c": ci, "b": b.hex(), "acc": acc})
            meta.append({"c": ci, "span": "proof", "dec": "Proof", "cls": "random.string", "fld": "-"})
        for j in range(n_subst):
            b = bytearray(honest)
            for _ in range(rng.choice([1, 1, 2, 3, 4, 8, 16])):
                b[rng.randrange(len(b))] = rng.choice([0, 1, 2, 63, 64, 127, 128, 254, 255, rng.randrange(256)])
            tasks.append({"k": "raw", "c": ci, "b": bytes(b).hex(), "acc": acc})
            meta.append({"c": ci, "span": "proof", "dec": "Proof", "cls": "random.substitution", "fld": "-"})
        for name, (dec, a, b_, x, args) in spans_of(pr, case).items():
            if name == "proof":
                continue
            comp = honest[a:b_]
            for j in range(n_dec):
                if j % 2 == 0:
                    ln = rng.choice([0, 1, 2, 3, 5, 9, 17, 33, 64, 200])
                    b = bytes(rng.choice([0, 1, 255, rng.randrange(256)]) for _ in range(ln))
                else:
                    bb = bytearray(comp)
                    for _ in range(rng.choice([1, 2, 4])):
                        if bb:
                            bb[rng.randrange(min(len(bb), 64))] = rng.choice([0, 1, 64, 128, 255, rng.randrange(256)])
                    b = bytes(bb)
                tasks.append({"k": "dec", "d": dec, "f": case["field"], "h": case["hash"], "x": x, "b": b.hex(), "a": args})
                meta.append({"c": ci, "span": name, "dec": dec, "cls": "random", "fld": "-"})
    return tasks, meta
