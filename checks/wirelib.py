"""Shared helpers of the wire-format checks (C07, C04, C05): honest proofs of the instances chosen by
spec/wire/WireCases.tla, TLC-generated mutations (spec/wire/ProofWire.tla), and the supervisor of the
isolated worker processes (harness/wire/src/worker.rs)."""
import json, os, subprocess, time, re, threading
import vf

SPECDIR = os.path.join(vf.SPEC, "wire")


def wd():
    return vf.workdir("wire")


def gen_cases(ck, thorough):
    r = vf.tlc("MCWireCases.tla", "GenWireCases_thorough.cfg" if thorough else "GenWireCases.cfg", cwd=SPECDIR,
               workers=1, timeout=300)
    if not r.ok:
        raise vf.ToolError("WireCases generator failed (specification bug): %s" % (r.error or "")[:1500])
    ck.add_tlc("cases", r)
    rows = sorted(r.tagged("REPLAY"), key=lambda x: x["idx"])
    ck.require(len(rows) >= 3, "too few honest-proof instances: %d" % len(rows))
    return rows


def honest_proofs(ck, binary, rows, tag):
    """Runs engine `gen`; returns the list of proof records (one per case) and writes the proofs file the
    workers load (case + hex)."""
    cases_path = os.path.join(wd(), "%s-cases-%d.ndjson" % (tag, os.getpid()))
    vf.write_ndjson(cases_path, [r["case"] for r in rows])
    rc, out, err = vf.run_harness(binary, ["gen", cases_path], timeout=900)
    os.unlink(cases_path)
    if rc != 0:
        raise vf.ToolError("harness gen failed rc=%d: %s" % (rc, err[-2000:]))
    res = [json.loads(l) for l in out.splitlines() if l.strip()]
    if len(res) != len(rows):
        raise vf.ToolError("gen returned %d results for %d cases" % (len(res), len(rows)))
    proofs_path = os.path.join(wd(), "%s-proofs-%d.ndjson" % (tag, os.getpid()))
    vf.write_ndjson(proofs_path, [{"case": r["case"], "hex": p.get("hex", "")} for r, p in zip(rows, res)])
    return res, proofs_path


def case_name(row):
    c = row["case"]
    d, o = c["desc"], c["opts"]
    return "%s/%s ext=%d L=2^%d w=%d aux=%d blowup=%d fold=%d rem=%d q=%d" % (
        c["field"], c["hash"], o["ext"], d["log_len"], d["width"], d["aux"][0]["width"] if d.get("aux") else 0,
        o["blowup"], o["fold"], o["rem"], o["queries"])


def gen_mutations(ck, rows, proofs, thorough, name="mutations"):
    """Hands the field maps to TLC (ProofWire.tla): the grammar check of every map and the mutation family."""
    maps_path = os.path.join(wd(), "maps-%d.ndjson" % os.getpid())
    vf.write_ndjson(maps_path, [{"i": r["idx"], "len": p["len"], "uq": p["uq"], "map": p["map"]}
                                for r, p in zip(rows, proofs)])
    r = vf.tlc("ProofWire.tla", "GenProofWire_thorough.cfg" if thorough else "GenProofWire.cfg", cwd=SPECDIR,
               workers=4, timeout=1500, env={"MAPS": maps_path}, heap="6g")
    if not r.ok:
        raise vf.ToolError("ProofWire rejected a field map or failed (grammar / walker / wire format): %s"
                           % (r.error or "")[:2000])
    ck.add_tlc(name, r)
    muts = r.tagged("MUT")
    muts.sort(key=lambda m: (m["c"], m["grp"], m["fld"], m["cls"], json.dumps(m["e"], sort_keys=True)))
    os.unlink(maps_path)
    return muts


def apply_edits(orig, edits):
    """Python twin of worker.rs::apply_edits (used only to build component-decoder inputs)."""
    base = bytearray(orig)
    for e in edits:
        if e.get("x", 0):
            if e["o"] < len(base):
                base[e["o"]] ^= e["x"]
    st = sorted([e for e in edits if not e.get("x", 0)], key=lambda e: -e["o"])
    for e in st:
        o = min(e["o"], len(base))
        d = min(e.get("d", 0), len(base) - o)
        c = e.get("c") or []
        if len(c) == 2:
            ins = bytearray(orig[c[0]:c[0] + c[1]])
            for rel, val in e.get("p") or []:
                if rel < len(ins):
                    ins[rel] = val
        else:
            ins = bytearray(e.get("b") or [])
        base[o:o + d] = ins
    return bytes(base)


# ------------------------------------------------------------------------------------------------
# supervisor of the isolated workers
# ------------------------------------------------------------------------------------------------
def _run_slice(binary, proofs_path, tasks, tag, timeout_s, as_mib, results, max_restarts):
    tpath = os.path.join(wd(), "tasks-%s.ndjson" % tag)
    opath = os.path.join(wd(), "out-%s.ndjson" % tag)
    vf.write_ndjson(tpath, tasks)
    if os.path.exists(opath):
        os.unlink(opath)
    start = 0
    restarts = 0
    env = dict(os.environ, RUST_BACKTRACE="0")
    while start < len(tasks):
        try:
            p = subprocess.run([binary, "worker", proofs_path, tpath, opath, str(start), str(timeout_s), str(as_mib)],
                               stdout=subprocess.PIPE, stderr=subprocess.PIPE, env=env,
                               timeout=timeout_s * 4 + 600)
            rc, err = p.returncode, p.stderr.decode(errors="replace")
        except subprocess.TimeoutExpired:
            rc, err = -999, "supervisor timeout"
        lines = []
        if os.path.exists(opath):
            with open(opath) as f:
                for ln in f:
                    ln = ln.strip()
                    if ln:
                        try:
                            lines.append(json.loads(ln))
                        except ValueError:
                            pass          # a line cut by the death of the worker
        done = bool(lines and lines[-1].get("done"))
        last_started = max([l["s"] for l in lines if "s" in l] or [-1])
        finished = set(l["i"] for l in lines if "i" in l)
        if done:
            break
        # the worker died: attribute the death to the last started, unfinished task
        if last_started < start and not finished:
            raise vf.ToolError("worker died before starting any task (rc=%s): %s" % (rc, err[-1500:]))
        if last_started not in finished:
            kind = "abort"
            m = re.search(r"memory allocation of \d+ bytes failed", err)
            what = "memory allocation of N bytes failed" if m else (err.strip().splitlines()[0][:200] if err.strip() else "")
            if rc < 0:
                what = "signal %d %s" % (-rc, what)
            elif rc != 0:
                what = "exit %d %s" % (rc, what)
            with open(opath, "a") as f:
                f.write(json.dumps({"i": last_started, "crash": kind, "what": what.strip()}) + "\n")
        restarts += 1
        if restarts > max_restarts:
            raise vf.ToolError("more than %d worker deaths in one batch; last: rc=%s %s" % (max_restarts, rc, err[-800:]))
        start = last_started + 1
    out = {}
    with open(opath) as f:
        for ln in f:
            ln = ln.strip()
            if not ln:
                continue
            try:
                d = json.loads(ln)
            except ValueError:
                continue
            if "i" in d:
                out[d["i"]] = d
    os.unlink(tpath)
    os.unlink(opath)
    results[tag] = (out, restarts)


def _guarded_slice(binary, proofs_path, tasks, tag, timeout_s, as_mib, results, max_restarts):
    try:
        _run_slice(binary, proofs_path, tasks, tag, timeout_s, as_mib, results, max_restarts)
    except Exception as e:          # re-raised by run_workers in the main thread
        results[tag] = e


def run_workers(binary, proofs_path, tasks, tag, par=4, timeout_s=10, as_mib=4096, max_restarts=4000):
    """Runs the tasks in `par` isolated worker processes (contiguous slices).  Returns a list of result
    records aligned with `tasks`; a task that killed its worker gets {"crash": ..} / {"timeout": True}."""
    n = len(tasks)
    if n == 0:
        return [], 0
    par = max(1, min(par, (n + 199) // 200))
    size = (n + par - 1) // par
    results = {}
    threads = []
    for j in range(par):
        sl = tasks[j * size:(j + 1) * size]
        t = threading.Thread(target=_guarded_slice, args=(binary, proofs_path, sl, "%s-%d-%d" % (tag, os.getpid(), j),
                                                          timeout_s, as_mib, results, max_restarts))
        t.start()
        threads.append((t, j, len(sl)))
    for t, _, _ in threads:
        t.join()
    out = []
    restarts = 0
    for _, j, ln in threads:
        key = "%s-%d-%d" % (tag, os.getpid(), j)
        if key not in results:
            raise vf.ToolError("worker slice %d of %s failed" % (j, tag))
        if isinstance(results[key], Exception):
            raise vf.ToolError("worker slice %d of %s: %s" % (j, tag, results[key]))
        res, rs = results[key]
        restarts += rs
        for i in range(ln):
            if i not in res:
                raise vf.ToolError("no result for task %d of slice %d (%s)" % (i, j, tag))
            out.append(res[i])
    return out, restarts


def loc_of(detail):
    """'<file>:<line>: message' -> 'file:line' with the /repo prefix and toolchain paths normalised."""
    m = re.match(r"^(\S+?):(\d+): ", detail or "")
    if not m:
        return "?"
    f = m.group(1)
    if f.startswith("/repo/"):
        f = f[len("/repo/"):]
    elif "/library/" in f:
        f = "std:" + f.split("/library/")[1]
    return "%s:%s" % (f, m.group(2))


def msg_of(detail):
    m = re.match(r"^\S+?:\d+: (.*)$", detail or "", re.S)
    s = m.group(1) if m else (detail or "")
    return re.sub(r"\d+", "N", s)[:100]


def validate_outcomes(ck, events, mode, name):
    """TraceWire.tla decides which recorded outcomes the property allows.  Returns the sorted indices
    (into events) of the rejected events."""
    if not events:
        return []
    path = os.path.join(wd(), "trace-%s-%d.ndjson" % (name, os.getpid()))
    vf.write_ndjson(path, events)
    r = vf.tlc("TraceWire.tla", "TraceWire_%s.cfg" % mode, cwd=SPECDIR, workers=1, timeout=1500,
               env={"TRACE": path}, deque=True, heap="4g")
    os.unlink(path)
    rej = [int(m.group(1)) - 1 for m in (re.match(r'^<<"REJECTED_EVENT", (\d+)>>', ln) for ln in r.prints) if m]
    consumed = [int(m.group(1)) for m in (re.match(r'^<<"CONSUMED", (\d+)>>', ln) for ln in r.prints) if m]
    if not consumed or consumed[0] != len(events):
        raise vf.ToolError("TraceWire did not consume the whole trace %s: %s" % (name, (r.error or r.raw[-1500:])))
    ck.add_tlc("validate:" + name, r)
    return sorted(set(rej))


def classify(res):
    """(de, ve dict) outcome classes of a worker result record."""
    if res.get("timeout"):
        return "timeout", {}
    if res.get("crash"):
        return "crash", {}
    de = res.get("de", ["?", ""])[0]
    ve = {k: v[0] for k, v in (res.get("ve") or {}).items()}
    return de, ve


def fnv(b):
    h = 0x811c9dc5
    for x in b:
        h = ((h ^ x) * 0x01000193) & 0xffffffff
    return h


def check_inputs(muts, results, honest_bytes):
    """Cross-checks that the worker tested exactly the bytes the edits denote (independent twin)."""
    for m, r in zip(muts, results):
        if "fnv" not in r:
            continue          # the worker died on this input before reporting
        b = apply_edits(honest_bytes[m["c"]], m["e"])
        if len(b) != r["len"] or fnv(b) != r["fnv"]:
            raise vf.ToolError("worker and supervisor disagree on the mutated bytes of %s/%s (case %d)"
                               % (m["cls"], m["fld"], m["c"]))
