"""C08 — FRI accepts every evaluation vector of a low-degree polynomial.
spec/fri/Fri.tla defines the FRI transcript over the toy fields of FieldP.tla: layer domains, the
degree-respecting projection BY DEFINITION (interpolate every coset, evaluate at alpha), folded
positions, rows opened per position, the remainder (coefficients of the last layer's interpolant,
highest degree first), the layer schedule, and a code-shaped transcription of FriVerifier::new/verify.
(1) MCFri: TLC checks the lemmas behind the definitions (coset form = documented coefficient form of
the projection, inverse-DFT remainder = Lagrange interpolation, folding divides the degree bound,
completeness for degree bound 1).  (2) GenFri: TLC enumerates honest instances (all polynomials of
degree <= 1 over F_97, a small-coefficient degree-3 family, every supported schedule
(domain, blowup, folding, number of layers) with rotating field / extension / polynomial family /
position multiset / special alphas, apply_drp and position-mapping cases, real-field configurations)
and prints each with its complete expected transcript and verdict.  (3) The harness runs the real
FriProver / FriVerifier (DefaultProverChannel, DefaultVerifierChannel, MerkleTree) over the same toy
field with a scripted coin (TLC's alphas and positions), and over f64/f62/f128 with the real coin;
verdicts (also after a byte round trip of the proof) gate, transcript values are compared and
reported."""
import json, os, collections
import vf

SPECDIR = os.path.join(vf.SPEC, "fri")

META = dict(
    technique="TLA+ specification of the FRI transcript and verifier over toy prime fields (exact arithmetic in TLC); TLC enumerates honest instances with complete expected layer values, remainder and verdict (Generate->Replay); the real generic prover/verifier run over the same toy fields with a scripted random coin, and over the production fields with the real coin",
    text="Every supported (domain 8..1024, blowup 2..16, folding 2..16, remainder degree 0..15) schedule, base/quadratic/cubic extension of F_97/F_193/F_257/F_40961, six polynomial families within the bound (zero, constant, monomials, full and lower degree), six position-multiset families (single, duplicates, a whole coset, all but one position, many, few) and forced special alphas (0, 1, a domain point) are run through the real FriProver and FriVerifier; the verifier must accept the proof and the proof after serialization/deserialization. The layer rows opened at the queried positions, the remainder and the number of layers are compared with TLC's values; apply_drp, fold_positions and map_positions_to_indexes are compared with their definitions; the production fields x extensions x hash functions run with the real coin (verdict only).",
    note="Toy fields stand in for the production fields in the value-level comparison (the FRI code is field-generic; field arithmetic itself is C10). Domains <= 1024 for toy fields, <= 2^12 (quick) / 2^14 (thorough) for real fields. Hash functions are not modelled (commitments are the committed vectors). Transcript-value differences that do not change a verdict are reported in the evidence but do not fail the check (the property is about acceptance).",
    design="7/C08")


def sig_of(sc, det, kind):
    if kind == "verdict" or kind == "roundtrip":
        got = det.get("got", "")
        if sc.get("op") == "real":
            return "fri.verify[real %s ext=%s] expected=%s got=%s" % (sc.get("field"), sc.get("ext"), det.get("expected"), got)
        return "fri.verify expected=%s got=%s dmax=%s" % (det.get("expected"), got, sc.get("dmax"))
    if kind == "drp":
        return "folding::apply_drp differs from the degree-respecting projection N=%s" % sc.get("N")
    if kind == "pos":
        return "%s differs from its definition" % det.get("call")
    return "fri.%s" % kind


def small(sc):
    s = dict(sc)
    for k in ("evals", "rows", "exp"):
        if k in s and len(json.dumps(s[k])) > 600:
            s[k] = "<%d entries>" % len(s[k])
    return s


def replay_scenarios(ck, binary, engine, name, scenarios, threads=None, label=None):
    """returns (summary, value_mismatches)"""
    wd = vf.workdir("c08")
    path = os.path.join(wd, "%s-%d.ndjson" % (name, os.getpid()))
    vf.write_ndjson(path, scenarios)
    args = [engine, path] + ([str(threads)] if threads else [])
    rc, out, err = vf.run_harness(binary, args, timeout=1800)
    if rc != 0:
        raise vf.ToolError("harness %s failed rc=%d: %s" % (engine, rc, err[-2000:]))
    summary = None
    values = []
    for ln in out.splitlines():
        d = json.loads(ln)
        if d.get("summary"):
            summary = d
            continue
        sc = scenarios[d["i"]]
        det = d["detail"]
        if d["kind"] == "values":
            values.append({"scenario": small(sc), "detail": det})
            continue
        if d["kind"] == "engine":
            raise vf.ToolError("the replay engine itself panicked on a scenario: %s" % json.dumps({"scenario": small(sc), "detail": det})[:1500])
        ck.violation(sig_of(sc, det, d["kind"]), json.dumps({"scenario": small(sc), "detail": det})[:1500],
                     {"engine": engine, "scenario": sc, "detail": det, "threads": threads})
    if summary is None:
        raise vf.ToolError("harness produced no summary")
    os.unlink(path)
    ck.traces += summary["scenarios"]
    ck.evaluations += summary.get("verifications", 0) + summary.get("values_compared", 0)
    ck.part(label or name, **{k: v for k, v in summary.items() if k != "summary"})
    return summary, values


def generate(ck, tier):
    thorough = tier == "thorough"
    r = vf.tlc("GenFri.tla", "GenFri_thorough.cfg" if thorough else "GenFri.cfg", cwd=SPECDIR, workers=4,
               timeout=3000 if thorough else 600, env={"SEED": ck.seed % 40009})
    if not r.ok:
        raise vf.ToolError("TLC failed on GenFri.tla (specification bug): %s" % r.error)
    ck.add_tlc("gen", r)
    sc = r.tagged("REPLAY")
    return sc


def run(ck, tier):
    thorough = tier == "thorough"
    binary = vf.build_harness("fri")
    # (1) design level: the lemmas behind the definitions
    r = vf.tlc("MCFri.tla", "MCFri.cfg", cwd=SPECDIR, workers=4, timeout=900, env={"SEED": ck.seed % 40009})
    ck.add_tlc("design:MCFri", r)
    if not r.ok:
        raise vf.ToolError("design-level lemma of Fri.tla failed (specification bug): %s" % r.error)
    # (2) instances with expected transcript and verdict
    sc = generate(ck, tier)
    toy = [s for s in sc if s["op"] in ("fri", "drp", "pos")]
    real = [s for s in sc if s["op"] == "real"]
    fri = [s for s in toy if s["op"] == "fri"]
    # completeness at the explored scope: the specification's verifier accepts every honest instance
    notacc = [s for s in fri if s["verdict"] != "accept"]
    if notacc:
        raise vf.ToolError("Fri.tla's verifier rejects an honest supported instance (specification bug): %s"
                           % json.dumps(small(notacc[0]))[:1200])
    fam = collections.Counter(s["fam"] for s in fri)
    ck.require(fam["ex1"] >= 1000 and fam["ex3"] >= 1000 and fam["cfg"] >= 350,
               "too few honest instances generated: %s" % dict(fam))
    cfg = [s for s in fri if s["fam"] == "cfg"]
    ck.require({s["N"] for s in cfg} == {2, 4, 8, 16} and {s["B"] for s in cfg} == {2, 4, 8, 16}
               and {s["d"] for s in cfg} == {1, 2, 3} and len({s["P"] for s in cfg}) == 4
               and max(s["L"] for s in cfg) >= 5 and max(s["n"] for s in cfg) == 1024
               and len({s["R"] for s in cfg}) >= 12,
               "configuration sweep does not cover folding/blowup/extension/field/layers/remainder degrees")
    ck.require(any(s["dmax"] == 1 for s in fri) and any(s["dmax"] == 0 for s in fri) and any(s["L"] == 0 for s in fri),
               "degree bounds 0 and 1 / zero-layer schedules missing")
    ck.require(sum(1 for s in toy if s["op"] == "drp") >= 100 and sum(1 for s in toy if s["op"] == "pos") >= 100
               and len(real) >= 100, "too few drp/pos/real cases")
    ck.part("gen", families=dict(fam), drp=sum(1 for s in toy if s["op"] == "drp"),
            pos=sum(1 for s in toy if s["op"] == "pos"), real=len(real),
            schedules=len({(s["n"], s["B"], s["N"], s["L"]) for s in cfg}))
    for s in (cfg[7], cfg[-1], [x for x in fri if x["fam"] == "ex1"][50], real[0]):
        ck.sample(small(s))
    # (3) the real code
    _, values = replay_scenarios(ck, binary, "toy", "toy", toy, label="replay:toy")
    replay_scenarios(ck, binary, "real", "real", real, label="replay:real")
    # multi-threaded build: the same instances inside rayon pools
    cbin = vf.build_harness("fri", variant="concurrent")
    sub = toy if thorough else [s for s in toy if s["op"] != "fri" or s["fam"] == "cfg"]
    for th in ((2, 8) if thorough else (4,)):
        _, v2 = replay_scenarios(ck, cbin, "toy", "toy-conc%d" % th, sub, threads=th, label="replay:toy:concurrent:%d" % th)
        values += v2
        replay_scenarios(ck, cbin, "real", "real-conc%d" % th, real, threads=th, label="replay:real:concurrent:%d" % th)
    ck.part("transcript-values", mismatches=len(values), examples=values[:3])
    if values:
        vf.log("[C08] WARNING: %d transcript-value differences from Fri.tla (not gating): %s"
               % (len(values), json.dumps(values[0])[:800]))
    ck.bounds = {"toy": "domain 8..1024, blowup {2,4,8,16}, folding {2,4,8,16}, remainder degree 0..15, every schedule; F_97/193/257/40961 x extension 1,2,3",
                 "exhaustive": "all 97^2 polynomials c0+c1*x over F_97 in the thorough tier (11 of the 97 values of c1 in quick), {0,1,2,96}^4 degree-3 coefficients",
                 "real": "f64,f62 x ext 1,2,3 and f128 x ext 1,2; 3-5 hash functions per field; domain 8..2^%d" % (14 if thorough else 12)}
    ck.exhaustive = False
    ck.assumptions = ["hash functions are ideal (a commitment is the committed vector); Merkle openings are C18/C19",
                      "supported = the schedule divides the degree bound at every folded layer (otherwise the verifier reports DegreeTruncation by design)",
                      "positions handed to verify lie in the domain; DefaultProverChannel requires domain >= 8 and fewer queries than domain points"]


def replay(ck, path):
    obj = json.load(open(path))["replay"]
    variant = "concurrent" if obj.get("threads") else "serial"
    binary = vf.build_harness("fri", variant=variant)
    _, values = replay_scenarios(ck, binary, obj["engine"], "replay", [obj["scenario"]], threads=obj.get("threads"))
    if values:
        vf.log("[C08] transcript-value difference (not gating): %s" % json.dumps(values[0])[:800])
