"""C18 — Merkle trees and their openings are mutually consistent.
spec/merkle/Merkle.tla defines root / single opening / verification over free hash terms;
spec/merkle/MerkleBatch.tla transcribes prove_batch, from_single_proofs, get_root, into_openings.
(1) TLC checks, for every case, that the transcribed algorithms reconstruct the root, that the two
construction routes coincide and that expansion yields exactly the single openings (design level).
(2) The same cases, with expected results as TERMS computed from the definitions, are replayed on the
real MerkleTree / BatchMerkleProof with six hashers; terms are evaluated with the real Hasher::merge.
(3) Trees of 32..4096 leaves (across the 1024-leaf parallel threshold) are replayed in the `concurrent`
build inside rayon pools of 1,2,3,4,7,8,16 threads; serial and concurrent node builders are compared
with each other and with the specification's table of the tree."""
import json, os
import vf

SPECDIR = os.path.join(vf.SPEC, "merkle")
HASHERS = 6
THREADS = [1, 2, 3, 4, 7, 8, 16]
MANY_THREADS = [65, 130]
BIG = [32, 64, 128, 256, 512, 1024, 2048, 4096]

META = dict(
    technique="TLA+ definitions of Merkle root/openings over free hash terms + TLC-checked transcription of the batch-proof algorithms; TLC-generated cases with expected results as terms replayed on the real MerkleTree/BatchMerkleProof (term evaluation with the real Hasher::merge)",
    text="For every tree of 2..8 (thorough: 2..16) leaves, every non-empty index set in ascending order and every order of at most 4 indexes (plus seeded samples beyond: 16-leaf trees in the quick tier, longer unsorted lists, trees of 32..4096 leaves), TLC computes root, single openings and batch leaves from the definitions and checks the transcribed prove_batch / from_single_proofs / get_root / into_openings against them; the real code is then driven through the same cases with Blake3_256, Blake3_192, Sha3_256, Rp64_256, RpJive64_256 and Rp62_248 and must return exactly the digests the terms evaluate to (root, prove, prove_batch leaves, get_root, into_openings), accept its own proofs (verify, verify_batch) and build equal batch proofs on both routes. The concurrent build is replayed inside rayon pools of 1,2,3,4,7,8,16 threads for every size (and of 65 and 130 threads for trees of 32..1024 leaves), and build_merkle_nodes / concurrent::build_merkle_nodes are compared node by node with the specification's table.",
    note="Hashing is ideal in the specification (free constructors); leaves are distinct real digests H::hash(\"leaf\"||i). Trees above 64 leaves are bound to the recursive definition through the table operator Table(n), which TLC proves equal to the recursive definition for n <= 64 and which is the same operator for every n. The layout of BatchMerkleProof.nodes is compared as information only (not part of the property). concurrent::build_merkle_nodes is called directly only when leaves/2 >= next_power_of_two(threads) (below that the function is never selected by MerkleTree::new). Serialisation of batch proofs belongs to C07.",
    design="7/C18")


# ------------------------------------------------------------------------------------------------
# case files (inputs only; expected results are computed by the specification)
# ------------------------------------------------------------------------------------------------
def case(kind, n, idx=(), sidx=(), alld=False):
    return {"kind": kind, "n": n, "idx": list(idx), "sidx": list(sidx), "alld": bool(alld)}


def sampled_cases(rng, thorough, small_sorted=True):
    """index lists the exhaustive enumeration does not reach: 16-leaf trees in the quick tier,
    unsorted lists longer than 4, and the big trees."""
    out = []
    seen = set()

    def add(n, idx):
        key = (n, tuple(idx))
        if idx and key not in seen:
            seen.add(key)
            out.append(case("batch", n, idx))

    if not thorough:
        out.append(case("tree", 16, sidx=range(16)))
        for _ in range(1500):
            k = rng.randint(1, 16)
            add(16, sorted(rng.sample(range(16), k)))
        for _ in range(400):
            k = rng.randint(1, 4)
            add(16, rng.sample(range(16), k))
    for n, cnt in ((8, 150), (16, 600 if not thorough else 3000)):
        for _ in range(cnt):
            k = rng.randint(5, n)
            add(n, rng.sample(range(n), k))
    for n in BIG:
        if n <= 64:
            sidx = list(range(n))
        else:
            sidx = sorted(set([0, 1, n - 1, n - 2, n // 2 - 1, n // 2] + rng.sample(range(n), 18)))
        out.append(case("tree", n, sidx=sidx))
        add(n, [0]); add(n, [n - 1]); add(n, [0, n - 1]); add(n, [n // 2, n // 2 - 1])
        add(n, list(range(0, min(n, 64), 2)))
        add(n, list(range(n - min(n, 32), n)))
        if n <= 64:
            add(n, list(range(n)))
            add(n, list(reversed(range(n))))
        for _ in range(30 if thorough else 10):
            k = rng.randint(1, min(n, 48))
            idx = rng.sample(range(n), k)
            if rng.random() < 0.5:
                idx.sort()
            add(n, idx)
    return out


def order_records(sc):
    # the harness wants a tree record before the batch records of that size
    return sorted(sc, key=lambda s: (s["n"], 0 if s["kind"] == "tree" else 1))


def run_tlc(ck, name, cfg, cases, workers=4, timeout=1500):
    wd = vf.workdir("merkle")
    path = os.path.join(wd, "%s-cases-%d.ndjson" % (name, os.getpid()))
    vf.write_ndjson(path, cases)
    try:
        r = vf.tlc("MCMerkle.tla", cfg, cwd=SPECDIR, workers=workers, timeout=timeout, env={"CASES": path})
    finally:
        if os.path.exists(path):
            os.unlink(path)
    ck.add_tlc(name, r)
    if not r.ok:
        raise vf.ToolError("design-level check %s failed (the specification contradicts itself): %s\n%s"
                           % (cfg, r.error, "\n".join(l for l in r.prints if "INCONSISTENT" in l)[:2000]))
    return order_records(r.tagged("REPLAY"))


# ------------------------------------------------------------------------------------------------
# replay
# ------------------------------------------------------------------------------------------------
def signature(d):
    sig = "%s:%s" % (d["call"], d["what"])
    det = d.get("detail") or {}
    if det.get("panic"):
        sig += " @" + det["panic"].split(": ")[0].replace("/repo/", "")
    return sig


def replay_records(ck, pid, engine, binary, variant, name, records, threads=None, timeout=1500):
    wd = vf.workdir("merkle")
    path = os.path.join(wd, "%s-%s-%d.ndjson" % (pid, name, os.getpid()))
    vf.write_ndjson(path, records)
    args = [engine, path] + ([",".join(str(t) for t in threads)] if threads else [])
    try:
        rc, out, err = vf.run_harness(binary, args, timeout=timeout)
    finally:
        os.unlink(path)
    if rc != 0:
        raise vf.ToolError("harness %s failed rc=%d: %s" % (engine, rc, err[-2000:]))
    summary = None
    bad = []
    for ln in out.splitlines():
        d = json.loads(ln)
        if d.get("summary"):
            summary = d
        else:
            bad.append(d)
    if summary is None:
        raise vf.ToolError("harness produced no summary")
    return summary, bad


def tree_of(records, n):
    for r in records:
        if r["kind"] == "tree" and r["n"] == n:
            return r
    return None


def report(ck, records, bad, variant, profile="release"):
    for d in bad:
        rec = records[d["i"]]
        recs = [rec] if rec["kind"] == "tree" else [tree_of(records, rec["n"]), rec]
        desc = "hasher=%s threads=%s n=%s idx=%s %s" % (d.get("hasher"), d.get("threads"), rec["n"],
                                                          rec.get("idx"), json.dumps(d.get("detail")))
        ck.violation(signature(d), desc, {"engine": "c18", "variant": variant, "profile": profile,
                                          "threads": d.get("threads") or 0, "records": recs, "mismatch": d})


def corrupt_for_selftest(records):
    """VERIF_C18_CORRUPT=<what>: deliberately wrong expectation, to demonstrate that the binding bites.
    Never set in normal runs."""
    what = os.environ.get("VERIF_C18_CORRUPT")
    if not what:
        return
    for r in records:
        if what == "opening" and r["kind"] == "batch" and r["n"] == 8 and r["idx"] == [5, 2, 3]:
            r["openings"][0][1] = ["ref", 5]          # a node that is not the sibling
            return
        if what == "root" and r["kind"] == "tree" and r["n"] == 4:
            r["table"][0] = ["m", ["ref", 3], ["ref", 2]]   # children of the root swapped
            return
        if what == "leaves" and r["kind"] == "batch" and r["n"] == 4 and r["idx"] == [3, 1]:
            r["leaves"] = [["leaf", 1], ["leaf", 3]]  # leaves in ascending instead of requested order
            return
        if what == "bigroot" and r["kind"] == "tree" and r["n"] == 2048:
            r["table"][1500] = ["m", ["ref", 3003], ["ref", 3002]]
            return


def run(ck, tier):
    thorough = tier == "thorough"
    serial = vf.build_harness("merkle")
    conc = vf.build_harness("merkle", variant="concurrent")
    cases = sampled_cases(ck.rng, thorough)
    records = run_tlc(ck, "cases", "MCMerkle_c18_thorough.cfg" if thorough else "MCMerkle_c18.cfg", cases,
                      timeout=2400)
    nb = sum(1 for r in records if r["kind"] == "batch")
    nt = sum(1 for r in records if r["kind"] == "tree")
    ck.require(nb >= (100000 if thorough else 4000), "too few batch cases generated: %d" % nb)
    ck.require(nt >= 12, "too few tree cases generated: %d" % nt)
    ck.require(any(r["n"] == 4096 for r in records) and any(r["n"] == 2048 for r in records),
               "no tree above the 1024-leaf parallel threshold")
    corrupt_for_selftest(records)
    for r in records:
        if r["kind"] == "batch" and r["n"] in (8, 16, 2048) and len(r["idx"]) in (3, 5):
            ck.sample(r, limit=3)
    # (2) serial build, all cases
    summ, bad = replay_records(ck, "C18", "c18", serial, "serial", "all", records, timeout=2400)
    report(ck, records, bad, "serial")
    c = summ["counts"]
    ck.traces += c.get("batches", 0) + c.get("trees", 0)
    ck.evaluations += c.get("calls", 0)
    ck.part("replay_serial", **c)
    ck.require(c.get("batches", 0) == nb * HASHERS and c.get("trees", 0) == nt * HASHERS,
               "harness did not replay every case with every hasher: %s" % c)
    # (3) concurrent build: trees of 32..4096 leaves inside pools of 1..16 threads, and every case once
    #     inside a 3-thread pool (trees up to 1024 leaves take the serial path in MerkleTree::new)
    bigrecs = [r for r in records if r["n"] >= 32]
    nbt = sum(1 for r in bigrecs if r["kind"] == "tree")
    summ, bad = replay_records(ck, "C18", "c18", conc, "concurrent", "conc-big", bigrecs, threads=THREADS, timeout=2400)
    report(ck, bigrecs, bad, "concurrent")
    # pools with more workers than half the leaves of a small tree (the concurrent builder must not be
    # selected for them, whatever the threshold is)
    smallrecs = [r for r in bigrecs if r["n"] <= 1024]
    summ2, bad2 = replay_records(ck, "C18", "c18", conc, "concurrent", "conc-manythreads", smallrecs, threads=MANY_THREADS, timeout=2400)
    report(ck, smallrecs, bad2, "concurrent")
    ck.part("replay_concurrent_many_threads", threads=MANY_THREADS, **summ2["counts"])
    c = summ["counts"]
    ck.traces += c.get("batches", 0) + c.get("trees", 0)
    ck.evaluations += c.get("calls", 0)
    ck.part("replay_concurrent_big", threads=THREADS, **c)
    ck.require(summ["extra"].get("concurrent_feature") is True, "concurrent variant was built without the feature")
    ck.require(c.get("concurrent_builds", 0) >= HASHERS * len(THREADS) * 6,
               "concurrent::build_merkle_nodes was hardly exercised: %s" % c.get("concurrent_builds"))
    ck.require(c.get("trees", 0) == nbt * HASHERS * len(THREADS), "concurrent replay incomplete: %s" % c)
    summ, bad = replay_records(ck, "C18", "c18", conc, "concurrent", "conc-all", records, threads=[3], timeout=2400)
    report(ck, records, bad, "concurrent")
    c = summ["counts"]
    ck.traces += c.get("batches", 0) + c.get("trees", 0)
    ck.evaluations += c.get("calls", 0)
    ck.part("replay_concurrent_all", threads=[3], **c)
    ck.require(c.get("batches", 0) == nb * HASHERS, "concurrent replay incomplete: %s" % c)
    ck.bounds = {
        "exhaustive": "trees of %s leaves: every non-empty ascending index list, every order of <= 4 indexes"
                      % ("2,4,8,16" if thorough else "2,4,8"),
        "sampled": "%d driver-chosen index lists (seeded): %s unsorted lists of 5..n indexes, trees of %s leaves"
                   % (len(cases), "" if thorough else "16-leaf trees,", ",".join(map(str, BIG))),
        "hashers": "Blake3_256<f64> Blake3_192<f64> Sha3_256<f64> Rp64_256 RpJive64_256 Rp62_248",
        "threads": THREADS,
        "full_term_cross_check": "trees <= 64 leaves",
    }
    ck.exhaustive = False
    ck.assumptions = ["ideal (collision-free) hashing in the specification; real digests of distinct terms are assumed distinct",
                      "trees above 64 leaves are tied to the recursive definition through Table(n) (checked equal to it for n <= 64) and through equality across serial / concurrent builds",
                      "BatchMerkleProof.nodes layout is informational (format_divergence counter), not gated"]


def replay(ck, path):
    obj = json.load(open(path))["replay"]
    binary = vf.build_harness("merkle", variant=obj.get("variant", "serial") if obj.get("variant") != "serial" else "serial",
                              profile=obj.get("profile", "release"))
    threads = [obj["threads"]] if obj.get("threads") else None
    records = obj["records"]
    summ, bad = replay_records(ck, "C18", obj.get("engine", "c18"), binary, obj.get("variant", "serial"), "replay",
                               records, threads=threads)
    report(ck, records, bad, obj.get("variant", "serial"), obj.get("profile", "release"))
    ck.traces += len(records)
    ck.evaluations += summ["counts"].get("calls", 0)
