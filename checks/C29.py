"""C29 — trace validation agrees with an independent constraint checker; table construction routes agree.
spec/air/TraceValidity.tla + AirFamily.tla: for small AIR descriptions over a toy field TLC computes the
honest trace, applies every single-cell / row / column / auxiliary corruption, and decides validity with
the specification's own constraint semantics (the independent checker). Each case is replayed on the real
`Trace::validate` (panic = reject). TLC also checks the structural classification lemma used by C02."""
import json, os
import vf, starklib

SPECDIR = os.path.join(vf.SPEC, "air")
META = dict(
    technique="TLA+ constraint semantics of a data-described AIR family evaluated by TLC over a toy field (exhaustive corruptions), replayed on the real Trace::validate",
    text="TLC enumerates AIR descriptions (9 constraint shapes incl. periodic columns and an auxiliary running-product segment, exemptions 1-4, single/sequence/periodic assertions) and every single-cell, row, column and auxiliary-cell corruption of the honest 8-row trace over F_257, deciding validity with the specification's own semantics; the real Trace::validate must accept exactly the valid ones. Table construction by fill / init / fragments of every power-of-two length is compared for equality in serial and multi-threaded builds.",
    note="Toy field F_257 with trace length 8 (the whole trace is computed by TLC); the AIR interpreter GenAir is user code under test together with validate; auxiliary random elements are base-field values chosen by the specification.",
    design="7/C29")


def run_validate(ck, binary, name, cases):
    wd = vf.workdir("stark")
    path = os.path.join(wd, name + ".ndjson")
    vf.write_ndjson(path, cases)
    rc, out, err = vf.run_harness(binary, ["validate", path], timeout=1800)
    if rc != 0:
        raise vf.ToolError("harness validate failed rc=%d: %s" % (rc, err[-2000:]))
    summary = None
    for ln in out.splitlines():
        d = json.loads(ln)
        if d.get("summary"):
            summary = d
            continue
        c = cases[d["i"]]
        k = c["corrupt"]
        sig = "C29 validate expected_valid=%s got=%s corruption=%s class=%s" % (
            d["expected_valid"], d["got"].get("valid"), k["kind"], c.get("class"))
        ck.violation(sig, json.dumps({"corrupt": k, "got": d["got"]})[:600], {"engine": "validate", "case": c, "got": d["got"]})
    if summary is None:
        raise vf.ToolError("no summary from validate engine")
    ck.traces += summary["cases"]
    ck.evaluations += summary["cases"]
    ck.part(name, cases=summary["cases"], mismatches=summary["mismatches"])


def run(ck, tier):
    thorough = tier == "thorough"
    binary = vf.build_harness("stark")
    r = vf.tlc("MCTraceValidity.tla", "TraceValidity_thorough.cfg" if thorough else "TraceValidity.cfg",
               cwd=SPECDIR, workers=4, timeout=3000)
    if not r.ok:
        raise vf.ToolError("TraceValidity model failed its own invariants (specification bug): %s" % (r.error or "")[:1500])
    ck.add_tlc("validity", r)
    cases = r.tagged("REPLAY")
    ck.require(len(cases) > 2000, "too few validity cases: %d" % len(cases))
    nvalid = sum(1 for c in cases if c["expect_valid"])
    ck.require(nvalid > 100 and nvalid < len(cases) - 100, "validity classes unbalanced: %d valid of %d" % (nvalid, len(cases)))
    nopen = sum(1 for c in cases if c["class"] == "open")
    ck.part("classes", valid=nvalid, invalid=len(cases) - nvalid, structurally_open=nopen)
    ck.sample(starklib.shrink(cases[7]))
    ck.sample(starklib.shrink(cases[len(cases) // 2]))
    run_validate(ck, binary, "c29-validity", cases)
    # table construction routes (serial and concurrent builds)
    tcases = [{"width": w, "log_len": l, "seed": ck.seed * 31 + w, "field": f}
              for f in ("f64", "f128", "t40961") for w in (1, 3, 8, 17) for l in ((3, 6, 10) if not thorough else (3, 5, 8, 11, 13))]
    n = 0
    for variant, threads in (("serial", [1]), ("concurrent", [1, 2, 3, 7, 16] if thorough else [1, 4, 16])):
        b = vf.build_harness("stark", variant=variant)
        for t in threads:
            res = starklib.run_pipeline(b, "c29-tables-%s-%d" % (variant, t), tcases, engine="tables", env={"WF_THREADS": str(t)})
            for c, r2 in zip(tcases, res):
                n += 1
                for m in r2["mismatches"]:
                    ck.violation("C29 trace table routes differ: %s" % m.get("route"), json.dumps({"case": c, "m": m, "variant": variant, "threads": t})[:500],
                                 {"engine": "tables", "case": c, "variant": variant, "threads": t, "mismatch": m})
                if r2["fragment_lengths_ok"] < c["log_len"]:
                    raise vf.ToolError("fragments route exercised too few lengths: %s" % r2)
    ck.traces += n
    ck.part("tables", runs=n)
    ck.sample({"table_case": tcases[0]})
    ck.bounds = {"validity": "F_257, trace length 8, %d cases (every cell/row/column/aux-cell corruption of every description)" % len(cases),
                 "tables": "widths 1-17, lengths 2^3..2^%d, serial + concurrent with several thread counts" % (13 if thorough else 10)}
    ck.exhaustive = True
    ck.assumptions = ["the enumerated description family and corruption operators of TraceValidity.tla"]


def replay(ck, path):
    obj = json.load(open(path))
    rp = obj["replay"]
    binary = vf.build_harness("stark")
    if rp["engine"] == "validate":
        run_validate(ck, binary, "c29-replay", [rp["case"]])
    else:
        b = vf.build_harness("stark", variant=rp.get("variant", "serial"))
        res = starklib.run_pipeline(b, "c29-replay", [rp["case"]], engine="tables", env={"WF_THREADS": str(rp.get("threads", 1))})
        for m in res[0]["mismatches"]:
            ck.violation("C29 trace table routes differ: %s" % m.get("route"), json.dumps(m), rp)
