"""C09 — FRI rejects far-from-low-degree data and inconsistent openings.
spec/fri/GenFriAttack.tla builds, over the toy fields, instances of ten classes (evaluations of
polynomials above the bound / arbitrary functions, a high-degree polynomial whose excess TLC's alpha
cancels, understated bounds with the same and with a smaller inferred domain, a changed layer value,
a kernel-vector forgery of a layer coset, a changed remainder coefficient, a remainder crafted to
agree at every queried point, a changed query evaluation, every revealed value changed one at a time) and evaluates on each the verifier of
spec/fri/Fri.tla twice: with commitments compared (strict) and with nothing compared (perm).  These
computed verdicts are the expectations.  The harness runs the honest prover with TLC's scripted
challenges, writes TLC's substituted values into the proof and runs the REAL FriVerifier over
DefaultVerifierChannel (gate: everything the specification rejects must be rejected) and over a
permissive VerifierChannel (vacuity guard: the crafted forgeries pass every algebraic check of the
real verifier, so only the commitment comparison rejects them).  Over f64/f62/f128 the deterministic
classes run with the real coin; the substitutions are manufactured from the recorded challenges and
guarded the same way."""
import json, os, collections
import vf

SPECDIR = os.path.join(vf.SPEC, "fri")
TOY_CLASSES = ["highdeg", "lowzero", "killed", "under", "under2", "layer", "kernel", "rem", "remcraft", "evalchg", "each"]
REAL_CLASSES = ["layer", "kernel", "rem", "remcraft", "under", "under2", "evalchg", "each"]

META = dict(
    technique="TLC trace validation of the FRI commit-phase coin schedule recorded on both sides of honest real-field runs (FriSchedule.tla) + TLA+ specification of the FRI verifier evaluated by TLC on concrete adversarial toy instances (expected verdict computed per instance, with and without the commitment comparisons); TLC-computed forged openings/remainders written into real proofs (Generate->Replay); real FriVerifier run over DefaultVerifierChannel and over a permissive VerifierChannel (vacuity guard)",
    text="For every schedule with domain 8..128 (256 thorough) and each applicable class, the real verifier's verdict equals the verdict of Fri.tla's verifier on the same instance: polynomials of degree bound+1..n-1 and arbitrary functions under many queries, understated bounds, every kind of substituted opening. Kernel-vector layer forgeries and remainders r + c*prod(x - x_i) are shown (on the real verifier, permissive channel) to pass every algebraic check and are rejected by the real verifier over DefaultVerifierChannel (LayerCommitmentMismatch / RemainderCommitmentMismatch). The same deterministic classes run over f64/f62/f128 with extensions and all hash functions.",
    note="Soundness against adaptive provers in general (the FRI soundness error) is not decided: the classes are those listed. High-degree data over toy fields uses the verdict computed by TLC for the scripted challenges (no probabilistic expectation); over the production fields only classes rejecting deterministically or with failure probability < 2^-40 are used. Hash functions are ideal in the specification.",
    design="7/C09")


def small(sc):
    s = dict(sc)
    for k in ("evals", "frows", "folded", "subs"):
        if k in s and len(json.dumps(s[k])) > 500:
            s[k] = "<%d entries>" % len(s[k])
    return s


def run_engine(ck, binary, engine, name, scenarios, guard_fail):
    wd = vf.workdir("c09")
    path = os.path.join(wd, "%s-%d.ndjson" % (name, os.getpid()))
    vf.write_ndjson(path, scenarios)
    rc, out, err = vf.run_harness(binary, [engine, path], timeout=1800)
    if rc != 0:
        raise vf.ToolError("harness %s failed rc=%d: %s" % (engine, rc, err[-2000:]))
    summary = None
    info = collections.Counter()
    skipped = collections.Counter()
    examples = []
    for ln in out.splitlines():
        d = json.loads(ln)
        if d.get("summary"):
            summary = d
            continue
        sc = scenarios[d["i"]]
        det = d["detail"]
        kind = d["kind"]
        if kind == "strict":
            where = "real %s ext=%s" % (sc["field"], sc["ext"]) if engine == "realattack" else "toy"
            got = det["got"]
            sig = "fri.verify[%s %s] expected=reject got=%s" % (where, sc["cls"], got)
            ck.violation(sig, json.dumps({"scenario": small(sc), "detail": det})[:1500],
                         {"engine": engine, "scenario": sc, "detail": det})
        elif kind == "guard":
            guard_fail.append({"scenario": small(sc), "detail": det})
        elif kind == "skip":
            skipped[sc["cls"]] += 1
        elif kind == "schedule":
            SCHEDULES.append((sc, det))
        else:
            info[kind + ":" + sc["cls"]] += 1
            if len(examples) < 3:
                examples.append({"scenario": small(sc), "kind": kind, "detail": det})
    if summary is None:
        raise vf.ToolError("harness produced no summary")
    os.unlink(path)
    ck.traces += summary["scenarios"] - summary["skipped"]
    ck.evaluations += summary["strict_runs"] + summary["perm_runs"]
    ck.part("replay:" + name, scenarios=summary["scenarios"], strict_runs=summary["strict_runs"],
            perm_runs=summary["perm_runs"], skipped=dict(skipped), informational=dict(info), examples=examples)
    return summary, skipped, info


SCHEDULES = []


def schedule_part(ck):
    """FriSchedule.tla: the recorded coin events of the honest real-field runs must follow the commit-then-draw
    schedule (every layer commitment absorbed before its folding challenge is drawn, on both sides)."""
    rows = [d for _, d in SCHEDULES]
    ck.require(len(rows) >= 50, "too few FRI coin schedules recorded: %d" % len(rows))
    ck.require(any(r["layers"] >= 2 for r in rows), "no recorded schedule with two or more layers")
    rejected, st, tr = vf.validate_trace("FriSchedule.tla", "FriSchedule.cfg", SPECDIR, rows, "c09s")
    ck.states += st
    ck.transitions += tr
    ck.traces += len(rows)
    for idx, row in rejected:
        sc = SCHEDULES[idx][0]
        ck.violation("FRI public-coin schedule: a folding challenge does not follow the absorption of its layer commitment",
                     "%s ext=%s N=%s layers=%d :: prover=%s verifier=%s" % (sc["field"], sc["ext"], sc["N"], row["layers"],
                         json.dumps([e["e"] for e in row["prover"]]), json.dumps([e["e"] for e in row["verifier"]])),
                     {"engine": "realattack", "scenario": sc, "schedule": row})
    ck.part("schedule", validated=len(rows), rejected=len(rejected))


def generate(ck, tier):
    thorough = tier == "thorough"
    r = vf.tlc("GenFriAttack.tla", "GenFriAttack_thorough.cfg" if thorough else "GenFriAttack.cfg", cwd=SPECDIR,
               workers=4, timeout=3000 if thorough else 600, env={"SEED": ck.seed % 40009})
    if not r.ok:
        raise vf.ToolError("TLC failed on GenFriAttack.tla (specification bug): %s" % r.error)
    ck.add_tlc("gen", r)
    return r.tagged("REPLAY")


def run(ck, tier):
    binary = vf.build_harness("fri")
    sc = generate(ck, tier)
    toy = [s for s in sc if s["op"] == "attack"]
    real = [s for s in sc if s["op"] == "realattack"]
    per = collections.Counter(s["cls"] for s in toy)
    verd = collections.Counter((s["cls"], "accept" if s["strict"] == "accept" else "reject",
                                "accept" if s["perm"] == "accept" else ("oob" if s["perm"] == "oob" else "reject")) for s in toy)
    # specification-level sanity (a failure is a bug of the specification, never a violation)
    for s in toy:
        if s["cls"] in ("kernel", "remcraft") and not (s["perm"] == "accept" and s["strict"] != "accept"):
            raise vf.ToolError("crafted forgery is not (perm accept, strict reject) in Fri.tla: %s" % json.dumps(small(s))[:1000])
        if s["cls"] in ("layer", "rem", "under", "evalchg", "each") and s["strict"] == "accept":
            raise vf.ToolError("Fri.tla's verifier accepts a %s case: %s" % (s["cls"], json.dumps(small(s))[:1000]))
    for c in TOY_CLASSES:
        ck.require(per[c] >= 30, "too few %s cases generated: %d" % (c, per[c]))
    ck.require(verd[("highdeg", "reject", "reject")] >= 100, "high-degree cases rejected by the specification: %d" % verd[("highdeg", "reject", "reject")])
    ck.require(verd[("lowzero", "reject", "reject")] >= 30, "over-degree cases with vanishing low coefficients rejected by the specification: %d" % verd[("lowzero", "reject", "reject")])
    ck.require(verd[("killed", "accept", "accept")] >= 20, "no high-degree case that the specification accepts (expectations would look assumed)")
    ck.require({s["N"] for s in toy if s["cls"] == "kernel"} >= {4, 8, 16}, "kernel forgeries do not cover folding 4, 8, 16")
    ck.require(len({s["strict"] for s in toy}) >= 6, "too few distinct rejection reasons in the specification's verdicts")
    rper = collections.Counter(s["cls"] for s in real)
    for c in REAL_CLASSES:
        ck.require(rper[c] >= 15, "too few real-field %s cases: %d" % (c, rper[c]))
    ck.part("gen", toy_cases=dict(per), real_cases=dict(rper),
            each_substitutions=sum(len(s["subs"]) for s in toy if s["cls"] == "each"),
            toy_verdicts={"%s strict=%s perm=%s" % k: v for k, v in sorted(verd.items())},
            strict_reasons=dict(collections.Counter(s["strict"] for s in toy)))
    for c in ("kernel", "remcraft", "highdeg", "under2"):
        ck.sample(small(next(s for s in toy if s["cls"] == c)))
    ck.sample(real[0])
    guard_fail = []
    _, sk1, info1 = run_engine(ck, binary, "attack", "toy", toy, guard_fail)
    _, sk2, info2 = run_engine(ck, binary, "realattack", "real", real, guard_fail)
    schedule_part(ck)
    if guard_fail:
        raise vf.ToolError("vacuity guard: a crafted forgery does not pass the algebraic checks of the real verifier "
                           "(the forgery is ill-formed for this code, nothing can be concluded): %s" % json.dumps(guard_fail[0])[:1500])
    ck.require(sum(sk1.values()) == 0, "toy scenarios skipped: %s" % dict(sk1))
    ck.require(all(sk2[c] <= rper[c] // 2 for c in REAL_CLASSES), "too many real-field scenarios skipped: %s" % dict(sk2))
    over = sum(v for k, v in list(info1.items()) + list(info2.items()) if k.startswith("overreject"))
    if info1 or info2:
        vf.log("[C09] note (not gating): %s %s" % (dict(info1), dict(info2)))
    ck.part("agreement", spec_accept_real_reject=over)
    ck.bounds = {"toy": "every schedule with domain 8..%d, blowup/folding {2,4,8,16}, remainder degree 0..15; %s case(s) per applicable class" % ((256, 16) if tier == "thorough" else (128, 2)),
                 "real": "f64,f62 x ext 1,2,3, f128 x ext 1,2, all hash functions; domain 32..2^%d; classes %s" % (12 if tier == "thorough" else 10, ",".join(REAL_CLASSES))}
    ck.exhaustive = False
    ck.assumptions = ["hash functions are ideal in the specification: a changed committed value is a commitment mismatch",
                      "positions handed to verify lie in the verifier's domain (under2 draws them there)",
                      "real-field understated bounds use >= 40 queries and a factor >= 2 (or a bound + 1 that is not a power of two, rejected deterministically)"]


def replay(ck, path):
    obj = json.load(open(path))["replay"]
    binary = vf.build_harness("fri")
    guard_fail = []
    run_engine(ck, binary, obj["engine"], "replay", [obj["scenario"]], guard_fail)
    if "schedule" in obj:
        rows = [d for _, d in SCHEDULES]
        rejected, st, tr = vf.validate_trace("FriSchedule.tla", "FriSchedule.cfg", SPECDIR, rows, "c09sr")
        for idx, row in rejected:
            ck.violation("FRI public-coin schedule: a folding challenge does not follow the absorption of its layer commitment",
                         json.dumps([e["e"] for e in row["verifier"]]), obj)
    if guard_fail:
        raise vf.ToolError("vacuity guard failed on the replayed scenario: %s" % json.dumps(guard_fail[0])[:1500])
