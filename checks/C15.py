"""C15 — byte-oriented hashers follow their byte layout for every input.
spec/hash/ByteLayout.tla defines the layout of every hasher entry point as a byte string and the value
of every element argument by exact modular arithmetic; TLC enumerates the argument shapes (one case
per initial state), checks the definitions' own sanity (WellFormed) and prints each case with its
expected digest as the TERM prim(layout)[..out].  The harness evaluates the term with the blake3 /
sha3 crates directly and compares with Blake3_256 / Blake3_192 / Sha3_256 of winterfell."""
import json, os
import vf

SPECDIR = os.path.join(vf.SPEC, "hash")

META = dict(
    technique="TLA+ denotational specification of the hashers' byte layouts; TLC-enumerated cases with expected digests as symbolic terms prim(layout), evaluated with the blake3/sha3 crates and compared with winterfell's hashers",
    text="For every enumerated argument shape (byte strings of 0..70 bytes and around the 128/136/1024-byte boundaries, 0..5 digests, eight u64 values incl. 0, 2^32, 2^63, 2^64-1, 0..9 elements of f64/f62/f128, their quadratic and cubic extensions and canonical/redundant toy fields) Blake3_256, Blake3_192 and Sha3_256 return exactly the primitive applied to the byte layout the specification defines. Element arguments are built by recipes (new/neg/sub/add/double/mul/mul_small chains, explicit redundant forms) so that every internal representation class occurs, while the specification knows only their values; any dependence on the representation is a mismatch.",
    note="The blake3 and sha3 crates are the trusted primitives (they are the 'free constructor' of the specification). Recipe values rely on the exactness of new/add/sub/neg/double/mul of the field under test (property C10); element lists are bounded (9 quick / 20 thorough).",
    design="7/C15")

REDUNDANT_REQUIRED = ["f62:upper", "f62:canon", "t257r:upper", "t257r:canon", "t40961r:upper", "t40961r:canon",
                      "f64:canon", "f128:canon", "t257:canon"]


def signature(det):
    cl = ",".join(det.get("classes") or []) or "-"
    s = "%s.%s %s repr=%s" % (det["hasher"], det["op"], det["outcome"], cl)
    if det.get("panic"):
        s += " @" + det["panic"].split(": ")[0].replace("/repo/", "")
    return s


def run_cases(binary, name, scenarios):
    wd = vf.workdir("c15")
    path = os.path.join(wd, "%s-%d.ndjson" % (name, os.getpid()))
    vf.write_ndjson(path, scenarios)
    rc, out, err = vf.run_harness(binary, ["bytelayout", path], timeout=900)
    if rc != 0:
        raise vf.ToolError("harness bytelayout failed rc=%d: %s" % (rc, err[-2000:]))
    os.unlink(path)
    summary, bad = None, []
    for ln in out.splitlines():
        d = json.loads(ln)
        if d.get("summary"):
            summary = d
        else:
            bad.append(d)
    if summary is None:
        raise vf.ToolError("harness produced no summary")
    return summary, bad


def replay_scenarios(ck, binary, name, scenarios):
    summary, bad = run_cases(binary, name, scenarios)
    for d in bad:
        det = d["detail"]
        ck.violation(signature(det), json.dumps(det),
                     {"engine": "bytelayout", "scenario": scenarios[d["i"]], "detail": det})
    ck.traces += summary["scenarios"]
    ck.evaluations += summary["evaluations"]
    ck.part(name, scenarios=summary["scenarios"], hasher_calls=summary["evaluations"],
            mismatches=summary["mismatches"], calls_per_op=summary["ops"],
            coordinates_per_representation_class=summary["classes"])
    return summary


def run(ck, tier):
    binary = vf.build_harness("hashcoin")
    thorough = tier == "thorough"
    r = vf.tlc("MCByteLayout.tla", "GenByteLayout_thorough.cfg" if thorough else "GenByteLayout.cfg",
               cwd=SPECDIR, workers=4, timeout=2400 if thorough else 300)
    if not r.ok:
        raise vf.ToolError("ByteLayout.tla violates its own sanity invariant (specification bug): %s" % r.error)
    ck.add_tlc("gen", r)
    sc = r.tagged("REPLAY")
    ck.require(len(sc) >= r.distinct, "TLC found %d cases but printed only %d scenarios" % (r.distinct, len(sc)))
    # cases that differ only in an unused selector (e.g. zero elements) print the same scenario
    seen, uniq = set(), []
    for s in sc:
        k = json.dumps(s, sort_keys=True)
        if k not in seen:
            seen.add(k)
            uniq.append(s)
    sc = uniq
    ck.require(len(sc) >= 2500, "generator printed too few cases: %d" % len(sc))
    ops = {}
    for s in sc:
        ops[s["op"]] = ops.get(s["op"], 0) + 1
    for op in ["hash", "merge", "merge_many", "merge_with_int", "hash_elements"]:
        ck.require(ops.get(op, 0) > 0, "no case for operation " + op)
    for want in [lambda s: s["op"] == "merge_with_int", lambda s: s["op"] == "hash_elements" and s["f"] == "f62" and s["deg"] == 2 and len(s["elems"]) == 2,
                 lambda s: s["op"] == "hash_elements" and s["f"] == "t257r" and s["deg"] == 1 and len(s["elems"]) == 3]:
        for s in sc:
            if want(s):
                ck.sample(s)
                break
    summary = replay_scenarios(ck, binary, "gen", sc)
    # vacuity: every representation class the design names must have been hashed
    for cls in REDUNDANT_REQUIRED:
        ck.require(summary["classes"].get(cls, 0) > 0, "no element coordinate of representation class " + cls)
    sensitivity(ck, binary, sc)
    # f64:noncanon exists only while mul_small/double leave the canonical range (a C10 matter): reported, not required
    ck.part("gen", f64_noncanonical_coordinates=summary["classes"].get("f64:noncanon", 0))
    ck.bounds = {"hash": "lengths %s, 2 (3) content kinds" % ("0..300, 1023..1025, 2048, 2049, 3000" if thorough else "0..70, 127..129, 135..137, 1023..1025"),
                 "merge_many": "0..%d digests" % (12 if thorough else 5),
                 "merge_with_int": "8 integers incl. 0, 1, 2^32, 2^63, 2^64-1",
                 "hash_elements": "0..%d elements x degrees 1,2,3 x 6 fields x %d selections from pools of 26..38 recipes" % ((20, 42) if thorough else (9, 5)),
                 "hashers": "Blake3_256, Blake3_192, Sha3_256 over f64, f62, f128 and toy fields"}
    ck.exhaustive = True
    ck.assumptions = ["blake3::hash and sha3::Sha3_256 (crates) are the primitives",
                      "recipe values assume exact new/add/sub/neg/double/mul(/mul_small) of the field (C10)",
                      "exhaustive over the enumerated shapes only; byte contents are position-valued patterns"]


def sensitivity(ck, binary, sc):
    """Runs the same hash_elements cases on a deliberately wrong hasher of the harness (RawMem: hashes the
    elements' raw memory whatever the representation).  Not a verdict on winterfell: it shows that the
    cases separate representations — the mutant must be caught on every field whose stored form differs
    from the canonical encoding and must pass on the fields where both coincide."""
    cases = [dict(s, h="b256!rawmem") for s in sc if s["op"] == "hash_elements" and s["h"] == "b256" and s["elems"]]
    summary, bad = run_cases(binary, "sensitivity", cases)
    per = {}
    upper_only = True
    for d in bad:
        f = d["detail"]["field"]
        per[f] = per.get(f, 0) + 1
        if f in ("t257r", "t40961r") and "upper" not in d["detail"]["classes"]:
            upper_only = False
    for f in ["f64", "f62", "t257r", "t40961r"]:
        ck.require(per.get(f, 0) > 0, "raw-memory mutant hasher was not caught over " + f)
    for f in ["f128", "t257"]:
        ck.require(per.get(f, 0) == 0, "raw-memory mutant hasher flagged over canonical field " + f)
    ck.require(upper_only, "raw-memory mutant flagged on a redundant toy field without a redundant coordinate")
    ck.part("sensitivity_rawmem_mutant", cases=len(cases), caught_per_field=per)


def replay(ck, path):
    binary = vf.build_harness("hashcoin")
    obj = json.load(open(path))
    replay_scenarios(ck, binary, "replay", [obj["replay"]["scenario"]])
