"""C27 — streaming reader behaves like the in-memory reader for any chunking.
spec/serde/ReadAdapter.tla: (1) TLC checks the refinement invariant of the code-shaped adapter model
exhaustively at small scope (design level); (2) TLC prints one operation sequence per distinct
transition of the code-shaped state graph with the ABSTRACT expected results, replayed on the real
ReadAdapter (scripted chunked Read) and SliceReader; (3) TLC -simulate produces long behaviours over
200..700-byte contents crossing the 256-byte BufReader capacity and the compaction threshold."""
import json, os
import vf

SPECDIR = os.path.join(vf.SPEC, "serde")

META = dict(
    technique="TLA+ refinement model of ReadAdapter checked by TLC + TLC-generated operation sequences (one per model transition, plus simulated long behaviours) replayed on the real adapter",
    text="TLC explores the code-shaped model of the adapter against the abstract reader exhaustively at small scope (contents <= 7 bytes, 6 chunk patterns, <= 4 operations, plus a scaled capacity/compaction instance) and the real ReadAdapter is driven through every distinct transition of that state graph and through simulated 40-operation behaviours over 200-700 byte contents; expected results come only from the abstract reader of the specification.",
    note="Assumes the underlying Read returns at least one byte until the stream ends and never errors; bounds as stated; memory safety is observed (panics, wrong bytes), not proved.",
    design="7/C27")


def signature(d):
    det = d["detail"]
    loc = ""
    if det.get("panic"):
        loc = " @" + det["panic"].split(": ")[0].replace("/repo/", "")
    return "%s.%s expected=%s got=%s%s" % (det["reader"], det["op"], det["expected"]["t"], det["got"]["t"], loc)


def replay_scenarios(ck, binary, name, scenarios):
    wd = vf.workdir("c27")
    path = os.path.join(wd, name + ".ndjson")
    vf.write_ndjson(path, scenarios)
    rc, out, err = vf.run_harness(binary, ["readadapter", path], timeout=900)
    if rc < 0 or rc == 134:
        # the process was killed by a signal (abort on allocation failure, ...): that is an outcome of the
        # code under test; locate the first scenario that kills it by bisection on the prefix length
        lo, hi = 0, len(scenarios)          # prefix of length lo survives, of length hi dies
        while hi - lo > 1:
            mid = (lo + hi) // 2
            vf.write_ndjson(path, scenarios[:mid])
            r2, _, _ = vf.run_harness(binary, ["readadapter", path], timeout=900)
            if r2 < 0 or r2 == 134:
                hi = mid
            else:
                lo = mid
        sc = scenarios[hi - 1]
        ck.violation("ReadAdapter: the process aborts (signal %d) on a request sequence" % abs(rc if rc < 0 else 6),
                     json.dumps(sc["ops"])[:300], {"engine": "readadapter", "scenario": sc, "detail": {"rc": rc, "stderr": err[-300:]}})
        scenarios = scenarios[:hi - 1]
        vf.write_ndjson(path, scenarios)
        rc, out, err = vf.run_harness(binary, ["readadapter", path], timeout=900)
    if rc != 0:
        raise vf.ToolError("harness readadapter failed rc=%d: %s" % (rc, err[-2000:]))
    summary = None
    for ln in out.splitlines():
        d = json.loads(ln)
        if d.get("summary"):
            summary = d
            continue
        sc = scenarios[d["i"]]
        ck.violation(signature(d), json.dumps(d["detail"]), {"engine": "readadapter", "scenario": sc, "detail": d["detail"]})
    if summary is None:
        raise vf.ToolError("harness produced no summary")
    ck.traces += summary["scenarios"]
    ck.evaluations += summary["ops"]
    ck.part(name, scenarios=summary["scenarios"], ops=summary["ops"], mismatches=summary["mismatches"])
    return summary


def run(ck, tier):
    binary = vf.build_harness("serde")
    thorough = tier == "thorough"
    # (1) design level: refinement of the code-shaped model, exhaustive at small scope
    for cfg in ["MCReadAdapter.cfg", "MCReadAdapter_scaled.cfg"]:
        r = vf.tlc("MCReadAdapter.tla", cfg, cwd=SPECDIR, workers=8, timeout=1200)
        ck.add_tlc("design:" + cfg, r)
        if not r.ok:
            raise vf.ToolError("design-level refinement check %s failed (specification bug): %s" % (cfg, r.error))
    # (2) one scenario per distinct transition
    r = vf.tlc("MCReadAdapter.tla", "GenReadAdapter_thorough.cfg" if thorough else "GenReadAdapter.cfg",
               cwd=SPECDIR, workers=4, timeout=3000)
    ck.add_tlc("gen", r)
    sc = r.tagged("REPLAY")
    ck.require(len(sc) > 1000, "generator printed too few scenarios: %d" % len(sc))
    for x in sc[1000:1003]:
        ck.sample(x)
    replay_scenarios(ck, binary, "gen", sc)
    # (3) long simulated behaviours
    nsim = 3000 if thorough else 300
    r = vf.tlc("MCReadAdapter.tla", "SimReadAdapter.cfg", cwd=SPECDIR, workers=1, simulate=nsim, depth=60,
               seed=ck.seed, timeout=1800)
    if not r.ok:
        raise vf.ToolError("simulation of the code-shaped model violated its invariant (specification bug): %s" % r.error)
    ck.add_tlc("sim", r)
    sc = r.tagged("REPLAY")
    ck.require(len(sc) >= nsim // 2, "simulation printed too few scenarios: %d" % len(sc))
    s0 = dict(sc[0]); s0["content"] = "<%d bytes>" % len(s0["content"])
    ck.sample(s0)
    replay_scenarios(ck, binary, "sim", sc)
    ck.bounds = {"exhaustive_transitions": "content<=6(7 thorough) bytes x 2 kinds x 6 chunk patterns x <=3(4) ops from 20",
                 "simulation": "content 200..700 bytes, 10 chunk patterns, 40 ops, %d behaviours" % nsim}
    ck.exhaustive = False
    ck.assumptions = ["underlying Read returns >=1 byte until the stream ends and never errors",
                      "expected results are those of the abstract reader in ReadAdapter.tla (= SliceReader, also checked)"]


def replay(ck, path):
    binary = vf.build_harness("serde")
    obj = json.load(open(path))
    replay_scenarios(ck, binary, "replay", [obj["replay"]["scenario"]])
