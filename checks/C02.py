"""C02 — proofs of unsatisfied statements are rejected.
spec/stark/StarkCorrupt.tla: TLC samples supported configurations and one corruption of the honest
instance, classified by the structural lemma of AirFamily.tla (model-checked against full constraint
evaluation in TraceValidity.tla, see C29). For corruptions the specification classifies as unsatisfying
the real pipeline (release build, no debug self-checks) must end in a prover failure or a verifier
rejection; corruptions confined to unconstrained cells must still verify."""
import json, os
import vf, starklib

META = dict(
    technique="TLA+ corruption classification (structural lemma model-checked by TLC against the AIR semantics) + TLC-sampled corrupted instances replayed through the real prover and verifier + TLC-checked Schwartz-Zippel bound of the batching functions (Coeffs.tla) with complete coefficient vectors replayed on the real Air coefficient methods over a toy field",
    text="TLC samples supported configurations over f62/f64/f128 with every hasher and one corruption each (cell at every row class, row, column, auxiliary cell, public input); the specification decides whether the statement became false; the real prover+verifier (release build) must then not accept, while corruptions of unconstrained cells must still be accepted.",
    note="Adversaries are honest-pipeline provers on bad traces (adaptive adversaries are C03). Rejection relies on the out-of-domain check, failure probability <= degree/|F| < 2^-50 over the 62/64/128-bit fields; toy fields are excluded. Only corruptions the lemma classifies are used.",
    design="7/C02")


def judge(ck, name, cases, results):
    bad = 0
    stats = {}
    for c, r in zip(cases, results):
        v = r.get("verdict")
        exp = c["expect"]
        key = "%s/%s->%s" % (c["corrupt"]["kind"], exp, v if v != "reject" else "reject:" + str(r.get("class")))
        stats[key] = stats.get(key, 0) + 1
        if exp == "reject":
            ok = v in ("reject", "prover_error", "prover_panic")
        else:
            ok = v == "accept"
        if not ok:
            bad += 1
            sig = "C02 %s corruption expected=%s got=%s" % (c["corrupt"]["kind"], exp, v)
            ck.violation(sig, "%s :: corrupt=%s :: %s" % (starklib.cfg_signature(c), json.dumps(c["corrupt"]), str(r.get("detail", ""))[:300]),
                         {"engine": "pipeline", "case": c, "result": r})
    ck.traces += len(cases)
    ck.evaluations += len(cases)
    ck.part(name, cases=len(cases), mismatches=bad, outcomes=stats)
    return stats


COEFF_KEYS = ("aux_rands", "aux_used", "transition", "boundary", "cc_used", "trace", "constraints", "deep_used")


def coefficients(ck, binary):
    """Coeffs.tla: TLC checks the Schwartz-Zippel bound of the three batching functions on a small field
    and computes the complete coefficient vectors of every listed configuration over F_40961 and its
    extensions; the real Air::get_*_composition_coefficients must return exactly those vectors and
    consume exactly that many draws."""
    cases = starklib.generate(ck, "Coeffs.cfg", "coefficients", tag="COEFFS")
    ck.require(len(cases) >= 300, "coefficient family too small: %d" % len(cases))
    res = starklib.run_pipeline(binary, "c02-coeffs", cases, engine="coeffs")
    bad = 0
    for c, r in zip(cases, res):
        e = c["expect"]
        wrong = [k for k in COEFF_KEYS if r.get(k) != e[k]]
        if wrong or e["ncc"] != e["cc_used"] or e["ndeep"] != e["deep_used"]:
            bad += 1
            ck.violation("C02 composition coefficients differ from the specified batching function (method %d/%d): %s"
                         % (c["cbatch"], c["dbatch"], ",".join(wrong)),
                         "ext=%d width=%d asserts=%d aux=%d :: got %s" % (c["ext"], c["desc"]["width"], len(c["desc"]["asserts"]),
                                                                       len(c["desc"]["aux"]), json.dumps({k: r.get(k) for k in wrong} or r)[:400]),
                         {"engine": "coeffs", "case": c, "result": r})
    # vacuity: single-challenge methods with at least two transition and two boundary coefficients, all degrees
    rich = {(c["ext"], c["cbatch"]) for c in cases if len(c["expect"]["transition"]) >= 2 and len(c["expect"]["boundary"]) >= 2}
    ck.require({(e, m) for e in (1, 2, 3) for m in (0, 1, 2)} <= rich, "coefficient cases do not cover every method/degree: %s" % sorted(rich))
    ck.require(sum(1 for c in cases if len(c["expect"]["aux_rands"]) >= 2) >= 20, "too few cases with two or more auxiliary random elements")
    ck.traces += len(cases)
    ck.evaluations += len(cases)
    ck.part("coefficients", cases=len(cases), mismatches=bad)


def run(ck, tier):
    binary = vf.build_harness("stark")
    thorough = tier == "thorough"
    n = 3000 if thorough else 350
    cases = starklib.generate(ck, "SimStarkCorrupt_thorough.cfg" if thorough else "SimStarkCorrupt.cfg", "corrupt", simulate=n, depth=45)
    # StarkCorrupt is a separate root module
    ck.require(len(cases) >= n // 4, "too few corrupted cases: %d" % len(cases))
    res = starklib.run_pipeline(binary, "c02", cases)
    stats = judge(ck, "corrupt", cases, res)
    coefficients(ck, binary)
    # fixed family: cells only an assertion constrains, over assertion layouts sharing first steps / strides
    fixed = starklib.generate(ck, "FixedStarkCorrupt.cfg", "fixed-family", tag="FIXED")
    ck.require(len(fixed) >= 100, "fixed corruption family too small: %d" % len(fixed))
    if not thorough:
        ck.rng.shuffle(fixed)
        free = [c for c in fixed if c["corrupt"]["row"] > 16 - c["desc"]["exemptions"]]
        rest = [c for c in fixed if c not in free]
        fixed = free + rest[:60]
    res2 = starklib.run_pipeline(binary, "c02-fixed", fixed)
    judge(ck, "fixed-family", fixed, res2)
    ck.sample(starklib.shrink(fixed[0]))
    kinds = {c["corrupt"]["kind"] for c in cases}
    ck.require({"cell", "row", "pub"} <= kinds, "corruption kinds missing: %s" % kinds)
    nrej = sum(1 for c in cases if c["expect"] == "reject")
    ck.require(nrej >= len(cases) // 3 and nrej < len(cases), "classes unbalanced: %d reject of %d" % (nrej, len(cases)))
    ck.sample(starklib.shrink(cases[0]))
    ck.sample(starklib.shrink(cases[1]))
    ck.bounds = {"cases": "%d corrupted instances, trace length <= 2^%d" % (len(cases), 8 if thorough else 6)}
    ck.exhaustive = False
    ck.assumptions = ["classification lemma of AirFamily.tla (checked by TLC in TraceValidity.tla)",
                      "soundness error of the OOD check (< 2^-50) is neglected"]


def replay(ck, path):
    binary = vf.build_harness("stark")
    rp = json.load(open(path))["replay"]
    c = rp["case"]
    if rp.get("engine") == "coeffs":
        r = starklib.run_pipeline(binary, "c02-replay", [c], engine="coeffs")[0]
        wrong = [k for k in COEFF_KEYS if r.get(k) != c["expect"][k]]
        if wrong:
            ck.violation("C02 composition coefficients differ from the specified batching function (method %d/%d): %s"
                         % (c["cbatch"], c["dbatch"], ",".join(wrong)), json.dumps(r)[:400], rp)
        ck.part("replay", cases=1, mismatches=len(wrong))
        return
    res = starklib.run_pipeline(binary, "c02-replay", [c])
    judge(ck, "replay", [c], res)
