"""Shared helpers of the AIR-algebra group (C22, C23, C28): generate scenarios with TLC, replay them on
the wf-airalg harness, turn harness mismatch lines into violations with stable signatures."""
import json, os
import vf

AIRDIR = os.path.join(vf.SPEC, "air")
MATHDIR = os.path.join(vf.SPEC, "math")


def generate(ck, name, module, cfg, cwd, workers=4, timeout=600):
    r = vf.tlc(module, cfg, cwd=cwd, workers=workers, timeout=timeout, env={"SEED": ck.seed % 40009})
    if not r.ok:
        raise vf.ToolError("TLC reported a failure of %s / %s (specification bug, not a verdict on the code): %s"
                           % (module, cfg, r.error))
    ck.add_tlc("gen:" + name, r)
    return r.tagged("REPLAY")


def brief(obj, limit=400):
    """A printable copy of a scenario: long lists elided."""
    if isinstance(obj, dict):
        return {k: brief(v, limit) for k, v in obj.items()}
    if isinstance(obj, list):
        if len(json.dumps(obj)) > limit:
            return [brief(x, limit // 2) for x in obj[:3]] + ["... %d items" % len(obj)]
        return obj
    return obj


def replay(ck, binary, engine, name, scenarios, label="serial", threads=None, sig=None, timeout=1800, wd="airalg"):
    """Runs `binary engine file [threads]`; every non-summary line {"i":, "detail":} is a violation.
    Returns (summary, observation lines)."""
    path = os.path.join(vf.workdir(wd), "%s-%s-%d.ndjson" % (name, label, os.getpid()))
    vf.write_ndjson(path, scenarios)
    args = [engine, path] + ([",".join(str(t) for t in threads)] if threads else [])
    rc, out, err = vf.run_harness(binary, args, timeout=timeout)
    if rc != 0:
        raise vf.ToolError("harness %s failed rc=%d: %s" % (engine, rc, err[-2000:]))
    summary = None
    obs = []
    for ln in out.splitlines():
        if not ln.strip():
            continue
        d = json.loads(ln)
        if d.get("summary"):
            summary = d
            continue
        if "obs" in d:
            obs.append(d)
            continue
        sc = scenarios[d["i"]]
        det = d["detail"]
        s = sig(sc, det, label) if sig else "%s[%s] %s" % (det.get("call"), label, det.get("what"))
        desc = json.dumps({"build": label, "threads": d.get("threads"), "scenario": brief(sc), "detail": brief(det, 1200)})[:2500]
        ck.violation(s, desc, {"engine": engine, "build": label, "threads": d.get("threads"), "scenario": sc, "detail": det})
    if summary is None:
        raise vf.ToolError("harness %s produced no summary" % engine)
    os.unlink(path)
    if summary["scenarios"] != len(scenarios):
        raise vf.ToolError("harness %s replayed %d of %d scenarios" % (engine, summary["scenarios"], len(scenarios)))
    runs = summary.get("runs", 1)
    ck.traces += summary["scenarios"] * runs
    ck.evaluations += summary["calls"]
    part = {k: v for k, v in summary.items() if k != "summary"}
    ck.part("replay:%s:%s" % (name, label), **part)
    return summary, obs
