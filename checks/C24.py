"""C24 — the public-coin seed binds the proof context.
spec/air/ContextSeed.tla: Seed(c) is the seed element vector as canonical byte strings for element
sizes 8 (f62, f64) and 16 (f128).  TLC explores the grid of valid contexts by changing exactly one
listed parameter per step (the transitions are the pairs of the property) and the metadata family
pairwise, and reports every pair whose model vectors are equal.  The harness builds every explored
context and every neighbour with the real constructors, takes Context::to_elements over f62 / f64 /
f128 and (gate) reports pairs whose REAL vectors are equal; it also compares the real vector with the
model's byte strings (agreement = the model-level exploration speaks about the code)."""
import json, os, threading
import vf

SPECDIR = os.path.join(vf.SPEC, "air")

META = dict(
    technique="TLA+ transcription of the seed vector as byte strings; TLC explores all valid contexts of a boundary-value grid with one-parameter steps and a metadata family pairwise (injectivity); every explored pair is rebuilt with the real constructors and the real to_elements vectors are compared",
    text="For element sizes 8 (f62, f64) and 16 (f128) TLC visits every valid context of a grid with 2-4 boundary values for each of the 13 listed parameters and every transition that changes exactly one parameter, plus all pairs of a metadata family (five content patterns x lengths 0..2*chunk+1 and all binary strings up to 4 bytes, on two base contexts), plus the option parameters under each of the 8 non-default pairs of batching methods; the real Context::to_elements vectors of every such pair must differ, and the real vector equals the model's byte strings on every explored context, so the model-level result (the only colliding pairs are metadata strings that differ by trailing zero bytes inside the last chunk) is a statement about the code.",
    note="Bounded to the grid values and the metadata family; batching methods and partition options are not listed in the property and are not part of the seed (batching methods are varied as background options, never stepped). Contexts are built with the public constructors (no deserialised contexts with arbitrary modulus bytes).",
    design="7/C24")

SIG_TZ = "C24 metadata trailing-zero collision"


def strip0(m):
    m = list(m)
    while m and m[-1] == 0:
        m.pop()
    return m


def signature(d):
    if d["param"] == "meta":
        if strip0(d["a"]["meta"]) == strip0(d["b"]["meta"]):
            return SIG_TZ
        return "C24 metadata collision (contents differ)"
    return "C24 collision: contexts differing only in %s" % d["param"]


def pair_key(d):
    def k(c):
        return json.dumps(c, sort_keys=True)
    return (k(d["a"]), k(d["b"]))


def run_engine(ck, binary, name, rows, mutate=None):
    """Replays the lines; returns (summary, real collisions, layout mismatches)."""
    if mutate:
        mutate(name, rows)
    wd = vf.workdir("c24")
    path = os.path.join(wd, "%s-%d.ndjson" % (name, os.getpid()))
    opath = os.path.join(wd, "%s-%d.out" % (name, os.getpid()))
    vf.write_ndjson(path, rows)
    rc, out, err = vf.run_harness(binary, ["context-seed", path], stdout_path=opath, timeout=1800)
    if rc != 0:
        raise vf.ToolError("harness context-seed failed rc=%d: %s" % (rc, err[-2000:]))
    summary, coll, layout = None, [], []
    for d in vf.read_ndjson(opath):
        if d.get("summary"):
            summary = d
        elif d["kind"] == "collision":
            coll.append(d)
        elif d["kind"] == "layout":
            layout.append(d)
        elif d["kind"] == "ctor":
            raise vf.ToolError("the real constructors reject a context the specification calls valid "
                               "(generator precondition wrong): %s" % json.dumps(d)[:600])
    os.unlink(path); os.unlink(opath)
    if summary is None:
        raise vf.ToolError("harness context-seed produced no summary")
    for d in coll:
        sig = signature(d)
        desc = "Context::to_elements over %s gives the same vector for contexts differing only in %s: %s vs %s" % (
            d["field"], d["param"], json.dumps(d["a"][d["param"]]), json.dumps(d["b"][d["param"]]))
        line = {"eb": 8 if d["field"] != "f128" else 16, "c": d["a"], "nb": [{"p": d["param"], "v": [d["b"][d["param"]]]}],
                "seed": rows[d["i"]]["seed"]}
        ck.violation(sig, desc, {"engine": "context-seed", "lines": [line], "detail": {k: d[k] for k in ("field", "param", "a", "b")}})
    ck.traces += summary["scenarios"]
    ck.evaluations += summary["ops"]
    ck.part(name, **{k: v for k, v in summary.items() if k != "summary"})
    return summary, coll, layout


def explore(ck, binary, cfg, name, mutate=None, workers=3):
    r = vf.tlc("MCContextSeed.tla", cfg, cwd=SPECDIR, workers=workers, timeout=1800)
    if not r.ok:
        raise vf.ToolError("ContextSeed exploration %s violated a design invariant (specification bug): %s" % (cfg, r.error))
    rows = r.tagged("REPLAY")
    model_coll = r.tagged("COLLISION")
    return r, rows, model_coll


def run(ck, tier, mutate=None):
    binary = vf.build_harness("airint")
    sfx = "_thorough" if tier == "thorough" else ""
    jobs = [("grid8", "GenContextSeed8%s.cfg" % sfx), ("grid16", "GenContextSeed16%s.cfg" % sfx),
            ("meta8", "GenContextMeta8.cfg"), ("meta16", "GenContextMeta16.cfg"),
            ("opt8", "GenContextOpt8.cfg"), ("opt16", "GenContextOpt16.cfg")]
    res = {}

    def work(name, cfg):
        try:
            res[name] = explore(ck, binary, cfg, name)
        except Exception as ex:
            res[name] = ex
    ths = [threading.Thread(target=work, args=j) for j in jobs]
    for t in ths:
        t.start()
    for t in ths:
        t.join()
    total_layout = 0
    params_seen = set()
    for name, cfg in jobs:
        if isinstance(res[name], Exception):
            raise res[name]
        r, rows, model_coll = res[name]
        ck.add_tlc(name, r)
        ck.require(len(rows) >= 100, "%s: too few contexts explored: %d" % (name, len(rows)))
        for x in rows[:2000]:
            params_seen.update(n["p"] for n in x["nb"])
        summary, coll, layout = run_engine(ck, binary, name, rows, mutate)
        total_layout += len(layout)
        nfields = 2 if name.endswith("8") else 1
        ck.part(name, contexts=len(rows), model_collisions=len(model_coll))
        if layout:
            vf.log("NOTE C24 %s: the real seed vector differs from the model's byte strings on %d contexts (e.g. %s); "
                   "not a violation by itself, pairs are still compared on the real vectors"
                   % (name, len(layout), json.dumps({k: layout[0][k] for k in ("field", "c", "model", "real")})[:700]))
            ck.part(name, layout_example={k: layout[0][k] for k in ("field", "c", "model", "real")})
        else:
            # the model agrees with the code everywhere, so its colliding pairs must be exactly the real ones
            real = set((d["field"],) + pair_key(d) for d in coll)
            model = set(pair_key(d) for d in model_coll)
            fields = ["f62", "f64"] if nfields == 2 else ["f128"]
            expect = set((f,) + k for f in fields for k in model)
            if real != expect and mutate is None:
                raise vf.ToolError("%s: model and code agree on every vector but not on the colliding pairs "
                                   "(%d real, %d expected) — harness or specification bug" % (name, len(real), len(expect)))
        if name == "grid8":
            x = dict(rows[len(rows) // 2]); x["nb"] = x["nb"][:4] + ["..."]
            ck.sample(x)
        if name == "meta16":
            x = dict(rows[40]); x["nb"] = "<%d other members of the family>" % len(x["nb"])
            ck.sample(x)
    ck.require(params_seen >= {"mw", "aw", "ar", "le", "meta", "mod", "nc", "ext", "blow", "fold", "rem", "grind", "q"},
               "not every listed parameter is varied: %s" % sorted(params_seen))
    ck.bounds = {"grid": "quick: 2-3 boundary values per parameter; thorough: 3-4 (see MCContextSeed.tla)",
                 "element_fields": ["f62", "f64", "f128"], "modulus_fields": "f62,f64 (8-byte elements); f62,f64,f128 (16-byte elements)",
                 "metadata_family": "patterns zero/one/first/alt/edge x lengths 0..2*chunk+1, all binary strings of length <= 4, two base contexts"}
    ck.exhaustive = (total_layout == 0)
    ck.assumptions = ["exhaustive within the stated grid and family only",
                      "pairs differ in exactly one listed parameter (the quantifier of the property)"]


def replay(ck, path):
    binary = vf.build_harness("airint")
    obj = json.load(open(path))["replay"]
    run_engine(ck, binary, "replay", obj["lines"])
