"""C13 — polynomial helpers compute the documented results.
spec/math/Poly.tla states the meaning of every function of winter_math::polynom with the textbook
operators of spec/lib/PolyP.tla over the toy fields of FieldP.tla; TLC enumerates every case below the
bounds of the .cfg (all coefficient vectors over {0,1,2,p-1} and their extension analogues, every
divisor of every admissible degree, x^a - b for a = 1..4, root lists with repeats, every tuple of
distinct abscissae, ...) plus seeded random longer cases, and prints each case with its COMPLETE
expected outputs; the harness calls the real functions over the toy field types and compares."""
import json, os, collections
import vf

SPECDIR = os.path.join(vf.SPEC, "math")
OPS = ["eval", "arith", "scalar", "div", "syn", "synroots", "interp", "interpb", "roots", "deg"]

META = dict(
    technique="TLA+ denotational specification of polynom::* over toy prime fields and their quadratic/cubic extensions; TLC enumerates the case space and computes complete expected outputs (Generate->Replay), the real generic code is instantiated over the same toy fields and compared value by value",
    text="Every public function of math/src/polynom/mod.rs is run on every TLC-enumerated input below the bounds (coefficients from {0,1,2,p-1}, all lengths up to the bound incl. empty/zero/leading-zero padded vectors, every admissible divisor, x^a-b with a<=4, products of linear factors with repeated and zero roots, all tuples of distinct abscissae incl. 0, all 97 evaluation points) over F_97, F_97^2, F_97^3 and on seeded random full-range cases over F_97, F_257, F_40961 and extensions; expected values come only from the schoolbook definitions in PolyP.tla, which also assert their defining equations (a = q*b + r, interpolant passes through the points).",
    note="Toy fields stand in for the production fields (the code is field-generic; concrete field arithmetic is C10). Lengths are bounded (enumeration <= 6, random <= 24). mul(&[], &[]) is outside the documented contract (documented length -1) and is not generated.",
    design="7/C13")


def classify(sc, call):
    """input class used in violation signatures (kept coarse and stable)"""
    if call == "polynom::div":
        return "a=[]" if sc.get("a") == [] else "a!=[]"
    if call == "polynom::interpolate":
        d = sc.get("d", 1)
        zero = 0 if d == 1 else [0] * d
        return "zero_x" if any(x == zero for x in sc.get("xs", [])) else "nonzero_xs"
    return "P=%s,d=%s" % (sc.get("P"), sc.get("d", sc.get("de")))


def replay_scenarios(ck, binary, name, scenarios, label=None):
    wd = vf.workdir("c13")
    path = os.path.join(wd, "%s-%d.ndjson" % (name, os.getpid()))
    vf.write_ndjson(path, scenarios)
    rc, out, err = vf.run_harness(binary, ["poly", path], timeout=900)
    if rc != 0:
        raise vf.ToolError("harness poly failed rc=%d: %s" % (rc, err[-2000:]))
    summary = None
    for ln in out.splitlines():
        d = json.loads(ln)
        if d.get("summary"):
            summary = d
            continue
        sc = scenarios[d["i"]]
        det = d["detail"]
        got = "panic" if det["got"] == "panic" else "wrong"
        sig = "%s[%s] expected=ok got=%s" % (det["call"], classify(sc, det["call"]), got)
        ck.violation(sig, json.dumps({"scenario": sc, "detail": det})[:1500],
                     {"engine": "poly", "scenario": sc, "detail": det})
    if summary is None:
        raise vf.ToolError("harness produced no summary")
    os.unlink(path)
    ck.traces += summary["scenarios"]
    ck.evaluations += summary["calls"]
    ck.part(label or name, scenarios=summary["scenarios"], calls=summary["calls"], mismatches=summary["mismatches"])
    return summary


def run(ck, tier):
    thorough = tier == "thorough"
    binary = vf.build_harness("math")
    cfg = "GenPoly_thorough.cfg" if thorough else "GenPoly.cfg"
    r = vf.tlc("Poly.tla", cfg, cwd=SPECDIR, workers=4, timeout=3000 if thorough else 600,
               env={"SEED": ck.seed % 40009})
    if not r.ok:
        raise vf.ToolError("TLC failed on Poly.tla (specification bug): %s" % r.error)
    ck.add_tlc("gen", r)
    sc = r.tagged("REPLAY")
    per_op = collections.Counter(s["op"] for s in sc)
    for op in OPS:
        ck.require(per_op[op] >= 100, "too few %s cases generated: %d" % (op, per_op[op]))
    ck.require(len(sc) > 50000, "generator printed too few cases: %d" % len(sc))
    ck.part("gen", cases_per_op=dict(per_op))
    seen = set()
    for s in sc:
        if s["op"] not in seen and len(json.dumps(s)) < 400 and s.get("exp", s.get("add")) not in ([], None):
            seen.add(s["op"])
            ck.sample(s, limit=10)
    replay_scenarios(ck, binary, "gen", sc, "replay:release")
    if thorough:
        # same cases with debug assertions and overflow checks on (what `cargo test` runs)
        dev = vf.build_harness("math", profile="dev")
        replay_scenarios(ck, dev, "gen-dev", sc, "replay:dev")
    ck.bounds = {"enumerated": "see spec/math/%s: coefficients {0,1,2,p-1} (extension analogues), lengths up to the L* constants, over F_97, F_97^2, F_97^3" % cfg,
                 "random": "NRand cases per operation over 7 fields (97, 97^2, 97^3, 257, 257^2, 40961, 40961^3), seeded by VERIF_SEED"}
    ck.exhaustive = False
    ck.assumptions = ["the toy field types of harness/common/src/toy.rs implement FieldP.tla's arithmetic (cross-checked by every case that passes)",
                      "expected values are those of PolyP.tla's schoolbook operators, which assert their defining equations",
                      "documented preconditions of polynom::* are part of the generator"]


def replay(ck, path):
    binary = vf.build_harness("math")
    obj = json.load(open(path))
    replay_scenarios(ck, binary, "replay", [obj["replay"]["scenario"]])
