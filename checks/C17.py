"""C17 — hash padding separates inputs of different length.

spec/hash/Padding.tla (on Sponge.tla with the permutation free, and on the byte layout of the byte
hashers): TLC checks, per (hasher, entry point), that the NORMAL FORM of a call — the sequence of
pre-permutation states as a function of the unknown permutation outputs, resp. the byte string handed to
the primitive — is injective on a whole structured family of inputs (prefixes, zero-extensions by bytes /
elements / digests, every length around multiples of 7 bytes and of the rate, one run of elements cut at
different digest boundaries, integers x, x+p, x+2p.., the empty input); injectivity on the family is the
statement for EVERY pair of distinct members.  Every member is then hashed by the real hasher
(`wf-rescue distinct`): digests within a family must be pairwise different.  A spec-level collision is
a design finding and becomes a violation only when the real digests agree too.
"""
import json, os
import vf

SPECDIR = os.path.join(vf.SPEC, "hash")
ALL = ["rp64", "jive", "rp62", "b256", "b192", "sha3"]
OPS = ["hash", "hash_elements", "merge", "merge_many", "merge_with_int"]

META = dict(
    technique="TLC model checking of normal-form injectivity over structured input families on the symbolic sponge (free permutation) and on the byte layouts + replay of every family member on the real hashers (pairwise distinct digests)",
    text="For each of 6 hashers x 5 entry points (hash_elements once per element degree 1, 2, 3) TLC enumerates the family (byte strings of all lengths 0..72 (0..340) in 4 content kinds each zero-extended by 10 (11) amounts around chunk/rate multiples; element lists = 0..3 zeros + run of 0..10 (0..48) pool elements + 0..9 (0..17) zeros; the same cut into digests; seeds x integers x+k*p) and checks that no two distinct members share the normal form that determines the digest under an ideal permutation / primitive; all members (27k quick, ~150k thorough) are hashed by the real code and must give pairwise different digests.",
    note="Collision freedom is relative to an ideal permutation / primitive (accidental collisions have probability < 2^-60 and are not modelled); families are exhaustive within the stated bounds, inputs outside the families are not covered; byte hashers are instantiated over the 64-bit field.",
    design="7/C17")

def harness_binary():
    """vf.build_harness copies the binary over harness/bin/wf-rescue-*; when another check of this group
    (C16 / C17 share the crate) is executing that file the copy fails with ETXTBSY: use a private copy."""
    try:
        return vf.build_harness("rescue")
    except OSError as e:
        if e.errno != 26:
            raise
        import shutil
        src = os.path.join(vf.HARNESS, "target", "release", "wf-rescue")
        dst = os.path.join(vf.workdir("bin"), "wf-rescue-%d" % os.getpid())
        shutil.copy2(src, dst)
        return dst



def case_class(c):
    op = c["op"]
    if op == "hash":
        n = len(c["bytes"])
        return ("len>=57" if n >= 57 else "len<57") + (" len%7==0" if n % 7 == 0 else " len%7!=0")
    if op == "hash_elements":
        return "deg=%d n=%d" % (c.get("deg", 1), len(c["elems"]) // c.get("deg", 1))
    if op in ("merge", "merge_many"):
        return "k=%d" % len(c["ds"])
    return "int=%s" % "".join("%02x" % b for b in reversed(c["int"]))


def run_distinct(binary, name, cases):
    wd = vf.workdir("c17")
    path = os.path.join(wd, "%s-%d.ndjson" % (name, os.getpid()))
    vf.write_ndjson(path, cases)
    rc, out, err = vf.run_harness(binary, ["distinct", path], timeout=1800)
    os.unlink(path)
    if rc != 0:
        raise vf.ToolError("harness distinct failed rc=%d: %s" % (rc, err[-2000:]))
    rows = [json.loads(ln) for ln in out.splitlines() if ln.strip()]
    summary = [r for r in rows if r.get("summary")]
    if not summary:
        raise vf.ToolError("harness distinct produced no summary")
    for r in rows:
        if "tool_error" in r:
            raise vf.ToolError("harness could not interpret case %d: %s" % (r["i"], r["tool_error"]))
    return [r for r in rows if not r.get("summary")], summary[0]


def report(ck, cases, findings):
    for d in findings:
        c = cases[d["i"]]
        if d["kind"] == "panic":
            loc = " @" + d["panic"].split(": ")[0].replace("/repo/", "").rsplit(":", 1)[0]
            ck.violation("%s.%s panic %s%s" % (c["h"], c["op"], case_class(c), loc),
                         "%s.%s(%s) has no digest: %s" % (c["h"], c["op"], case_class(c), d["panic"]),
                         {"engine": "distinct", "cases": [c]})
        else:
            o = cases[d["j"]]
            ck.violation("%s.%s equal digests %s vs %s" % (c["h"], c["op"], case_class(o), case_class(c)),
                         "two different inputs of %s.%s have the same digest: %s / %s" % (c["h"], c["op"],
                                                                                          json.dumps(o)[:300], json.dumps(c)[:300]),
                         {"engine": "distinct", "cases": [o, c]})


def run(ck, tier):
    binary = harness_binary()
    thorough = tier == "thorough"
    r = vf.tlc("MCPadding.tla", "MCPadding_thorough.cfg" if thorough else "MCPadding.cfg", cwd=SPECDIR,
               workers=4, timeout=2400 if thorough else 600, heap="8g" if thorough else "4g")
    ck.add_tlc("padding", r)
    if not r.ok:
        raise vf.ToolError("Padding.tla did not complete: %s\n%s" % (r.error, r.raw[-1500:]))
    fams = r.tagged("FAMILY")
    collisions = r.tagged("COLLISION")
    cases = r.tagged("REPLAY")
    nfam = len(ALL) * (len(OPS) + 2)        # hash_elements has one family per element degree 1, 2, 3
    ck.require(r.distinct == nfam, "TLC explored %d families, expected %d" % (r.distinct, nfam))
    fkey = lambda c: (c["h"], c["op"], c.get("deg", 1))
    ck.require(len(fams) + len({fkey(c["x"]) for c in collisions}) == nfam,
               "a family reported neither separation nor a collision")
    per = {}
    for c in cases:
        per[fkey(c)] = per.get(fkey(c), 0) + 1
    for f in fams:
        ck.require(per.get(fkey(f), 0) == f["members"],
                   "family %s.%s/%d: %d members printed, %d checked" % (f["h"], f["op"], f["deg"], per.get(fkey(f), 0), f["members"]))
    for h in ALL:
        for op, deg, lo in (("hash", 1, 2000), ("hash_elements", 1, 1000), ("hash_elements", 2, 300), ("hash_elements", 3, 200),
                            ("merge", 1, 40), ("merge_many", 1, 200), ("merge_with_int", 1, 20)):
            ck.require(per.get((h, op, deg), 0) >= lo, "family %s.%s/%d has only %d members" % (h, op, deg, per.get((h, op, deg), 0)))
    pairs = sum(n * (n - 1) // 2 for n in per.values())
    # every member on the real hashers
    findings, summary = run_distinct(binary, "families", cases)
    report(ck, cases, findings)
    ck.traces += summary["cases"]
    ck.evaluations += pairs
    ck.part("families", members=summary["cases"], hashed=summary["hashed"], panics=summary["panics"], equal_digests=summary["equal"],
            pairs_covered=pairs, per_family={"%s.%s/%d" % k: v for k, v in sorted(per.items())})
    ck.require(summary["hashed"] > 0.8 * summary["cases"], "too few members produced a digest")
    # spec-level collisions: design findings, confirmed on the real code before they count
    for col in collisions[:50]:
        f2, s2 = run_distinct(binary, "collision", [col["x"], col["y"]])
        if s2["equal"] == 1:
            x, y = col["x"], col["y"]
            ck.violation("%s.%s structural collision %s vs %s" % (x["h"], x["op"], case_class(x), case_class(y)),
                         "the documented padding maps two inputs to the same pre-permutation states AND the real digests agree: %s / %s"
                         % (json.dumps(x)[:300], json.dumps(y)[:300]), {"engine": "distinct", "cases": [x, y]})
        elif s2["panics"] == 0:
            raise vf.ToolError("Padding.tla reports a collision the real hasher does not have (specification bug): %s"
                               % json.dumps(col)[:600])
    ck.part("design", structural_collisions=len(collisions))
    for c in cases:
        if c["op"] == "merge_with_int" and c["h"] == "rp62":
            ck.sample(c)
            break
    for c in cases:
        if c["op"] == "hash" and c["h"] == "jive" and len(c["bytes"]) == 29:
            ck.sample(c)
            break
    ck.bounds = {"hash": "4 content kinds x base length 0..%d x zero extension in {0} + %s" % (340 if thorough else 72, "ExtThorough" if thorough else "ExtQuick"),
                 "elements": "0..3 leading zeros + run 0..%d of 4 pools + 0..%d trailing zeros (hash_elements; multiples of 4 as merge_many; 8 as merge)" % ((48, 17) if thorough else (10, 9)),
                 "merge_with_int": "2 seeds x {x + k*p : x in 0,1,2,2^32-2,2^32-3, k*p < 2^64} + k*p-1 + 2^32, 2^63, 2^64-1",
                 "pairs": pairs}
    ck.exhaustive = True
    ck.assumptions = ["ideal (random, bijective) permutation / ideal primitive: equal digests only from equal normal forms",
                      "pairs are taken within one entry point of one hasher (merge vs hash_elements etc. coincide by documentation)"]


def replay(ck, path):
    binary = harness_binary()
    obj = json.load(open(path))["replay"]
    cases = obj["cases"]
    findings, summary = run_distinct(binary, "replay", cases)
    report(ck, cases, findings)
    ck.traces += len(cases)
