//! C24: the seed element vector of a proof context.
//! Each scenario line (spec/air/ContextSeed.tla) is a context `c`, the list `nb` of contexts that
//! differ from it in exactly one listed parameter, and the model's seed vector as byte strings.
//! For every element field E with ELEMENT_BYTES = eb the engine builds the real contexts with the
//! public constructors, takes `ToElements::<E>::to_elements`, and reports
//!   * kind "collision": a pair (c, neighbour) whose REAL vectors are equal        (gates)
//!   * kind "layout":    the real vector of c differs from the model's byte strings (model agreement)
//!   * kind "ctor":      a constructor or to_elements panicked on a context the spec calls valid
use serde_json::{json, Value};
use winter_air::{proof::Context, BatchingMethod, FieldExtension, ProofOptions, TraceInfo};
use winter_math::{
    fields::{f128, f62, f64},
    StarkField, ToElements,
};

use wfcommon::util::{bytes_of, catch, read_ndjson, Out};

fn us(v: &Value) -> usize {
    v.as_u64().unwrap_or(0) as usize
}

fn batching(k: usize) -> BatchingMethod {
    match k {
        0 => BatchingMethod::Linear,
        1 => BatchingMethod::Algebraic,
        _ => BatchingMethod::Horner,
    }
}

fn build(c: &Value) -> Context {
    let ext = match us(&c["ext"]) {
        1 => FieldExtension::None,
        2 => FieldExtension::Quadratic,
        _ => FieldExtension::Cubic,
    };
    let options = ProofOptions::new(us(&c["q"]), us(&c["blow"]), us(&c["grind"]) as u32, ext, us(&c["fold"]), us(&c["rem"]),
        batching(us(&c["cb"])), batching(us(&c["db"])));
    let ti = TraceInfo::new_multi_segment(us(&c["mw"]), us(&c["aw"]), us(&c["ar"]), 1usize << us(&c["le"]), bytes_of(&c["meta"]));
    let nc = us(&c["nc"]);
    match c["mod"].as_str().unwrap_or("") {
        "f62" => Context::new::<f62::BaseElement>(ti, options, nc),
        "f64" => Context::new::<f64::BaseElement>(ti, options, nc),
        "f128" => Context::new::<f128::BaseElement>(ti, options, nc),
        m => panic!("harness: unknown field {m}"),
    }
}

/// canonical little-endian bytes of every element of the seed vector
fn seed<E: StarkField>(c: &Value) -> Result<Vec<Vec<u8>>, String> {
    catch(|| {
        let ctx = build(c);
        let v: Vec<E> = ctx.to_elements();
        v.iter().map(|e| e.to_bytes()).collect()
    })
}

fn with_param(c: &Value, p: &str, v: &Value) -> Value {
    let mut d = c.clone();
    d[p] = v.clone();
    d
}

fn run_field<E: StarkField>(name: &str, i: usize, ln: &Value, out: &mut Out, stats: &mut [usize; 4]) {
    let c = &ln["c"];
    let real = match seed::<E>(c) {
        Ok(v) => v,
        Err(p) => {
            stats[3] += 1;
            out.emit(&json!({"i": i, "kind": "ctor", "field": name, "c": c, "panic": p}));
            return;
        },
    };
    stats[0] += 1;
    let model: Vec<Vec<u8>> = ln["seed"].as_array().map(|a| a.iter().map(bytes_of).collect()).unwrap_or_default();
    if real != model {
        stats[2] += 1;
        out.emit(&json!({"i": i, "kind": "layout", "field": name, "c": c, "model": ln["seed"], "real": real}));
    }
    for nb in ln["nb"].as_array().cloned().unwrap_or_default() {
        let p = nb["p"].as_str().unwrap_or("");
        let d = with_param(c, p, &nb["v"][0]);
        stats[0] += 1;
        match seed::<E>(&d) {
            Ok(v) => {
                if v == real {
                    stats[1] += 1;
                    out.emit(&json!({"i": i, "kind": "collision", "field": name, "param": p, "a": c, "b": d}));
                }
            },
            Err(pm) => {
                stats[3] += 1;
                out.emit(&json!({"i": i, "kind": "ctor", "field": name, "c": d, "panic": pm}));
            },
        }
    }
}

pub fn main(args: &[String]) -> i32 {
    let lines = read_ndjson(&args[0]);
    let mut out = Out::new();
    // [vectors computed, collisions, layout mismatches, constructor panics]
    let mut stats = [0usize; 4];
    let mut pairs = 0usize;
    for (i, ln) in lines.iter().enumerate() {
        pairs += ln["nb"].as_array().map(|a| a.len()).unwrap_or(0);
        match us(&ln["eb"]) {
            8 => {
                run_field::<f62::BaseElement>("f62", i, ln, &mut out, &mut stats);
                run_field::<f64::BaseElement>("f64", i, ln, &mut out, &mut stats);
            },
            16 => run_field::<f128::BaseElement>("f128", i, ln, &mut out, &mut stats),
            eb => {
                eprintln!("unsupported element size {eb}");
                return 2;
            },
        }
    }
    out.emit(&json!({"summary": true, "scenarios": lines.len(), "pairs": pairs, "ops": stats[0], "collisions": stats[1],
        "layout_mismatches": stats[2], "ctor_panics": stats[3]}));
    out.flush();
    0
}
