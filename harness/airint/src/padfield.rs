//! `Pad<P, N>`: a custom `StarkField` over the toy prime P (a newtype of `wfcommon::toy::Toy<P, false>`,
//! all arithmetic delegated) whose `get_modulus_le_bytes()` returns the modulus in N little-endian
//! bytes with zero high bytes — what `MODULUS.to_le_bytes()` gives for a small modulus kept in a wide
//! integer type.  Used by C25: the security estimates must depend on the modulus VALUE, not on the
//! length of its encoding.
use core::{
    fmt::{Debug, Display, Formatter},
    ops::{Add, AddAssign, Div, DivAssign, Mul, MulAssign, Neg, Sub, SubAssign},
    slice,
};

use wfcommon::toy::Toy;
use winter_math::{FieldElement, StarkField};
use winter_utils::{AsBytes, ByteReader, ByteWriter, Deserializable, DeserializationError, Randomizable, Serializable};

type T<const P: u32> = Toy<P, false>;

#[derive(Copy, Clone, Default, PartialEq, Eq)]
#[repr(transparent)]
pub struct Pad<const P: u32, const N: usize>(T<P>);

macro_rules! binop {
    ($tr:ident, $f:ident, $tra:ident, $fa:ident) => {
        impl<const P: u32, const N: usize> $tr for Pad<P, N> {
            type Output = Self;
            fn $f(self, rhs: Self) -> Self {
                Pad($tr::$f(self.0, rhs.0))
            }
        }
        impl<const P: u32, const N: usize> $tra for Pad<P, N> {
            fn $fa(&mut self, rhs: Self) {
                *self = $tr::$f(*self, rhs);
            }
        }
    };
}
binop!(Add, add, AddAssign, add_assign);
binop!(Sub, sub, SubAssign, sub_assign);
binop!(Mul, mul, MulAssign, mul_assign);
binop!(Div, div, DivAssign, div_assign);

impl<const P: u32, const N: usize> Neg for Pad<P, N> {
    type Output = Self;
    fn neg(self) -> Self {
        Pad(-self.0)
    }
}

macro_rules! from_int {
    ($t:ty) => {
        impl<const P: u32, const N: usize> From<$t> for Pad<P, N> {
            fn from(v: $t) -> Self {
                Pad(T::<P>::from(v))
            }
        }
    };
}
from_int!(u32);
from_int!(u16);
from_int!(u8);

macro_rules! try_from_int {
    ($t:ty) => {
        impl<const P: u32, const N: usize> TryFrom<$t> for Pad<P, N> {
            type Error = <T<P> as TryFrom<$t>>::Error;
            fn try_from(v: $t) -> Result<Self, Self::Error> {
                T::<P>::try_from(v).map(Pad)
            }
        }
    };
}
try_from_int!(u64);
try_from_int!(u128);

impl<'a, const P: u32, const N: usize> TryFrom<&'a [u8]> for Pad<P, N> {
    type Error = DeserializationError;
    fn try_from(bytes: &[u8]) -> Result<Self, Self::Error> {
        T::<P>::try_from(bytes).map(Pad)
    }
}

impl<const P: u32, const N: usize> Debug for Pad<P, N> {
    fn fmt(&self, f: &mut Formatter<'_>) -> core::fmt::Result {
        Debug::fmt(&self.0, f)
    }
}
impl<const P: u32, const N: usize> Display for Pad<P, N> {
    fn fmt(&self, f: &mut Formatter<'_>) -> core::fmt::Result {
        Display::fmt(&self.0, f)
    }
}

impl<const P: u32, const N: usize> AsBytes for Pad<P, N> {
    fn as_bytes(&self) -> &[u8] {
        self.0.as_bytes()
    }
}
impl<const P: u32, const N: usize> Randomizable for Pad<P, N> {
    const VALUE_SIZE: usize = <T<P> as Randomizable>::VALUE_SIZE;
    fn from_random_bytes(bytes: &[u8]) -> Option<Self> {
        T::<P>::from_random_bytes(bytes).map(Pad)
    }
}
impl<const P: u32, const N: usize> Serializable for Pad<P, N> {
    fn write_into<W: ByteWriter>(&self, target: &mut W) {
        self.0.write_into(target)
    }
}
impl<const P: u32, const N: usize> Deserializable for Pad<P, N> {
    fn read_from<R: ByteReader>(source: &mut R) -> Result<Self, DeserializationError> {
        T::<P>::read_from(source).map(Pad)
    }
}

impl<const P: u32, const N: usize> FieldElement for Pad<P, N> {
    type PositiveInteger = u64;
    type BaseField = Self;

    const EXTENSION_DEGREE: usize = 1;
    const ELEMENT_BYTES: usize = <T<P> as FieldElement>::ELEMENT_BYTES;
    const IS_CANONICAL: bool = true;
    const ZERO: Self = Pad(<T<P> as FieldElement>::ZERO);
    const ONE: Self = Pad(<T<P> as FieldElement>::ONE);

    fn inv(self) -> Self {
        Pad(self.0.inv())
    }
    fn conjugate(&self) -> Self {
        *self
    }
    fn base_element(&self, i: usize) -> Self {
        match i {
            0 => *self,
            _ => panic!("element index must be 0, but was {i}"),
        }
    }
    fn slice_as_base_elements(elements: &[Self]) -> &[Self] {
        elements
    }
    fn slice_from_base_elements(elements: &[Self]) -> &[Self] {
        elements
    }
    fn elements_as_bytes(elements: &[Self]) -> &[u8] {
        // repr(transparent) over Toy, which is repr(transparent) over u32
        let inner = unsafe { slice::from_raw_parts(elements.as_ptr() as *const T<P>, elements.len()) };
        T::<P>::elements_as_bytes(inner)
    }
    unsafe fn bytes_as_elements(bytes: &[u8]) -> Result<&[Self], DeserializationError> {
        let inner = T::<P>::bytes_as_elements(bytes)?;
        Ok(slice::from_raw_parts(inner.as_ptr() as *const Self, inner.len()))
    }
}

impl<const P: u32, const N: usize> StarkField for Pad<P, N> {
    const MODULUS: u64 = <T<P> as StarkField>::MODULUS;
    const MODULUS_BITS: u32 = <T<P> as StarkField>::MODULUS_BITS;
    const GENERATOR: Self = Pad(<T<P> as StarkField>::GENERATOR);
    const TWO_ADICITY: u32 = <T<P> as StarkField>::TWO_ADICITY;
    const TWO_ADIC_ROOT_OF_UNITY: Self = Pad(<T<P> as StarkField>::TWO_ADIC_ROOT_OF_UNITY);

    /// The modulus in N little-endian bytes (zero high bytes).
    fn get_modulus_le_bytes() -> Vec<u8> {
        let mut b = (P as u128).to_le_bytes().to_vec();
        b.truncate(N);
        b
    }
    fn as_int(&self) -> u64 {
        self.0.as_int()
    }
}
