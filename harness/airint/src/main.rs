//! wf-airint — engines for the integer-level AIR properties (C21, C24, C25).
#![allow(clippy::all)]
mod assertions;
mod context;
mod padfield;
mod security;

fn main() {
    let args: Vec<String> = std::env::args().collect();
    wfcommon::util::install_quiet_panic_hook();
    let code = match args.get(1).map(|s| s.as_str()) {
        Some("assertions") => assertions::main(&args[2..]),
        Some("assertion-sets") => assertions::main_sets(&args[2..]),
        Some("assertion-ctor") => assertions::main_ctor(&args[2..]),
        Some("context-seed") => context::main(&args[2..]),
        Some("security-lines") => security::main_lines(&args[2..]),
        Some("security-record") => security::main_record(&args[2..]),
        Some("security-optsets") => security::main_optsets(&args[2..]),
        _ => {
            eprintln!("usage: wf-airint <engine> <scenarios.ndjson> ...");
            2
        },
    };
    std::process::exit(code);
}
