//! C21: replay the scenario lines generated from spec/air/Assertions.tla on the real
//! `winter_air::Assertion` / `BoundaryConstraints::new`. Every expectation (fits, steps, values,
//! overlap code, accept/reject) comes from the specification; this file only drives the API and
//! compares plain values.
use serde_json::{json, Value};
use winter_air::{
    Assertion, AirContext, BatchingMethod, BoundaryConstraints, FieldExtension, ProofOptions, TraceInfo,
    TransitionConstraintDegree,
};
use winter_math::{fields::f128::BaseElement, FieldElement, StarkField};

use wfcommon::util::{catch, read_ndjson, Out};

type A = Assertion<BaseElement>;

fn us(v: &Value) -> usize {
    v.as_u64().unwrap_or(0) as usize
}

/// Calls the constructor named by the scenario; values are the ones the specification assumes
/// (`Val`): 7 for single/periodic, 100, 101, ... for sequences.
fn construct(a: &Value) -> Result<A, String> {
    let (col, first, stride, n) = (us(&a["col"]), us(&a["first"]), us(&a["stride"]), us(&a["n"]));
    match a["k"].as_str().unwrap_or("") {
        "single" => catch(|| A::single(col, first, BaseElement::new(7))),
        "periodic" => catch(|| A::periodic(col, first, stride, BaseElement::new(7))),
        "sequence" => {
            let values: Vec<BaseElement> = (0..n).map(|k| BaseElement::new(100 + k as u128)).collect();
            catch(|| A::sequence(col, first, stride, values))
        },
        // a sequence assertion with a constant value vector
        "cseq" => {
            let values: Vec<BaseElement> = vec![BaseElement::new(7); n];
            catch(|| A::sequence(col, first, stride, values))
        },
        k => Err(format!("unknown kind {k}")),
    }
}

fn pairs_json(p: &[(usize, u64)]) -> Value {
    Value::Array(p.iter().map(|(s, v)| json!([s, v])).collect())
}

pub fn main(args: &[String]) -> i32 {
    let lines = read_ndjson(&args[0]);
    let mut out = Out::new();
    let n = lines.len();
    // the universe, by index
    let mut uni: Vec<Option<A>> = vec![None; n];
    let mut argsv: Vec<Value> = vec![Value::Null; n];
    let mut bad = 0usize;
    let mut calls = 0usize;
    let mut skipped = 0usize;
    for ln in &lines {
        let i = us(&ln["i"]);
        if i >= n || uni[i].is_some() {
            eprintln!("scenario file is not a complete universe (index {i} of {n})");
            return 2;
        }
        argsv[i] = ln["a"].clone();
        match construct(&ln["a"]) {
            Ok(a) => uni[i] = Some(a),
            // conditional family: the property does not say whether the constructor accepts these arguments
            Err(_) if ln["optional"].as_bool().unwrap_or(false) => {
                skipped += 1;
                uni[i] = None;
            },
            Err(p) => {
                bad += 1;
                out.emit(&json!({"i": i, "detail": {"call": "constructor", "a": ln["a"], "expected": "ok", "got": "panic", "panic": p}}));
                // keep the slot empty; lines referring to it are skipped
                uni[i] = None;
            },
        }
        calls += 1;
    }
    for ln in &lines {
        let i = us(&ln["i"]);
        let a = match &uni[i] {
            Some(a) => a,
            None => continue,
        };
        let mut reported: Vec<&str> = vec![];
        let mut report = |out: &mut Out, call: &'static str, d: Value| {
            if !reported.contains(&call) {
                reported.push(call);
                bad += 1;
                out.emit(&json!({"i": i, "detail": d}));
            }
        };
        // --- trace-length table -------------------------------------------------------------
        for row in ln["tbl"].as_array().cloned().unwrap_or_default() {
            let l = us(&row["L"]);
            let fits = row["fits"].as_bool().unwrap_or(false);
            let exp: Vec<(usize, u64)> = row["steps"]
                .as_array()
                .map(|v| v.iter().map(|p| (us(&p[0]), p[1].as_u64().unwrap_or(0))).collect())
                .unwrap_or_default();
            // validate_trace_length
            calls += 3;
            match catch(|| a.validate_trace_length(l).is_ok()) {
                Ok(ok) if ok == fits => {},
                Ok(ok) => report(&mut out, "validate_trace_length", json!({"call": "validate_trace_length", "a": ln["a"], "L": l,
                        "expected": if fits {"ok"} else {"err"}, "got": if ok {"ok"} else {"err"}})),
                Err(p) => report(&mut out, "validate_trace_length", json!({"call": "validate_trace_length", "a": ln["a"], "L": l,
                        "expected": if fits {"ok"} else {"err"}, "got": "panic", "panic": p})),
            }
            // get_num_steps
            let got = catch(|| a.get_num_steps(l));
            let good = match (&got, fits) {
                (Ok(k), true) => *k == exp.len(),
                (Err(_), false) => true,
                _ => false,
            };
            if !good {
                report(&mut out, "get_num_steps", json!({"call": "get_num_steps", "a": ln["a"], "L": l,
                    "expected": if fits { json!(exp.len()) } else { json!("panic") },
                    "got": match &got { Ok(k) => json!(k), Err(p) => json!(format!("panic {p}")) }}));
            }
            // apply
            let got = catch(|| {
                let mut v: Vec<(usize, u64)> = vec![];
                a.apply(l, |s, e| {
                    let x = e.as_int();
                    v.push((s, if x > u64::MAX as u128 { u64::MAX } else { x as u64 }))
                });
                v.sort();
                v
            });
            let good = match (&got, fits) {
                (Ok(v), true) => *v == exp,
                (Err(_), false) => true,
                _ => false,
            };
            if !good {
                report(&mut out, "apply", json!({"call": "apply", "a": ln["a"], "L": l,
                    "expected": if fits { pairs_json(&exp) } else { json!("panic") },
                    "got": match &got { Ok(v) => pairs_json(v), Err(p) => json!(format!("panic {p}")) }}));
            }
        }
        // --- overlaps ------------------------------------------------------------------------
        let ov = ln["ov"].as_array().cloned().unwrap_or_default();
        if ov.len() != n {
            eprintln!("overlap vector of line {i} has {} entries, universe has {n}", ov.len());
            return 2;
        }
        for (j, code) in ov.iter().enumerate() {
            let b = match &uni[j] {
                Some(b) => b,
                None => continue,
            };
            calls += 1;
            let code = code.as_u64().unwrap_or(2);
            match catch(|| a.overlaps_with(b)) {
                Ok(r) => {
                    if code != 2 && r != (code == 1) {
                        report(&mut out, "overlaps_with", json!({"call": "overlaps_with", "a": ln["a"], "b": argsv[j], "j": j,
                            "expected": code == 1, "got": r}));
                    }
                },
                Err(p) => report(&mut out, "overlaps_with", json!({"call": "overlaps_with", "a": ln["a"], "b": argsv[j], "j": j,
                            "expected": code, "got": "panic", "panic": p})),
            }
        }
    }
    out.emit(&json!({"summary": true, "scenarios": n, "ops": calls, "mismatches": bad, "not_constructible": skipped}));
    out.flush();
    0
}

pub fn main_sets(args: &[String]) -> i32 {
    let lines = read_ndjson(&args[0]);
    let mut out = Out::new();
    let mut bad = 0usize;
    let mut accepted = 0usize;
    for (i, ln) in lines.iter().enumerate() {
        let len = us(&ln["len"]);
        let width = us(&ln["width"]);
        let exp = ln["accept"].as_bool().unwrap_or(false);
        let list = ln["list"].as_array().cloned().unwrap_or_default();
        let mut asserts = vec![];
        let mut ctor_failed = None;
        for a in &list {
            match construct(a) {
                Ok(x) => asserts.push(x),
                Err(p) => ctor_failed = Some(p),
            }
        }
        if let Some(p) = ctor_failed {
            bad += 1;
            out.emit(&json!({"i": i, "detail": {"call": "constructor", "list": ln["list"], "expected": "ok", "got": "panic", "panic": p}}));
            continue;
        }
        let options = ProofOptions::new(1, 8, 0, FieldExtension::None, 2, 1, BatchingMethod::Linear, BatchingMethod::Linear);
        let ctx = AirContext::<BaseElement>::new(
            TraceInfo::new(width, len),
            vec![TransitionConstraintDegree::new(1)],
            asserts.len(),
            options,
        );
        let coeffs = vec![BaseElement::ONE; asserts.len()];
        let got = catch(|| {
            let bc = BoundaryConstraints::<BaseElement>::new(&ctx, asserts, vec![], &coeffs);
            bc.main_constraints().len()
        });
        let ok = got.is_ok();
        if ok {
            accepted += 1;
        }
        if ok != exp {
            bad += 1;
            out.emit(&json!({"i": i, "detail": {"call": "BoundaryConstraints::new", "list": ln["list"], "len": len, "width": width,
                "expected": if exp {"accept"} else {"reject"}, "got": if ok {"accept"} else {"reject"},
                "panic": got.err().unwrap_or_default()}}));
        }
    }
    out.emit(&json!({"summary": true, "scenarios": lines.len(), "ops": lines.len(), "accepted": accepted, "mismatches": bad}));
    out.flush();
    0
}

pub fn main_ctor(args: &[String]) -> i32 {
    let lines = read_ndjson(&args[0]);
    let mut out = Out::new();
    let mut bad = 0usize;
    let mut accepted = 0usize;
    for (i, ln) in lines.iter().enumerate() {
        let exp = ln["ok"].as_bool().unwrap_or(false);
        let got = construct(&ln["a"]);
        if got.is_ok() {
            accepted += 1;
        }
        if got.is_ok() != exp {
            bad += 1;
            out.emit(&json!({"i": i, "detail": {"call": "constructor", "a": ln["a"],
                "expected": if exp {"ok"} else {"panic"}, "got": if got.is_ok() {"ok"} else {"panic"},
                "panic": got.err().unwrap_or_default()}}));
        }
    }
    out.emit(&json!({"summary": true, "scenarios": lines.len(), "ops": lines.len(), "accepted": accepted, "mismatches": bad}));
    out.flush();
    0
}
