//! C25: security estimates and AcceptableOptions::validate.
//!  * `security-lines`   Generate->Replay: vectors of conjectured security computed by the TLA+ model
//!                       (spec/air/Security.tla) are compared with Proof::conjectured_security().bits().
//!  * `security-record`  Record->Validate: for grid cells chosen by TLC, tables of conjectured / proven
//!                       estimates and is_at_least / validate decisions are recorded as ndjson events;
//!                       spec/air/TraceSecurity.tla decides.
//!  * `security-optsets` Generate->Replay of AcceptableOptions::OptionSet cases.
//! A `Proof` is obtained from the public `Proof::new_dummy()` with its public `context` field replaced
//! by `Context::new::<Field>(trace_info, options, num_constraints)`; the estimates only read the context.
use serde_json::{json, Value};
use winter_air::{
    proof::{Context, Proof},
    BatchingMethod, FieldExtension, ProofOptions, TraceInfo,
};
use winter_crypto::hashers::{Blake3_192, Blake3_256, Rp62_248};
use winter_math::fields::{f128, f62, f64};
use winter_utils::{Deserializable, Serializable};
use winter_verifier::AcceptableOptions;

use wfcommon::{
    toy::{F257, F40961, F97},
    util::{bytes_of, catch, read_ndjson, Out},
};

use crate::padfield::Pad;

type H96 = Blake3_192<f64::BaseElement>;
type H128 = Blake3_256<f64::BaseElement>;
type H124 = Rp62_248;
/// a hasher with a 128-bit security level halved twice over: collision resistance 64 (what a custom
/// `Hasher` with a 128-bit digest announces); hashing itself is delegated and irrelevant here
pub struct H64;
impl winter_crypto::Hasher for H64 {
    type Digest = <H128 as winter_crypto::Hasher>::Digest;
    const COLLISION_RESISTANCE: u32 = 64;
    fn hash(bytes: &[u8]) -> Self::Digest {
        <H128 as winter_crypto::Hasher>::hash(bytes)
    }
    fn merge(values: &[Self::Digest; 2]) -> Self::Digest {
        <H128 as winter_crypto::Hasher>::merge(values)
    }
    fn merge_many(values: &[Self::Digest]) -> Self::Digest {
        <H128 as winter_crypto::Hasher>::merge_many(values)
    }
    fn merge_with_int(seed: Self::Digest, value: u64) -> Self::Digest {
        <H128 as winter_crypto::Hasher>::merge_with_int(seed, value)
    }
}

fn us(v: &Value) -> usize {
    v.as_u64().unwrap_or(0) as usize
}

fn ext(e: usize) -> FieldExtension {
    match e {
        1 => FieldExtension::None,
        2 => FieldExtension::Quadratic,
        _ => FieldExtension::Cubic,
    }
}

fn bm(x: usize) -> BatchingMethod {
    match x {
        0 => BatchingMethod::Linear,
        1 => BatchingMethod::Algebraic,
        _ => BatchingMethod::Horner,
    }
}

/// The base field of a context as the specification names it (Security.tla, `Flds`):
///  * src "new":  `Context::new::<F>` over a StarkField type F — the built-in fields, the toy fields of
///    wfcommon (minimal-length modulus bytes) and `Pad<P, N>` (small modulus kept in N bytes);
///  * src "wire": `Context::read_from` on a serialized context whose modulus field holds `mod_bytes`.
/// The caller checks that the context announces exactly `mod_bytes`.
#[derive(Clone)]
struct FieldSpec {
    fld: String,
    src: String,
    mod_bytes: Vec<u8>,
}

impl FieldSpec {
    fn of(v: &Value) -> Self {
        FieldSpec {
            fld: v["fld"].as_str().unwrap_or("").to_string(),
            src: v["src"].as_str().unwrap_or("").to_string(),
            mod_bytes: bytes_of(&v["mod"]),
        }
    }
}

fn context(f: &FieldSpec, ti: TraceInfo, options: ProofOptions, nc: usize) -> Context {
    if f.src == "wire" {
        // the byte layout of Context::write_into
        let mut bytes = Vec::new();
        ti.write_into(&mut bytes);
        bytes.push(f.mod_bytes.len() as u8);
        bytes.extend_from_slice(&f.mod_bytes);
        options.write_into(&mut bytes);
        nc.write_into(&mut bytes);
        return Context::read_from_bytes(&bytes).unwrap_or_else(|e| panic!("harness: context bytes rejected: {e}"));
    }
    match f.fld.as_str() {
        "f62" => Context::new::<f62::BaseElement>(ti, options, nc),
        "f64" => Context::new::<f64::BaseElement>(ti, options, nc),
        "f128" => Context::new::<f128::BaseElement>(ti, options, nc),
        "toy97" => Context::new::<F97>(ti, options, nc),
        "toy257" => Context::new::<F257>(ti, options, nc),
        "toy40961" => Context::new::<F40961>(ti, options, nc),
        "pad97x8" => Context::new::<Pad<97, 8>>(ti, options, nc),
        "pad257x4" => Context::new::<Pad<257, 4>>(ti, options, nc),
        "pad40961x8" => Context::new::<Pad<40961, 8>>(ti, options, nc),
        other => panic!("harness: unknown field encoding {other}"),
    }
}

/// (conjectured bits, ldr, udr) of the proof for the hasher with collision resistance `cr`
macro_rules! with_hasher {
    ($cr:expr, $h:ident => $body:expr) => {
        match $cr {
            64 => {
                type $h = H64;
                $body
            },
            96 => {
                type $h = H96;
                $body
            },
            124 => {
                type $h = H124;
                $body
            },
            128 => {
                type $h = H128;
                $body
            },
            other => panic!("harness: unsupported collision resistance {other}"),
        }
    };
}

fn conj_bits(p: &Proof, cr: usize) -> u32 {
    with_hasher!(cr, H => p.conjectured_security::<H>().bits())
}

fn conj_at_least(p: &Proof, cr: usize, m: u32) -> bool {
    with_hasher!(cr, H => p.conjectured_security::<H>().is_at_least(m))
}

fn proven(p: &Proof, cr: usize) -> (u32, u32) {
    with_hasher!(cr, H => { let s = p.proven_security::<H>(); (s.ldr_bits(), s.udr_bits()) })
}

fn proven_at_least(p: &Proof, cr: usize, m: u32) -> bool {
    with_hasher!(cr, H => p.proven_security::<H>().is_at_least(m))
}

fn validate(p: &Proof, cr: usize, a: &AcceptableOptions) -> bool {
    with_hasher!(cr, H => a.validate::<H>(p).is_ok())
}

// ------------------------------------------------------------------------------------------------
pub fn main_lines(args: &[String]) -> i32 {
    let lines = read_ndjson(&args[0]);
    let mut out = Out::new();
    let mut proof = Proof::new_dummy();
    let (mut bad, mut n) = (0usize, 0usize);
    for (i, ln) in lines.iter().enumerate() {
        let (b, e, g, fb, cr) = (us(&ln["b"]), us(&ln["e"]), us(&ln["g"]), us(&ln["fb"]), us(&ln["cr"]));
        let fs = FieldSpec::of(ln);
        let exp: Vec<u64> = ln["bits"].as_array().map(|a| a.iter().map(|x| x.as_u64().unwrap_or(0)).collect()).unwrap_or_default();
        let got = catch(|| {
            let mut v = vec![];
            for q in 1..=exp.len() {
                let options = ProofOptions::new(q, b, g as u32, ext(e), 4, 31, BatchingMethod::Linear, BatchingMethod::Linear);
                proof.context = context(&fs, TraceInfo::new(3, 16), options, 5);
                if proof.context.field_modulus_bytes() != fs.mod_bytes.as_slice() {
                    panic!("harness: context announces other modulus bytes than requested");
                }
                v.push(conj_bits(&proof, cr) as u64);
            }
            v
        });
        n += exp.len();
        match got {
            Ok(v) if v == exp => {},
            Ok(v) => {
                bad += 1;
                let q = (0..exp.len()).find(|&k| v[k] != exp[k]).unwrap_or(0);
                out.emit(&json!({"i": i, "detail": {"call": "conjectured_security.bits", "b": b, "e": e, "g": g, "fld": fs.fld, "fb": fb, "cr": cr,
                    "q": q + 1, "expected": exp[q], "got": v[q], "positions": (0..exp.len()).filter(|&k| v[k] != exp[k]).count()}}));
            },
            Err(p) => {
                bad += 1;
                out.emit(&json!({"i": i, "detail": {"call": "conjectured_security.bits", "b": b, "e": e, "g": g, "fld": fs.fld, "fb": fb, "cr": cr,
                    "q": 0, "expected": "values", "got": "panic", "panic": p}}));
            },
        }
    }
    out.emit(&json!({"summary": true, "scenarios": lines.len(), "ops": n, "mismatches": bad}));
    out.flush();
    0
}

// ------------------------------------------------------------------------------------------------
const DEC_QS: [usize; 14] = [1, 2, 19, 20, 27, 40, 41, 79, 80, 100, 119, 150, 254, 255];

fn record_cell(cell: &Value, gs: &[usize], nq: usize) -> Value {
    let (b, cr) = (us(&cell["b"]), us(&cell["cr"]));
    let fs = FieldSpec::of(cell);
    let fbits = us(&cell["fbits"]) as u32;
    let mut announced: Vec<u8> = vec![];
    let (ll, nc, w) = (us(&cell["ll"]), us(&cell["nc"]), us(&cell["w"]));
    let (fold, rem, bc, bd) = (us(&cell["fold"]), us(&cell["rem"]), us(&cell["bc"]), us(&cell["bd"]));
    let mut proof = Proof::new_dummy();
    let mut conj = vec![];
    let mut ldr = vec![];
    let mut udr = vec![];
    let mut dec = vec![];
    let dec_gis: Vec<usize> = vec![0, gs.len() / 2, gs.len() - 1];
    for e in 1..=3usize {
        let (mut ce, mut le, mut ue) = (vec![], vec![], vec![]);
        for (gi, &g) in gs.iter().enumerate() {
            let (mut cg, mut lg, mut ug) = (vec![], vec![], vec![]);
            for q in 1..=nq {
                let options = ProofOptions::new(q, b, g as u32, ext(e), fold, rem, bm(bc), bm(bd));
                proof.context = context(&fs, TraceInfo::new(w, 1usize << ll), options, nc);
                if announced.is_empty() {
                    announced = proof.context.field_modulus_bytes().to_vec();
                }
                let c = conj_bits(&proof, cr);
                let (l, u) = proven(&proof, cr);
                cg.push(c);
                lg.push(l);
                ug.push(u);
                if DEC_QS.contains(&q) && dec_gis.contains(&gi) {
                    for (k, v) in [("conj", c), ("proven", l.max(u))] {
                        // thresholds around the estimate, the collision resistance and the size of the
                        // extension field (fbits comes from the specification: bit length of the modulus value)
                        let fe = fbits * e as u32;
                        let mut ms = vec![0, v.saturating_sub(1), v, v + 1, cr as u32, cr as u32 + 1, (1u32 << 31) - 1,
                            fe.saturating_sub(1), fe, fe + 1];
                        ms.sort();
                        ms.dedup();
                        for m in ms {
                            let (al, ok) = if k == "conj" {
                                (conj_at_least(&proof, cr, m), validate(&proof, cr, &AcceptableOptions::MinConjecturedSecurity(m)))
                            } else {
                                (proven_at_least(&proof, cr, m), validate(&proof, cr, &AcceptableOptions::MinProvenSecurity(m)))
                            };
                            dec.push(json!({"k": k, "e": e, "gi": gi + 1, "qi": q, "m": m, "al": al, "ok": ok}));
                        }
                    }
                }
            }
            ce.push(cg);
            le.push(lg);
            ue.push(ug);
        }
        conj.push(ce);
        ldr.push(le);
        udr.push(ue);
    }
    json!({"cell": cell, "gs": gs, "nq": nq, "mod": announced, "conj": conj, "ldr": ldr, "udr": udr, "dec": dec})
}

pub fn main_record(args: &[String]) -> i32 {
    let cells = read_ndjson(&args[0]);
    let gs: Vec<usize> = args[1].split(',').map(|x| x.parse().unwrap()).collect();
    let nq: usize = args.get(2).map(|x| x.parse().unwrap()).unwrap_or(255);
    let threads = 4usize;
    let mut results: Vec<Option<Value>> = vec![None; cells.len()];
    std::thread::scope(|s| {
        let mut handles = vec![];
        for t in 0..threads {
            let cells = &cells;
            let gs = &gs;
            handles.push(s.spawn(move || {
                let mut r = vec![];
                let mut i = t;
                while i < cells.len() {
                    let ev = match catch(|| record_cell(&cells[i], gs, nq)) {
                        Ok(v) => v,
                        Err(p) => json!({"cell": cells[i], "gs": gs, "nq": nq, "mod": [], "conj": [], "ldr": [], "udr": [], "dec": [], "panic": p}),
                    };
                    r.push((i, ev));
                    i += threads;
                }
                r
            }));
        }
        for h in handles {
            for (i, ev) in h.join().unwrap() {
                results[i] = Some(ev);
            }
        }
    });
    let mut out = Out::new();
    for r in results {
        out.emit(&r.unwrap());
    }
    out.flush();
    0
}

// ------------------------------------------------------------------------------------------------
fn options_of(o: &Value) -> ProofOptions {
    ProofOptions::new(us(&o["q"]), us(&o["b"]), us(&o["g"]) as u32, ext(us(&o["e"])), us(&o["fold"]), us(&o["rem"]),
        bm(us(&o["bc"])), bm(us(&o["bd"]))).with_partitions(us(&o["np"]), us(&o["hr"]))
}

pub fn main_optsets(args: &[String]) -> i32 {
    let lines = read_ndjson(&args[0]);
    let mut out = Out::new();
    let (mut bad, mut acc) = (0usize, 0usize);
    let mut proof = Proof::new_dummy();
    for (i, ln) in lines.iter().enumerate() {
        let exp = ln["accept"].as_bool().unwrap_or(false);
        let got = catch(|| {
            proof.context = Context::new::<f64::BaseElement>(TraceInfo::new(2, 8), options_of(&ln["p"]), 3);
            let set: Vec<ProofOptions> = ln["S"].as_array().map(|a| a.iter().map(options_of).collect()).unwrap_or_default();
            AcceptableOptions::OptionSet(set).validate::<H128>(&proof).is_ok()
        });
        if got == Ok(true) {
            acc += 1;
        }
        if got != Ok(exp) {
            bad += 1;
            out.emit(&json!({"i": i, "detail": {"call": "AcceptableOptions::OptionSet.validate", "p": ln["p"], "S": ln["S"],
                "expected": if exp {"accept"} else {"reject"},
                "got": match &got { Ok(true) => "accept".to_string(), Ok(false) => "reject".to_string(), Err(p) => format!("panic {p}") }}}));
        }
    }
    out.emit(&json!({"summary": true, "scenarios": lines.len(), "ops": lines.len(), "accepted": acc, "mismatches": bad}));
    out.flush();
    0
}
