//! wfverif — conformance harness binding the TLA+ specifications in /verif/spec to the real
//! winterfell crates (path dependencies on /repo, rebuilt from the working tree by every check).
//!
//! The harness never decides semantic content: it replays scenarios whose expected outcomes were
//! computed by TLC and reports equality/inequality of small values, or it records what the real
//! code did as ndjson events that a TLA+ trace specification validates.
#![allow(clippy::all)]

mod engines;
mod util;

fn main() {
    let args: Vec<String> = std::env::args().collect();
    if args.len() < 2 {
        eprintln!("usage: wfverif <engine> [args...]");
        std::process::exit(2);
    }
    util::install_quiet_panic_hook();
    let rest = &args[2..];
    let code = match args[1].as_str() {
        "readadapter" => engines::readadapter::main(rest),
        other => {
            eprintln!("unknown engine {other}");
            2
        },
    };
    std::process::exit(code);
}
