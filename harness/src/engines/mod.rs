pub mod readadapter;
