//! wf-math — engines for winter-math / winter-utils (C12 FFT, C13 polynomial helpers, C14 batch
//! utilities).  Every engine replays scenarios printed by TLC from spec/math/*.tla: inputs plus the
//! COMPLETE expected outputs; the Rust side only calls the real functions over the toy fields and
//! compares element values for equality.
#![allow(clippy::all)]
mod batch;
mod elem;
mod fft;
mod poly;
mod pool;

fn main() {
    let args: Vec<String> = std::env::args().collect();
    wfcommon::util::install_quiet_panic_hook();
    let code = match args.get(1).map(|s| s.as_str()) {
        Some("poly") => poly::main(&args[2..]),
        Some("fft") => fft::main(&args[2..]),
        Some("batch") => batch::main(&args[2..]),
        _ => {
            eprintln!("usage: wf-math <poly|fft|batch> <scenarios.ndjson> [threads,...]");
            2
        },
    };
    std::process::exit(code);
}
