//! C14: replay of the cases printed from spec/math/Batch.tla on winter_math's batch utilities and
//! winter_utils' slice re-grouping functions, serial build and rayon pools of the requested sizes.
use serde_json::{json, Value};
use wfcommon::util::{catch, read_ndjson, Out};
use winter_math::{
    add_in_place, batch_inversion, get_power_series, get_power_series_with_offset, mul_acc, ExtensionOf,
    FieldElement, StarkField,
};
use winter_utils::{flatten_slice_elements, flatten_vector_elements, group_slice_elements, transpose_slice};

use crate::{
    elem::{usize_of, vec_of, Elem},
    with_field,
};

struct Rep {
    calls: usize,
    bad: Vec<Value>,
}

impl Rep {
    fn vec<E: Elem>(&mut self, call: &str, got: Result<Vec<E>, String>, exp: &[E]) {
        self.calls += 1;
        match got {
            Ok(v) => {
                if v.len() != exp.len() {
                    self.bad.push(json!({"call": call, "what": "length", "expected": exp.len(), "got": v.len(), "panic": ""}));
                } else if let Some(k) = (0..v.len()).find(|&k| v[k] != exp[k]) {
                    let ndiff = (0..v.len()).filter(|&k| v[k] != exp[k]).count();
                    self.bad.push(json!({"call": call, "what": "value", "index": k, "expected": exp[k].to_json(),
                        "got": v[k].to_json(), "differing": ndiff, "panic": ""}));
                }
            },
            Err(p) => self.bad.push(json!({"call": call, "what": "panic", "panic": p})),
        }
    }
    fn ints(&mut self, call: &str, got: Result<Vec<u32>, String>, exp: &[u32]) {
        self.calls += 1;
        match got {
            Ok(v) => {
                if v.len() != exp.len() {
                    self.bad.push(json!({"call": call, "what": "length", "expected": exp.len(), "got": v.len(), "panic": ""}));
                } else if let Some(k) = (0..v.len()).find(|&k| v[k] != exp[k]) {
                    self.bad.push(json!({"call": call, "what": "value", "index": k, "expected": exp[k], "got": v[k], "panic": ""}));
                }
            },
            Err(p) => self.bad.push(json!({"call": call, "what": "panic", "panic": p})),
        }
    }
}

fn field_case<B: StarkField + Elem, E: Elem + FieldElement<BaseField = B>>(sc: &Value, r: &mut Rep) {
    let op = sc["op"].as_str().unwrap_or("");
    let exp: Vec<E> = vec_of(&sc["exp"]);
    match op {
        "inv" => {
            let v: Vec<E> = vec_of(&sc["v"]);
            r.vec("batch_inversion", catch(|| batch_inversion(&v)), &exp);
        },
        "pow" => {
            let b = E::from_json(&sc["b"]);
            let n = usize_of(&sc["n"]);
            r.vec("get_power_series", catch(|| get_power_series(b, n)), &exp);
        },
        "powo" => {
            let b = E::from_json(&sc["b"]);
            let s = E::from_json(&sc["s"]);
            let n = usize_of(&sc["n"]);
            r.vec("get_power_series_with_offset", catch(|| get_power_series_with_offset(b, s, n)), &exp);
        },
        _ => {
            eprintln!("scenario: unknown op {op}");
            std::process::exit(2)
        },
    }
}

fn arith<F: Elem, E: Elem + FieldElement<BaseField = F::BaseField> + ExtensionOf<F>>(sc: &Value, r: &mut Rep) {
    let a: Vec<E> = vec_of(&sc["a"]);
    let b: Vec<E> = vec_of(&sc["b"]);
    let bf: Vec<F> = vec_of(&sc["bf"]);
    let c = E::from_json(&sc["c"]);
    let got = catch(|| {
        let mut x = a.clone();
        add_in_place(&mut x, &b);
        x
    });
    r.vec("add_in_place", got, &vec_of::<E>(&sc["add"]));
    let got = catch(|| {
        let mut x = a.clone();
        mul_acc(&mut x, &bf, c);
        x
    });
    r.vec("mul_acc", got, &vec_of::<E>(&sc["mulacc"]));
}

fn arith_dispatch(sc: &Value, r: &mut Rep) {
    use wfcommon::toy::{F257, F40961};
    use winter_math::fields::{CubeExtension as C3, QuadExtension as Q2};
    let key = (usize_of(&sc["P"]), usize_of(&sc["df"]), usize_of(&sc["de"]));
    match key {
        (257, 1, 1) => arith::<F257, F257>(sc, r),
        (257, 1, 2) => arith::<F257, Q2<F257>>(sc, r),
        (257, 2, 2) => arith::<Q2<F257>, Q2<F257>>(sc, r),
        (40961, 1, 1) => arith::<F40961, F40961>(sc, r),
        (40961, 1, 3) => arith::<F40961, C3<F40961>>(sc, r),
        (40961, 3, 3) => arith::<C3<F40961>, C3<F40961>>(sc, r),
        _ => {
            eprintln!("scenario: unsupported arith fields {key:?}");
            std::process::exit(2)
        },
    }
}

fn u32s(v: &Value) -> Vec<u32> {
    v.as_array().map(|a| a.iter().map(|x| usize_of(x) as u32).collect()).unwrap_or_default()
}

fn shape_n<const N: usize>(sc: &Value, r: &mut Rep) {
    let src = u32s(&sc["src"]);
    let rows = |v: &Value| -> Vec<[u32; N]> {
        v.as_array()
            .map(|a| {
                a.iter()
                    .map(|row| {
                        let e = u32s(row);
                        let mut x = [0u32; N];
                        x.copy_from_slice(&e);
                        x
                    })
                    .collect()
            })
            .unwrap_or_default()
    };
    let grouped = rows(&sc["grouped"]);
    let transposed = rows(&sc["transposed"]);
    let flat = |m: &[[u32; N]]| -> Vec<u32> { m.iter().flatten().copied().collect() };
    r.ints("group_slice_elements", catch(|| flat(group_slice_elements::<u32, N>(&src))), &flat(&grouped));
    r.ints("flatten_slice_elements", catch(|| flatten_slice_elements(&grouped).to_vec()), &src);
    r.ints("flatten_vector_elements", catch(|| flatten_vector_elements(grouped.clone())), &src);
    // the same elements in a vector with unused capacity (pushed / reserved / truncated vectors)
    let spare = sc["spare"].as_u64().unwrap_or(1) as usize;
    let roomy = || {
        let mut v: Vec<[u32; N]> = Vec::with_capacity(grouped.len() + spare);
        v.extend_from_slice(&grouped);
        v
    };
    r.ints("flatten_vector_elements", catch(|| {
        let out = flatten_vector_elements(roomy());
        // only the announced length is compared element-wise; a wrong length is reported as such
        if out.len() != src.len() { vec![out.len() as u32] } else { out }
    }), &src);
    let truncated = || {
        let mut v = grouped.clone();
        v.extend_from_slice(&grouped);
        v.truncate(grouped.len());
        v
    };
    r.ints("flatten_vector_elements", catch(|| {
        let out = flatten_vector_elements(truncated());
        if out.len() != src.len() { vec![out.len() as u32] } else { out }
    }), &src);
    r.ints("transpose_slice", catch(|| flat(&transpose_slice::<u32, N>(&src))), &flat(&transposed));
}

fn one(sc: &Value, r: &mut Rep) {
    match sc["op"].as_str().unwrap_or("") {
        "arith" => arith_dispatch(sc, r),
        "shape" => match usize_of(&sc["N"]) {
            1 => shape_n::<1>(sc, r),
            2 => shape_n::<2>(sc, r),
            3 => shape_n::<3>(sc, r),
            4 => shape_n::<4>(sc, r),
            8 => shape_n::<8>(sc, r),
            16 => shape_n::<16>(sc, r),
            n => {
                eprintln!("scenario: unsupported group width {n}");
                std::process::exit(2)
            },
        },
        _ => {
            let (p, d) = (usize_of(&sc["P"]), usize_of(&sc["d"]));
            with_field!(p, d, field_case(sc, r));
        },
    }
}

/// args: <scenarios.ndjson> [t1,t2,...]
pub fn main(args: &[String]) -> i32 {
    let scenarios = read_ndjson(&args[0]);
    let mut out = Out::new();
    let (mut calls, mut bad, mut runs) = (0usize, 0usize, 0usize);
    let threads: Vec<usize> = args
        .get(1)
        .map(|s| s.split(',').filter_map(|t| t.parse().ok()).collect())
        .unwrap_or_default();
    crate::pool::for_each_pool(&threads, |t| {
        for (i, sc) in scenarios.iter().enumerate() {
            let mut r = Rep { calls: 0, bad: vec![] };
            one(sc, &mut r);
            calls += r.calls;
            for d in r.bad {
                bad += 1;
                out.emit(&json!({"i": i, "threads": t, "detail": d}));
            }
        }
        runs += 1;
    });
    out.emit(&json!({"summary": true, "scenarios": scenarios.len(), "runs": runs, "calls": calls, "mismatches": bad,
        "concurrent": cfg!(feature = "concurrent"), "threads": threads}));
    out.flush();
    0
}
