//! C12: replay of the cases printed from spec/math/FFT.tla on winter_math::fft, in the serial build
//! and (feature `concurrent`) inside rayon pools of the requested sizes.
use serde_json::{json, Value};
use wfcommon::util::{catch, read_ndjson, Out};
use winter_math::{
    fft::{self, fft_inputs::FftInputs},
    FieldElement, StarkField,
};

use crate::{
    elem::{usize_of, vec_of, Elem},
    with_field,
};

struct Rep {
    calls: usize,
    bad: Vec<Value>,
}

impl Rep {
    /// whole-vector comparison; reports the first differing index only
    fn vec<E: Elem>(&mut self, call: &str, got: Result<Vec<E>, String>, exp: &[E]) {
        self.calls += 1;
        match got {
            Ok(v) => {
                if v.len() != exp.len() {
                    self.bad.push(json!({"call": call, "what": "length", "expected": exp.len(), "got": v.len(), "panic": ""}));
                } else if let Some(k) = (0..v.len()).find(|&k| v[k] != exp[k]) {
                    let ndiff = (0..v.len()).filter(|&k| v[k] != exp[k]).count();
                    self.bad.push(json!({"call": call, "what": "value", "index": k, "expected": exp[k].to_json(),
                        "got": v[k].to_json(), "differing": ndiff, "panic": ""}));
                }
            },
            Err(p) => self.bad.push(json!({"call": call, "what": "panic", "panic": p})),
        }
    }
    /// comparison at sampled indices (and of the length)
    fn sampled<E: Elem>(&mut self, call: &str, got: &Result<Vec<E>, String>, len: usize, idx: &[usize], vals: &[E]) {
        self.calls += 1;
        match got {
            Ok(v) => {
                if v.len() != len {
                    self.bad.push(json!({"call": call, "what": "length", "expected": len, "got": v.len(), "panic": ""}));
                } else if let Some(k) = (0..idx.len()).find(|&k| v[idx[k]] != vals[k]) {
                    self.bad.push(json!({"call": call, "what": "value", "index": idx[k], "expected": vals[k].to_json(),
                        "got": v[idx[k]].to_json(), "panic": ""}));
                }
            },
            Err(p) => self.bad.push(json!({"call": call, "what": "panic", "panic": p})),
        }
    }
    fn num(&mut self, call: &str, got: Result<usize, String>, exp: usize) {
        self.calls += 1;
        match got {
            Ok(v) if v == exp => {},
            Ok(v) => self.bad.push(json!({"call": call, "what": "value", "expected": exp, "got": v, "panic": ""})),
            Err(p) => self.bad.push(json!({"call": call, "what": "panic", "panic": p})),
        }
    }
}

fn base_of<B: StarkField + Elem>(v: &Value) -> B {
    B::from_json(v)
}

/// checks shared by the "full" and "sampled" scenarios once the evaluation vector is known
fn inverse_checks<B: StarkField + Elem, E: Elem + FieldElement<BaseField = B>>(
    r: &mut Rep,
    evals: &[E],
    offset: B,
    coef: &[E],
    deg: usize,
) {
    let big_n = evals.len();
    let itw = catch(|| fft::get_inv_twiddles::<B>(big_n));
    r.num("fft::get_inv_twiddles.len", itw.as_ref().map(|t| t.len()).map_err(|e| e.clone()), big_n / 2);
    if let Ok(itw) = itw {
        let got = catch(|| {
            let mut v = evals.to_vec();
            fft::interpolate_poly_with_offset(&mut v, &itw, offset);
            v
        });
        r.vec("fft::interpolate_poly_with_offset", got, coef);
        if offset == B::ONE {
            let got = catch(|| {
                let mut v = evals.to_vec();
                fft::interpolate_poly(&mut v, &itw);
                v
            });
            r.vec("fft::interpolate_poly", got, coef);
        }
    }
    r.num("fft::infer_degree", catch(|| fft::infer_degree(evals, offset)), deg);
}

fn full_or_sampled<B: StarkField + Elem, E: Elem + FieldElement<BaseField = B>>(sc: &Value, r: &mut Rep) {
    let c: Vec<E> = vec_of(&sc["c"]);
    let n = c.len();
    let blowup = usize_of(&sc["blowup"]);
    let offset: B = base_of(&sc["offset"]);
    let coef: Vec<E> = vec_of(&sc["coef"]);
    let deg = usize_of(&sc["deg"]);
    let sampled = sc["fam"].as_str() == Some("sampled");
    let big_n = n * blowup;

    let tw = catch(|| fft::get_twiddles::<B>(n));
    r.num("fft::get_twiddles.len", tw.as_ref().map(|t| t.len()).map_err(|e| e.clone()), n / 2);
    let tw = match tw {
        Ok(t) => t,
        Err(_) => return,
    };
    let with_offset = catch(|| fft::evaluate_poly_with_offset(&c, &tw, offset, blowup));
    let plain = if blowup == 1 && offset == B::ONE {
        Some((
            catch(|| {
                let mut v = c.clone();
                fft::evaluate_poly(&mut v, &tw);
                v
            }),
            catch(|| {
                let mut v = c.clone();
                fft::serial_fft(&mut v, &tw);
                v
            }),
        ))
    } else {
        None
    };
    if sampled {
        let idx: Vec<usize> = sc["idx"].as_array().map(|a| a.iter().map(usize_of).collect()).unwrap_or_default();
        let vals: Vec<E> = vec_of(&sc["vals"]);
        r.sampled("fft::evaluate_poly_with_offset", &with_offset, big_n, &idx, &vals);
        if let Some((a, b)) = &plain {
            r.sampled("fft::evaluate_poly", a, big_n, &idx, &vals);
            r.sampled("fft::serial_fft", b, big_n, &idx, &vals);
        }
        // interpolation inverts evaluation: the real evaluation vector must interpolate back to c
        if let Ok(ev) = &with_offset {
            if ev.len() == big_n {
                inverse_checks(r, ev, offset, &coef, deg);
            }
        }
    } else {
        let ev: Vec<E> = vec_of(&sc["ev"]);
        r.vec("fft::evaluate_poly_with_offset", with_offset, &ev);
        if let Some((a, b)) = plain {
            r.vec("fft::evaluate_poly", a, &ev);
            r.vec("fft::serial_fft", b, &ev);
        }
        inverse_checks(r, &ev, offset, &coef, deg);
    }
}

fn rows_k<B: StarkField + Elem, E: Elem + FieldElement<BaseField = B>, const K: usize>(sc: &Value, r: &mut Rep) {
    let to_rows = |v: &Value| -> Vec<[E; K]> {
        v.as_array()
            .map(|a| {
                a.iter()
                    .map(|row| {
                        let e: Vec<E> = vec_of(row);
                        let mut x = [E::ZERO; K];
                        x.copy_from_slice(&e);
                        x
                    })
                    .collect()
            })
            .unwrap_or_default()
    };
    let flat = |m: Vec<[E; K]>| -> Vec<E> { m.into_iter().flatten().collect() };
    let rows = to_rows(&sc["rows"]);
    let n = rows.len();
    let o: B = base_of(&sc["o"]);
    let inc: B = base_of(&sc["inc"]);
    let tw = fft::get_twiddles::<B>(n);
    let got = catch(|| {
        let mut m = rows.clone();
        FftInputs::<E>::fft_in_place(&mut m[..], &tw);
        FftInputs::<E>::permute(&mut m[..]);
        flat(m)
    });
    r.vec("FftInputs<[[E;K]]>::fft_in_place+permute", got, &flat(to_rows(&sc["ev"])));
    let got = catch(|| {
        let mut m = rows.clone();
        FftInputs::<E>::shift_by(&mut m[..], o);
        flat(m)
    });
    r.vec("FftInputs<[[E;K]]>::shift_by", got, &flat(to_rows(&sc["shifted"])));
    let got = catch(|| {
        let mut m = rows.clone();
        FftInputs::<E>::shift_by_series(&mut m[..], o, inc);
        flat(m)
    });
    r.vec("FftInputs<[[E;K]]>::shift_by_series", got, &flat(to_rows(&sc["series"])));
    if K == 1 {
        // the same three operations on a plain slice
        let col: Vec<E> = rows.iter().map(|x| x[0]).collect();
        let got = catch(|| {
            let mut v = col.clone();
            FftInputs::<E>::fft_in_place(&mut v[..], &tw);
            FftInputs::<E>::permute(&mut v[..]);
            v
        });
        r.vec("FftInputs<[E]>::fft_in_place+permute", got, &flat(to_rows(&sc["ev"])));
        let got = catch(|| {
            let mut v = col.clone();
            FftInputs::<E>::shift_by(&mut v[..], o);
            v
        });
        r.vec("FftInputs<[E]>::shift_by", got, &flat(to_rows(&sc["shifted"])));
        let got = catch(|| {
            let mut v = col.clone();
            FftInputs::<E>::shift_by_series(&mut v[..], o, inc);
            v
        });
        r.vec("FftInputs<[E]>::shift_by_series", got, &flat(to_rows(&sc["series"])));
    }
}

fn rows<B: StarkField + Elem, E: Elem + FieldElement<BaseField = B>>(sc: &Value, r: &mut Rep) {
    match usize_of(&sc["K"]) {
        1 => rows_k::<B, E, 1>(sc, r),
        2 => rows_k::<B, E, 2>(sc, r),
        3 => rows_k::<B, E, 3>(sc, r),
        k => {
            eprintln!("scenario: unsupported row width {k}");
            std::process::exit(2)
        },
    }
}

fn pidx(sc: &Value, r: &mut Rep) {
    use wfcommon::toy::F40961;
    let size = usize_of(&sc["size"]);
    let rev: Vec<usize> = sc["rev"].as_array().map(|a| a.iter().map(usize_of).collect()).unwrap_or_default();
    r.calls += 1;
    match catch(|| (0..size).map(|i| fft::permute_index(size, i)).collect::<Vec<usize>>()) {
        Ok(v) => {
            if let Some(k) = (0..size).find(|&k| v[k] != rev[k]) {
                r.bad.push(json!({"call": "fft::permute_index", "what": "value", "index": k, "expected": rev[k], "got": v[k], "panic": ""}));
            }
        },
        Err(p) => r.bad.push(json!({"call": "fft::permute_index", "what": "panic", "panic": p})),
    }
    // FftInputs::permute moves element i to position rev(i)
    let ident: Vec<F40961> = (0..size as u32).map(F40961::new).collect();
    let exp: Vec<F40961> = rev.iter().map(|&j| F40961::new(j as u32)).collect();
    let got = catch(|| {
        let mut v = ident.clone();
        FftInputs::<F40961>::permute(&mut v[..]);
        v
    });
    r.vec("FftInputs<[E]>::permute", got, &exp);
}

fn one(sc: &Value, r: &mut Rep) {
    let fam = sc["fam"].as_str().unwrap_or("");
    match fam {
        "pidx" => pidx(sc, r),
        "full" | "sampled" => {
            let (p, d) = (usize_of(&sc["P"]), usize_of(&sc["d"]));
            with_field!(p, d, full_or_sampled(sc, r));
        },
        "rows" => {
            let (p, d) = (usize_of(&sc["P"]), usize_of(&sc["d"]));
            with_field!(p, d, rows(sc, r));
        },
        _ => {
            eprintln!("scenario: unknown family {fam}");
            std::process::exit(2)
        },
    }
}

fn run_all(scenarios: &[Value], threads: usize, out: &mut Out) -> (usize, usize) {
    let (mut calls, mut bad) = (0, 0);
    for (i, sc) in scenarios.iter().enumerate() {
        let mut r = Rep { calls: 0, bad: vec![] };
        one(sc, &mut r);
        calls += r.calls;
        for d in r.bad {
            bad += 1;
            out.emit(&json!({"i": i, "threads": threads, "detail": d}));
        }
    }
    (calls, bad)
}

/// args: <scenarios.ndjson> [t1,t2,...]   (thread counts; only with the `concurrent` feature)
pub fn main(args: &[String]) -> i32 {
    let scenarios = read_ndjson(&args[0]);
    let mut out = Out::new();
    let (mut calls, mut bad, mut runs) = (0usize, 0usize, 0usize);
    let threads: Vec<usize> = args
        .get(1)
        .map(|s| s.split(',').filter_map(|t| t.parse().ok()).collect())
        .unwrap_or_default();
    crate::pool::for_each_pool(&threads, |t| {
        let (c, b) = run_all(&scenarios, t, &mut out);
        calls += c;
        bad += b;
        runs += 1;
    });
    out.emit(&json!({"summary": true, "scenarios": scenarios.len(), "runs": runs, "calls": calls, "mismatches": bad,
        "concurrent": cfg!(feature = "concurrent"), "threads": threads}));
    out.flush();
    0
}
