//! C13: replay of the cases printed from spec/math/Poly.tla on winter_math::polynom.
use serde_json::{json, Value};
use wfcommon::util::{catch, read_ndjson, Out};
use winter_math::{polynom, FieldElement, StarkField};

use crate::{
    elem::{json_of, usize_of, vec_of, Elem, Report},
    with_field,
};

/// expected vector, normalised through the element type
fn exp_vec<E: Elem>(v: &Value) -> Value {
    json_of::<E>(&vec_of::<E>(v))
}

/// strips high zero coefficients ("equal as polynomials" comparisons)
fn strip<E: Elem>(mut v: Vec<E>) -> Vec<E> {
    while v.last() == Some(&E::ZERO) {
        v.pop();
    }
    v
}

fn eval_case<C: Elem, E: Elem + From<C>>(sc: &Value, r: &mut Report) {
    let p: Vec<C> = vec_of(&sc["p"]);
    let xs: Vec<E> = vec_of(&sc["xs"]);
    let exp: Vec<E> = vec_of(&sc["exp"]);
    r.check("polynom::eval_many", catch(|| json_of(&polynom::eval_many(&p, &xs))), &json_of(&exp));
    // one comparison for all single-point evaluations
    let single = catch(|| json_of(&xs.iter().map(|&x| polynom::eval(&p, x)).collect::<Vec<E>>()));
    r.check("polynom::eval", single, &json_of(&exp));
}

fn eval_dispatch(sc: &Value, r: &mut Report) {
    use wfcommon::toy::{F257, F40961, F97};
    use winter_math::fields::{CubeExtension as C3, QuadExtension as Q2};
    let p = usize_of(&sc["P"]);
    let (db, de) = (usize_of(&sc["db"]), usize_of(&sc["de"]));
    match (p, db, de) {
        (97, 1, 1) => eval_case::<F97, F97>(sc, r),
        (97, 1, 2) => eval_case::<F97, Q2<F97>>(sc, r),
        (97, 1, 3) => eval_case::<F97, C3<F97>>(sc, r),
        (97, 2, 2) => eval_case::<Q2<F97>, Q2<F97>>(sc, r),
        (97, 3, 3) => eval_case::<C3<F97>, C3<F97>>(sc, r),
        (257, 1, 1) => eval_case::<F257, F257>(sc, r),
        (257, 1, 2) => eval_case::<F257, Q2<F257>>(sc, r),
        (257, 2, 2) => eval_case::<Q2<F257>, Q2<F257>>(sc, r),
        (40961, 1, 1) => eval_case::<F40961, F40961>(sc, r),
        (40961, 1, 3) => eval_case::<F40961, C3<F40961>>(sc, r),
        (40961, 3, 3) => eval_case::<C3<F40961>, C3<F40961>>(sc, r),
        _ => {
            eprintln!("scenario: unsupported eval field P={p} db={db} de={de}");
            std::process::exit(2)
        },
    }
}

fn batch_n<E: Elem, const N: usize>(xs: &[Vec<E>], ys: &[Vec<E>]) -> Value {
    let to_arr = |v: &Vec<E>| -> [E; N] {
        let mut a = [E::ZERO; N];
        a.copy_from_slice(v);
        a
    };
    let xa: Vec<[E; N]> = xs.iter().map(to_arr).collect();
    let ya: Vec<[E; N]> = ys.iter().map(to_arr).collect();
    let res = polynom::interpolate_batch(&xa, &ya);
    Value::Array(res.iter().map(|p| json_of(&p[..])).collect())
}

fn case<B: StarkField + Elem, E: Elem + FieldElement<BaseField = B>>(sc: &Value, r: &mut Report) {
    let op = sc["op"].as_str().unwrap_or("");
    match op {
        "arith" => {
            let a: Vec<E> = vec_of(&sc["a"]);
            let b: Vec<E> = vec_of(&sc["b"]);
            r.check("polynom::add", catch(|| json_of(&polynom::add(&a, &b))), &exp_vec::<E>(&sc["add"]));
            r.check("polynom::sub", catch(|| json_of(&polynom::sub(&a, &b))), &exp_vec::<E>(&sc["sub"]));
            if sc["hasmul"].as_bool() == Some(true) {
                r.check("polynom::mul", catch(|| json_of(&polynom::mul(&a, &b))), &exp_vec::<E>(&sc["mul"]));
            }
        },
        "scalar" => {
            let p: Vec<E> = vec_of(&sc["p"]);
            let k = E::from_json(&sc["k"]);
            r.check("polynom::mul_by_scalar", catch(|| json_of(&polynom::mul_by_scalar(&p, k))), &exp_vec::<E>(&sc["exp"]));
        },
        "div" => {
            let a: Vec<E> = vec_of(&sc["a"]);
            let b: Vec<E> = vec_of(&sc["b"]);
            let exact = sc["mode"].as_str() == Some("exact");
            let got = catch(|| {
                let q = polynom::div(&a, &b);
                json_of(&if exact { q } else { strip(q) })
            });
            r.check("polynom::div", got, &exp_vec::<E>(&sc["exp"]));
        },
        "syn" => {
            let p: Vec<E> = vec_of(&sc["p"]);
            let a = usize_of(&sc["a"]);
            let b = E::from_json(&sc["b"]);
            let exp = exp_vec::<E>(&sc["exp"]);
            r.check("polynom::syn_div", catch(|| json_of(&polynom::syn_div(&p, a, b))), &exp);
            let got = catch(|| {
                let mut q = p.clone();
                polynom::syn_div_in_place(&mut q, a, b);
                json_of(&q)
            });
            r.check("polynom::syn_div_in_place", got, &exp);
        },
        "synroots" => {
            let p: Vec<E> = vec_of(&sc["p"]);
            let roots: Vec<E> = vec_of(&sc["roots"]);
            let got = catch(|| {
                let mut q = p.clone();
                polynom::syn_div_roots_in_place(&mut q, &roots);
                json_of(&q)
            });
            r.check("polynom::syn_div_roots_in_place", got, &exp_vec::<E>(&sc["exp"]));
        },
        "interp" => {
            let xs: Vec<E> = vec_of(&sc["xs"]);
            let ys: Vec<E> = vec_of(&sc["ys"]);
            let rlz = sc["rlz"].as_bool() == Some(true);
            r.check("polynom::interpolate", catch(|| json_of(&polynom::interpolate(&xs, &ys, rlz))), &exp_vec::<E>(&sc["exp"]));
        },
        "interpb" => {
            let n = usize_of(&sc["N"]);
            let xs: Vec<Vec<E>> = sc["xs"].as_array().map(|a| a.iter().map(vec_of::<E>).collect()).unwrap_or_default();
            let ys: Vec<Vec<E>> = sc["ys"].as_array().map(|a| a.iter().map(vec_of::<E>).collect()).unwrap_or_default();
            let exp = Value::Array(sc["exp"].as_array().map(|a| a.iter().map(exp_vec::<E>).collect()).unwrap_or_default());
            let got = catch(|| match n {
                1 => batch_n::<E, 1>(&xs, &ys),
                2 => batch_n::<E, 2>(&xs, &ys),
                3 => batch_n::<E, 3>(&xs, &ys),
                4 => batch_n::<E, 4>(&xs, &ys),
                8 => batch_n::<E, 8>(&xs, &ys),
                _ => {
                    eprintln!("scenario: unsupported batch width {n}");
                    std::process::exit(2)
                },
            });
            r.check("polynom::interpolate_batch", got, &exp);
        },
        "roots" => {
            let xs: Vec<E> = vec_of(&sc["xs"]);
            r.check("polynom::poly_from_roots", catch(|| json_of(&polynom::poly_from_roots(&xs))), &exp_vec::<E>(&sc["exp"]));
        },
        "deg" => {
            let p: Vec<E> = vec_of(&sc["p"]);
            r.check("polynom::degree_of", catch(|| json!(polynom::degree_of(&p))), &sc["deg"]);
            r.check("polynom::remove_leading_zeros", catch(|| json_of(&polynom::remove_leading_zeros(&p))), &exp_vec::<E>(&sc["trimmed"]));
        },
        _ => {
            eprintln!("scenario: unknown op {op}");
            std::process::exit(2)
        },
    }
}

pub fn main(args: &[String]) -> i32 {
    let scenarios = read_ndjson(&args[0]);
    let mut out = Out::new();
    let (mut bad, mut calls) = (0usize, 0usize);
    for (i, sc) in scenarios.iter().enumerate() {
        let mut r = Report::new();
        if sc["op"].as_str() == Some("eval") {
            eval_dispatch(sc, &mut r);
        } else {
            let (p, d) = (usize_of(&sc["P"]), usize_of(&sc["d"]));
            with_field!(p, d, case(sc, &mut r));
        }
        calls += r.calls;
        for d in r.bad {
            bad += 1;
            out.emit(&json!({"i": i, "detail": d}));
        }
    }
    out.emit(&json!({"summary": true, "scenarios": scenarios.len(), "calls": calls, "mismatches": bad}));
    out.flush();
    0
}
