//! Shared helpers: ndjson I/O, panic capture ("a panic in the code under test is data").
use std::{
    cell::RefCell,
    io::{BufRead, Write},
    panic::{self, AssertUnwindSafe},
};

use serde_json::Value;

thread_local! {
    static LAST_PANIC: RefCell<Option<String>> = const { RefCell::new(None) };
}

/// Panics are recorded (message + location) instead of printed; engines turn them into outcomes.
pub fn install_quiet_panic_hook() {
    panic::set_hook(Box::new(|info| {
        let loc = info.location().map(|l| format!("{}:{}", l.file(), l.line())).unwrap_or_default();
        let msg = if let Some(s) = info.payload().downcast_ref::<&str>() {
            s.to_string()
        } else if let Some(s) = info.payload().downcast_ref::<String>() {
            s.clone()
        } else {
            "<non-string panic>".to_string()
        };
        LAST_PANIC.with(|p| *p.borrow_mut() = Some(format!("{loc}: {msg}")));
    }));
}

/// Runs `f`, returning Err(panic description) if it panicked.
pub fn catch<T>(f: impl FnOnce() -> T) -> Result<T, String> {
    LAST_PANIC.with(|p| *p.borrow_mut() = None);
    match panic::catch_unwind(AssertUnwindSafe(f)) {
        Ok(v) => Ok(v),
        Err(_) => Err(LAST_PANIC.with(|p| p.borrow_mut().take()).unwrap_or_else(|| "panic".into())),
    }
}

pub fn read_ndjson(path: &str) -> Vec<Value> {
    let f = std::fs::File::open(path).unwrap_or_else(|e| {
        eprintln!("cannot open {path}: {e}");
        std::process::exit(2)
    });
    let mut out = Vec::new();
    for line in std::io::BufReader::new(f).lines() {
        let line = line.expect("read line");
        let t = line.trim();
        if t.is_empty() {
            continue;
        }
        match serde_json::from_str::<Value>(t) {
            Ok(v) => out.push(v),
            Err(e) => {
                eprintln!("bad json in {path}: {e}");
                std::process::exit(2)
            },
        }
    }
    out
}

pub struct Out {
    w: std::io::BufWriter<std::io::Stdout>,
}

impl Out {
    pub fn new() -> Self {
        Out { w: std::io::BufWriter::new(std::io::stdout()) }
    }
    pub fn emit(&mut self, v: &Value) {
        serde_json::to_writer(&mut self.w, v).unwrap();
        self.w.write_all(b"\n").unwrap();
    }
    pub fn flush(&mut self) {
        self.w.flush().unwrap();
    }
}

pub fn bytes_of(v: &Value) -> Vec<u8> {
    v.as_array()
        .map(|a| a.iter().map(|x| x.as_u64().unwrap_or(0) as u8).collect())
        .unwrap_or_default()
}

pub fn usizes_of(v: &Value) -> Vec<usize> {
    v.as_array()
        .map(|a| a.iter().map(|x| x.as_u64().unwrap_or(0) as usize).collect())
        .unwrap_or_default()
}

pub fn json_bytes(b: &[u8]) -> Value {
    Value::Array(b.iter().map(|x| Value::from(*x as u64)).collect())
}
