//! Shared helpers of the wfverif conformance harness.
#![allow(clippy::all)]
pub mod toy;
pub mod util;
