//! Shared helpers of the wfverif conformance harness.
#![allow(clippy::all)]
pub mod util;
