//! Toy prime fields (mechanism F of DESIGN.md): `Toy<P, RED>` implements `StarkField`,
//! `ExtensibleField<2>` and `ExtensibleField<3>` for P in {97, 193, 257, 40961} so that winterfell's
//! field-generic code (FFT, polynomials, FRI, Merkle/hash/coin, AIR algebra, prover, verifier) runs
//! over a field small enough for TLC to compute complete expected values with native integers
//! (P < 46341, so products fit 32-bit signed integers).
//!
//! `RED = false`: canonical representation (`IS_CANONICAL = true`).
//! `RED = true` : deliberately redundant representation (values stored as v or v + P), with
//!                `IS_CANONICAL = false`; equality, `as_int` and serialization are canonical, but
//!                `as_bytes`/`elements_as_bytes` expose the raw representation — exactly the contract
//!                the real 62-bit field has.
//!
//! Parameters (also stated in spec/lib/FieldP.tla):
//!   P      generator  two-adicity  quadratic x^2 = r   cubic x^3 = c1*x + c0
//!   97     5          5            r = 5               (0, 2)
//!   193    5          6            r = 5               (0, 2)
//!   257    3          8            r = 3               (1, 1)
//!   40961  3          13           r = 3               (1, 4)
use core::{
    fmt::{Debug, Display, Formatter},
    ops::{Add, AddAssign, Div, DivAssign, Mul, MulAssign, Neg, Sub, SubAssign},
    slice,
};

use winter_math::{ExtensibleField, FieldElement, StarkField};
use winter_utils::{
    AsBytes, ByteReader, ByteWriter, Deserializable, DeserializationError, Randomizable,
    Serializable,
};

#[derive(Copy, Clone, Default)]
#[repr(transparent)]
pub struct Toy<const P: u32, const RED: bool>(u32);

pub type F97 = Toy<97, false>;
pub type F193 = Toy<193, false>;
pub type F257 = Toy<257, false>;
pub type F40961 = Toy<40961, false>;
pub type F257R = Toy<257, true>;
pub type F40961R = Toy<40961, true>;

pub const fn toy_generator(p: u32) -> u32 {
    match p {
        97 | 193 => 5,
        257 | 40961 => 3,
        _ => panic!("unsupported toy modulus"),
    }
}
pub const fn toy_two_adicity(p: u32) -> u32 {
    (p - 1).trailing_zeros()
}
pub const fn toy_quad_r(p: u32) -> u32 {
    toy_generator(p)
}
pub const fn toy_cubic(p: u32) -> (u32, u32) {
    match p {
        97 | 193 => (0, 2),
        257 => (1, 1),
        40961 => (1, 4),
        _ => panic!("unsupported toy modulus"),
    }
}
const fn pow_mod(mut b: u64, mut e: u64, p: u64) -> u64 {
    let mut r = 1u64;
    b %= p;
    while e > 0 {
        if e & 1 == 1 {
            r = r * b % p;
        }
        b = b * b % p;
        e >>= 1;
    }
    r
}
pub const fn toy_root(p: u32) -> u32 {
    pow_mod(toy_generator(p) as u64, ((p - 1) >> toy_two_adicity(p)) as u64, p as u64) as u32
}

impl<const P: u32, const RED: bool> Toy<P, RED> {
    /// Element with canonical value `v mod P`.
    pub const fn new(v: u32) -> Self {
        Self::store(v % P)
    }
    /// Stores canonical `v` in the representation the type uses: for RED, odd values are stored as
    /// v + P (so both representation classes occur all the time).
    #[inline(always)]
    const fn store(v: u32) -> Self {
        if RED && v % 2 == 1 {
            Toy(v + P)
        } else {
            Toy(v)
        }
    }
    /// Raw stored word (for classification only).
    pub fn raw(&self) -> u32 {
        self.0
    }
    /// Builds an element from a raw word in [0, 2P) (RED) or [0, P).
    pub fn from_raw(w: u32) -> Self {
        if RED {
            assert!(w < 2 * P);
        } else {
            assert!(w < P);
        }
        Toy(w)
    }
    #[inline(always)]
    const fn val(&self) -> u32 {
        if RED && self.0 >= P {
            self.0 - P
        } else {
            self.0
        }
    }
}

impl<const P: u32, const RED: bool> FieldElement for Toy<P, RED> {
    type PositiveInteger = u64;
    type BaseField = Self;

    const EXTENSION_DEGREE: usize = 1;
    const ELEMENT_BYTES: usize = 4;
    const IS_CANONICAL: bool = !RED;
    const ZERO: Self = Toy(0);
    const ONE: Self = Self::store(1);

    fn inv(self) -> Self {
        let v = self.val();
        if v == 0 {
            return Self::ZERO;
        }
        Self::store(pow_mod(v as u64, (P - 2) as u64, P as u64) as u32)
    }

    fn conjugate(&self) -> Self {
        *self
    }

    fn base_element(&self, i: usize) -> Self::BaseField {
        match i {
            0 => *self,
            _ => panic!("element index must be 0, but was {i}"),
        }
    }

    fn slice_as_base_elements(elements: &[Self]) -> &[Self::BaseField] {
        elements
    }

    fn slice_from_base_elements(elements: &[Self::BaseField]) -> &[Self] {
        elements
    }

    fn elements_as_bytes(elements: &[Self]) -> &[u8] {
        let p = elements.as_ptr();
        let len = elements.len() * Self::ELEMENT_BYTES;
        unsafe { slice::from_raw_parts(p as *const u8, len) }
    }

    unsafe fn bytes_as_elements(bytes: &[u8]) -> Result<&[Self], DeserializationError> {
        if bytes.len() % Self::ELEMENT_BYTES != 0 {
            return Err(DeserializationError::InvalidValue(format!(
                "number of bytes ({}) does not divide into whole number of field elements",
                bytes.len(),
            )));
        }
        let p = bytes.as_ptr();
        let len = bytes.len() / Self::ELEMENT_BYTES;
        if (p as usize) % core::mem::align_of::<u32>() != 0 {
            return Err(DeserializationError::InvalidValue(
                "slice memory alignment is not valid for this field element type".to_string(),
            ));
        }
        Ok(slice::from_raw_parts(p as *const Self, len))
    }
}

impl<const P: u32, const RED: bool> StarkField for Toy<P, RED> {
    const MODULUS: Self::PositiveInteger = P as u64;
    const MODULUS_BITS: u32 = 32 - P.leading_zeros();
    const GENERATOR: Self = Self::store(toy_generator(P));
    const TWO_ADICITY: u32 = toy_two_adicity(P);
    const TWO_ADIC_ROOT_OF_UNITY: Self = Self::store(toy_root(P));

    /// Minimal-length little-endian modulus bytes: `Context::to_elements` feeds each half of these
    /// bytes to `from_bytes_with_padding`, which requires each half to be a value below P.
    fn get_modulus_le_bytes() -> Vec<u8> {
        let mut b = P.to_le_bytes().to_vec();
        while b.last() == Some(&0) {
            b.pop();
        }
        b
    }

    fn as_int(&self) -> Self::PositiveInteger {
        self.val() as u64
    }
}

impl<const P: u32, const RED: bool> Randomizable for Toy<P, RED> {
    const VALUE_SIZE: usize = 4;
    /// Only the low 16 bits of the 4 random bytes are used (a canonical 4-byte value below P would
    /// almost never occur): for P >= 2^15 (40961) by rejection sampling — 37.5 % of the draws are
    /// rejected, which exercises the random coin's retry loop — and for the smaller moduli by
    /// reduction modulo P (every draw succeeds).
    fn from_random_bytes(bytes: &[u8]) -> Option<Self> {
        if bytes.len() < 4 {
            return None;
        }
        let v = u16::from_le_bytes([bytes[0], bytes[1]]) as u32;
        if P >= (1 << 15) {
            if v < P {
                Some(Self::store(v))
            } else {
                None
            }
        } else {
            Some(Self::store(v % P))
        }
    }
}

impl<const P: u32, const RED: bool> Debug for Toy<P, RED> {
    fn fmt(&self, f: &mut Formatter<'_>) -> core::fmt::Result {
        write!(f, "{}", self.val())
    }
}
impl<const P: u32, const RED: bool> Display for Toy<P, RED> {
    fn fmt(&self, f: &mut Formatter<'_>) -> core::fmt::Result {
        write!(f, "{}", self.val())
    }
}
impl<const P: u32, const RED: bool> PartialEq for Toy<P, RED> {
    fn eq(&self, other: &Self) -> bool {
        self.val() == other.val()
    }
}
impl<const P: u32, const RED: bool> Eq for Toy<P, RED> {}

impl<const P: u32, const RED: bool> Add for Toy<P, RED> {
    type Output = Self;
    fn add(self, rhs: Self) -> Self {
        Self::store((self.val() + rhs.val()) % P)
    }
}
impl<const P: u32, const RED: bool> Sub for Toy<P, RED> {
    type Output = Self;
    fn sub(self, rhs: Self) -> Self {
        Self::store((self.val() + P - rhs.val()) % P)
    }
}
impl<const P: u32, const RED: bool> Mul for Toy<P, RED> {
    type Output = Self;
    fn mul(self, rhs: Self) -> Self {
        Self::store(((self.val() as u64 * rhs.val() as u64) % P as u64) as u32)
    }
}
impl<const P: u32, const RED: bool> Div for Toy<P, RED> {
    type Output = Self;
    #[allow(clippy::suspicious_arithmetic_impl)]
    fn div(self, rhs: Self) -> Self {
        self * rhs.inv()
    }
}
impl<const P: u32, const RED: bool> Neg for Toy<P, RED> {
    type Output = Self;
    fn neg(self) -> Self {
        Self::store((P - self.val()) % P)
    }
}
impl<const P: u32, const RED: bool> AddAssign for Toy<P, RED> {
    fn add_assign(&mut self, rhs: Self) {
        *self = *self + rhs
    }
}
impl<const P: u32, const RED: bool> SubAssign for Toy<P, RED> {
    fn sub_assign(&mut self, rhs: Self) {
        *self = *self - rhs
    }
}
impl<const P: u32, const RED: bool> MulAssign for Toy<P, RED> {
    fn mul_assign(&mut self, rhs: Self) {
        *self = *self * rhs
    }
}
impl<const P: u32, const RED: bool> DivAssign for Toy<P, RED> {
    fn div_assign(&mut self, rhs: Self) {
        *self = *self / rhs
    }
}

impl<const P: u32, const RED: bool> From<u32> for Toy<P, RED> {
    fn from(v: u32) -> Self {
        Self::new(v)
    }
}
impl<const P: u32, const RED: bool> From<u16> for Toy<P, RED> {
    fn from(v: u16) -> Self {
        Self::new(v as u32)
    }
}
impl<const P: u32, const RED: bool> From<u8> for Toy<P, RED> {
    fn from(v: u8) -> Self {
        Self::new(v as u32)
    }
}
impl<const P: u32, const RED: bool> TryFrom<u64> for Toy<P, RED> {
    type Error = String;
    fn try_from(v: u64) -> Result<Self, String> {
        if v >= P as u64 {
            Err(format!("invalid field element: value {v} is greater than or equal to the field modulus"))
        } else {
            Ok(Self::store(v as u32))
        }
    }
}
impl<const P: u32, const RED: bool> TryFrom<u128> for Toy<P, RED> {
    type Error = String;
    fn try_from(v: u128) -> Result<Self, String> {
        if v >= P as u128 {
            Err(format!("invalid field element: value {v} is greater than or equal to the field modulus"))
        } else {
            Ok(Self::store(v as u32))
        }
    }
}
impl<'a, const P: u32, const RED: bool> TryFrom<&'a [u8]> for Toy<P, RED> {
    type Error = DeserializationError;
    fn try_from(bytes: &[u8]) -> Result<Self, Self::Error> {
        if bytes.len() != 4 {
            return Err(DeserializationError::InvalidValue(format!(
                "expected 4 bytes for a field element, but was {}",
                bytes.len()
            )));
        }
        let v = u32::from_le_bytes([bytes[0], bytes[1], bytes[2], bytes[3]]);
        if v >= P {
            return Err(DeserializationError::InvalidValue(format!(
                "invalid field element: value {v} is greater than or equal to the field modulus"
            )));
        }
        Ok(Self::store(v))
    }
}

impl<const P: u32, const RED: bool> AsBytes for Toy<P, RED> {
    fn as_bytes(&self) -> &[u8] {
        let p: *const Self = self;
        unsafe { slice::from_raw_parts(p as *const u8, 4) }
    }
}

impl<const P: u32, const RED: bool> Serializable for Toy<P, RED> {
    fn write_into<W: ByteWriter>(&self, target: &mut W) {
        target.write_bytes(&self.val().to_le_bytes());
    }
    fn get_size_hint(&self) -> usize {
        4
    }
}
impl<const P: u32, const RED: bool> Deserializable for Toy<P, RED> {
    fn read_from<R: ByteReader>(source: &mut R) -> Result<Self, DeserializationError> {
        let v = source.read_u32()?;
        if v >= P {
            return Err(DeserializationError::InvalidValue(format!(
                "invalid field element: value {v} is greater than or equal to the field modulus"
            )));
        }
        Ok(Self::store(v))
    }
}

// EXTENSIONS
// ------------------------------------------------------------------------------------------------

impl<const P: u32, const RED: bool> ExtensibleField<2> for Toy<P, RED> {
    /// F_p[x] / (x^2 - r)
    fn mul(a: [Self; 2], b: [Self; 2]) -> [Self; 2] {
        let r = Self::store(toy_quad_r(P));
        [a[0] * b[0] + r * a[1] * b[1], a[0] * b[1] + a[1] * b[0]]
    }
    fn mul_base(a: [Self; 2], b: Self) -> [Self; 2] {
        [a[0] * b, a[1] * b]
    }
    /// x^p = x * r^((p-1)/2) = -x because r is a non-residue
    fn frobenius(x: [Self; 2]) -> [Self; 2] {
        [x[0], -x[1]]
    }
}

impl<const P: u32, const RED: bool> ExtensibleField<3> for Toy<P, RED> {
    /// F_p[x] / (x^3 - c1*x - c0)
    fn mul(a: [Self; 3], b: [Self; 3]) -> [Self; 3] {
        let (c1, c0) = toy_cubic(P);
        let (c1, c0) = (Self::store(c1), Self::store(c0));
        // schoolbook product d0..d4, then x^3 = c1 x + c0, x^4 = c1 x^2 + c0 x
        let d0 = a[0] * b[0];
        let d1 = a[0] * b[1] + a[1] * b[0];
        let d2 = a[0] * b[2] + a[1] * b[1] + a[2] * b[0];
        let d3 = a[1] * b[2] + a[2] * b[1];
        let d4 = a[2] * b[2];
        [d0 + c0 * d3, d1 + c1 * d3 + c0 * d4, d2 + c1 * d4]
    }
    fn mul_base(a: [Self; 3], b: Self) -> [Self; 3] {
        [a[0] * b, a[1] * b, a[2] * b]
    }
    /// the p-th power, computed by its definition
    fn frobenius(x: [Self; 3]) -> [Self; 3] {
        let mut r = [Self::ONE, Self::ZERO, Self::ZERO];
        let mut b = x;
        let mut e = P;
        while e > 0 {
            if e & 1 == 1 {
                r = <Self as ExtensibleField<3>>::mul(r, b);
            }
            b = <Self as ExtensibleField<3>>::mul(b, b);
            e >>= 1;
        }
        r
    }
}

#[cfg(test)]
mod tests {
    use winter_math::{fft, fields::CubeExtension, fields::QuadExtension, polynom};

    use super::*;

    fn basic<const P: u32, const RED: bool>() {
        type T<const P: u32, const RED: bool> = Toy<P, RED>;
        let g = T::<P, RED>::GENERATOR;
        assert_eq!(g.exp((P - 1) as u64), T::<P, RED>::ONE);
        assert_ne!(g.exp(((P - 1) / 2) as u64), T::<P, RED>::ONE);
        let w = T::<P, RED>::get_root_of_unity(T::<P, RED>::TWO_ADICITY);
        assert_eq!(w.exp(1u64 << T::<P, RED>::TWO_ADICITY), T::<P, RED>::ONE);
        assert_ne!(w.exp(1u64 << (T::<P, RED>::TWO_ADICITY - 1)), T::<P, RED>::ONE);
        for v in 1..P.min(500) {
            let a = T::<P, RED>::new(v);
            assert_eq!(a * a.inv(), T::<P, RED>::ONE);
            let q = QuadExtension::<T<P, RED>>::new(a, T::<P, RED>::new(v + 3));
            assert_eq!(q * q.inv(), QuadExtension::<T<P, RED>>::ONE);
            let c = CubeExtension::<T<P, RED>>::new(a, T::<P, RED>::new(v + 3), T::<P, RED>::new(7 * v));
            assert_eq!(c * c.inv(), CubeExtension::<T<P, RED>>::ONE);
        }
        // fft vs naive
        let n = 16usize;
        let poly: Vec<T<P, RED>> = (0..n as u32).map(|i| T::<P, RED>::new(i * i + 1)).collect();
        let tw = fft::get_twiddles::<T<P, RED>>(n);
        let mut ev = poly.clone();
        fft::evaluate_poly(&mut ev, &tw);
        let w = T::<P, RED>::get_root_of_unity(4);
        for i in 0..n {
            assert_eq!(ev[i], polynom::eval(&poly, w.exp(i as u64)));
        }
    }

    #[test]
    fn toy_fields() {
        basic::<97, false>();
        basic::<193, false>();
        basic::<257, false>();
        basic::<40961, false>();
        basic::<257, true>();
        basic::<40961, true>();
    }
}
