//! C19: wrong data is rejected, malformed batch proofs give Err and never panic.  Every mutated
//! input (indexes, leaves, node vectors, depth) and every verdict class comes from spec/merkle.
use std::collections::HashMap;

use serde_json::{json, Value};
use wfcommon::util::catch;
use winter_crypto::{BatchMerkleProof, Hasher, MerkleTree};

use crate::{
    terms::{indexes_of, TreeCtx},
    Report,
};

struct Tree<H: Hasher> {
    ctx: TreeCtx<H>,
    root: H::Digest,
}

pub fn run<H: Hasher>(name: &'static str, recs: &[Value], _unused: usize) -> Report {
    let mut rep = Report::default();
    let mut trees: HashMap<usize, Tree<H>> = HashMap::new();
    for (ri, rec) in recs.iter().enumerate() {
        match rec["kind"].as_str() {
            Some("tree") => {
                let mut ctx = TreeCtx::<H>::new(rec);
                let root = ctx.eval(&rec["root"]).expect("root term");
                let mut t = Tree { ctx, root };
                singles::<H>(ri, name, rec, &mut t, &mut rep);
                trees.insert(t.ctx.n, t);
            },
            Some(kind @ ("batch" | "shape")) => {
                let n = rec["n"].as_u64().unwrap_or(0) as usize;
                match trees.get_mut(&n) {
                    Some(t) => batch::<H>(ri, name, rec, t, &mut rep, kind == "batch"),
                    None => rep.count("skipped_no_tree", 1),
                }
            },
            _ => rep.count("skipped_unknown", 1),
        }
    }
    rep
}

fn class<T, E: ToString>(r: &Result<Result<T, E>, String>) -> (&'static str, String) {
    match r {
        Ok(Ok(_)) => ("ok", String::new()),
        Ok(Err(e)) => ("err", e.to_string()),
        Err(p) => ("panic", p.clone()),
    }
}

fn singles<H: Hasher>(ri: usize, name: &str, rec: &Value, t: &mut Tree<H>, rep: &mut Report) {
    for s in rec["smuts"].as_array().cloned().unwrap_or_default() {
        let i0 = s["i"].as_u64().unwrap() as usize;
        let leaf0 = t.ctx.eval(&s["leaf"]).expect("leaf");
        let path0 = t.ctx.eval_seq(&s["proof"]).expect("proof");
        let root = t.root;
        rep.count("calls", 1);
        if !matches!(catch(|| MerkleTree::<H>::verify(root, i0, leaf0, &path0)), Ok(Ok(()))) {
            rep.count("base_rejected", 1);
            continue;
        }
        for m in s["muts"].as_array().cloned().unwrap_or_default() {
            let i = m.get("i").and_then(|x| x.as_u64()).map(|x| x as usize).unwrap_or(i0);
            let leaf = match m.get("leaf") {
                Some(x) => t.ctx.eval(x).expect("leaf"),
                None => leaf0,
            };
            let path = match m.get("proof") {
                Some(x) => t.ctx.eval_seq(x).expect("proof"),
                None => path0.clone(),
            };
            let r = catch(|| MerkleTree::<H>::verify(root, i, leaf, &path));
            let (got, msg) = class(&r);
            rep.count("calls", 1);
            rep.count("single_mutations", 1);
            let exp = m["exp"].as_str().unwrap_or("?");
            if got != exp {
                rep.bad(json!({"i": ri, "hasher": name, "call": "verify", "kind": m["k"], "expected": exp,
                               "got": got, "msg": msg, "n": rec["n"], "index": i0, "mutation": m}));
            }
        }
    }
}

fn batch<H: Hasher>(ri: usize, name: &str, rec: &Value, t: &mut Tree<H>, rep: &mut Report, honest_base: bool) {
    let idx0 = indexes_of(&rec["idx"]);
    let lv0 = t.ctx.eval_seq(&rec["leaves"]).expect("leaf terms");
    let nodes0 = t.ctx.eval_seq2(&rec["nodes"]).expect("node terms");
    let depth0 = rec["depth"].as_u64().unwrap() as u8;
    let root = t.root;
    rep.count(if honest_base { "batches" } else { "shapes" }, 1);
    // the honest proof described by the specification must be acceptable to the real verifier,
    // otherwise the mutations derived from it say nothing (counted; the driver treats it as a tool error)
    let base = BatchMerkleProof::<H> { nodes: nodes0.clone(), depth: depth0 };
    if honest_base {
        rep.count("calls", 1);
        if !matches!(catch(|| MerkleTree::<H>::verify_batch(&root, &idx0, &lv0, &base)), Ok(Ok(()))) {
            rep.count("base_rejected", 1);
            return;
        }
    }
    for m in rec["muts"].as_array().cloned().unwrap_or_default() {
        let idx = m.get("idx").map(indexes_of).unwrap_or_else(|| idx0.clone());
        let lv = match m.get("lv") {
            Some(x) => t.ctx.eval_seq(x).expect("lv"),
            None => lv0.clone(),
        };
        let nodes = match m.get("nodes") {
            Some(x) => t.ctx.eval_seq2(x).expect("nodes"),
            None => nodes0.clone(),
        };
        let depth = m.get("depth").and_then(|x| x.as_u64()).map(|x| x as u8).unwrap_or(depth0);
        let proof = BatchMerkleProof::<H> { nodes, depth };
        rep.count("batch_mutations", 1);
        rep.count("calls", 3);
        let kind = m["k"].as_str().unwrap_or("?");
        rep.count(&format!("kind:{kind}"), 1);
        let report = |rep: &mut Report, call: &str, exp: &str, got: &str, msg: &str| {
            rep.bad(json!({"i": ri, "hasher": name, "call": call, "kind": kind, "expected": exp, "got": got,
                           "msg": msg, "n": rec["n"], "idx": rec["idx"], "depth": depth, "mutation": m}));
        };
        // get_root
        let r = catch(|| proof.get_root(&idx, &lv));
        let got = match &r {
            Ok(Ok(v)) if *v == root => "root",
            Ok(Ok(_)) => "other",
            Ok(Err(_)) => "err",
            Err(_) => "panic",
        };
        let exp = m["gr"].as_str().unwrap_or("?");
        let fine = match exp {
            "root" => got == "root",
            "notroot" => got == "other" || got == "err",
            "err" => got == "err",
            "any" => got != "panic",
            _ => false,
        };
        if !fine {
            report(rep, "get_root", exp, got, &class(&r).1);
        }
        rep.count(&format!("get_root:{got}"), 1);
        // verify_batch
        let r = catch(|| MerkleTree::<H>::verify_batch(&root, &idx, &lv, &proof));
        let (got, msg) = class(&r);
        let exp = m["vb"].as_str().unwrap_or("?");
        if !(got == exp || (exp == "any" && got != "panic")) {
            report(rep, "verify_batch", exp, got, &msg);
        }
        rep.count(&format!("verify_batch:{got}"), 1);
        // into_openings
        let copy = BatchMerkleProof::<H> { nodes: proof.nodes.clone(), depth: proof.depth };
        let r = catch(|| copy.into_openings(&lv, &idx));
        let (got, msg) = class(&r);
        let exp = m["io"].as_str().unwrap_or("?");
        if !(got == exp || (exp == "any" && got != "panic")) {
            report(rep, "into_openings", exp, got, &msg);
        }
        rep.count(&format!("into_openings:{got}"), 1);
    }
}
