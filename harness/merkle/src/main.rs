//! wf-merkle — engines for the Merkle layer (C18, C19).
//!
//! usage: wf-merkle c18 <scenarios.ndjson> [threads,threads,...]
//!        wf-merkle c19 <scenarios.ndjson>
//! Scenario files are what TLC printed from spec/merkle (one `tree` record per tree size, carrying
//! the table that defines every `["ref", k]` term, followed by `batch` records).  Expected digests
//! are TERMS; they are evaluated with the real `Hasher::merge` and compared with what the real
//! `MerkleTree` / `BatchMerkleProof` returned.  One JSON line per mismatch, then a summary line.
#![allow(clippy::all)]
mod c18;
mod c19;
mod terms;

use std::collections::BTreeMap;

use serde_json::{json, Value};
use wfcommon::util::{read_ndjson, Out};
use winter_crypto::hashers::{Blake3_192, Blake3_256, Rp62_248, Rp64_256, RpJive64_256, Sha3_256};
use winter_math::fields::f64::BaseElement as F64;

#[derive(Default)]
pub struct Report {
    pub mismatches: Vec<Value>,
    pub counts: BTreeMap<String, u64>,
}

impl Report {
    pub fn count(&mut self, key: &str, n: u64) {
        *self.counts.entry(key.to_string()).or_insert(0) += n;
    }
    /// Keeps at most 4 mismatches per class (call, kind/what, expected, got, panic site, depth >= 64)
    /// so that a frequent class can never crowd out a rare one.
    pub fn bad(&mut self, v: Value) {
        let site = v["msg"].as_str().or(v["detail"]["panic"].as_str()).unwrap_or("");
        let site: String = site.split(": ").next().unwrap_or("").to_string();
        let key = format!("bad:{}|{}{}|{}|{}|{}|{}", v["call"], v["kind"], v["what"], v["expected"], v["got"], site,
                          v["depth"].as_u64().map(|d| d >= 64).unwrap_or(false));
        self.count(&key, 1);
        if self.counts[&key] <= 4 {
            self.mismatches.push(v);
        }
        self.count("mismatches", 1);
    }
}

/// Runs `$m::run::<H>(name, $recs, $arg)` for the six hashers, one OS thread per hasher.
macro_rules! for_each_hasher {
    ($m:ident, $recs:expr, $arg:expr) => {{
        let recs: &[Value] = $recs;
        let arg = $arg;
        std::thread::scope(|s| {
            let hs = vec![
                s.spawn(move || $m::run::<Blake3_256<F64>>("blake3_256", recs, arg)),
                s.spawn(move || $m::run::<Blake3_192<F64>>("blake3_192", recs, arg)),
                s.spawn(move || $m::run::<Sha3_256<F64>>("sha3_256", recs, arg)),
                s.spawn(move || $m::run::<Rp64_256>("rp64_256", recs, arg)),
                s.spawn(move || $m::run::<RpJive64_256>("rpjive64_256", recs, arg)),
                s.spawn(move || $m::run::<Rp62_248>("rp62_248", recs, arg)),
            ];
            hs.into_iter().map(|h| h.join().expect("engine thread died")).collect::<Vec<Report>>()
        })
    }};
}

fn emit(reports: Vec<Report>, nrecs: usize, extra: Value) -> i32 {
    let mut out = Out::new();
    let mut total: BTreeMap<String, u64> = BTreeMap::new();
    for r in reports {
        for m in r.mismatches {
            out.emit(&m);
        }
        for (k, v) in r.counts {
            if !k.starts_with("bad:") {
                *total.entry(k).or_insert(0) += v;
            }
        }
    }
    out.emit(&json!({"summary": true, "records": nrecs, "counts": total, "extra": extra}));
    out.flush();
    0
}

fn main() {
    let args: Vec<String> = std::env::args().collect();
    wfcommon::util::install_quiet_panic_hook();
    let code = match args.get(1).map(|s| s.as_str()) {
        Some("c18") => {
            let recs = read_ndjson(&args[2]);
            let threads: Vec<usize> = match args.get(3) {
                Some(s) => s.split(',').filter(|x| !x.is_empty()).map(|x| x.parse().expect("thread count")).collect(),
                None => vec![0],
            };
            let mut reports = Vec::new();
            for &t in &threads {
                reports.extend(for_each_hasher!(c18, &recs, t));
            }
            emit(reports, recs.len(), json!({"threads": threads, "concurrent_feature": cfg!(feature = "concurrent")}))
        },
        Some("c19") => {
            let recs = read_ndjson(&args[2]);
            let reports = for_each_hasher!(c19, &recs, 0usize);
            emit(reports, recs.len(), json!({"overflow_checks": cfg!(debug_assertions)}))
        },
        _ => {
            eprintln!("usage: wf-merkle <c18|c19> <scenarios.ndjson> [threads]");
            2
        },
    };
    std::process::exit(code);
}
