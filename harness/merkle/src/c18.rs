//! C18: root, single openings, batch openings (three routes), expansion — against terms computed by
//! spec/merkle.  With the `concurrent` feature the whole replay runs inside a rayon pool of the given
//! size, and the serial and concurrent node builders are compared with each other and with the table.
use std::collections::HashMap;

use serde_json::{json, Value};
use wfcommon::util::catch;
use winter_crypto::{build_merkle_nodes, BatchMerkleProof, Hasher, MerkleTree};

use crate::{
    terms::{hex, indexes_of, TreeCtx},
    Report,
};

struct Tree<H: Hasher> {
    ctx: TreeCtx<H>,
    tree: MerkleTree<H>,
    root: H::Digest,
}

pub fn run<H: Hasher>(name: &'static str, recs: &[Value], threads: usize) -> Report {
    #[cfg(feature = "concurrent")]
    if threads > 0 {
        let pool = winter_utils::rayon::ThreadPoolBuilder::new().num_threads(threads).build().expect("pool");
        return pool.install(|| run_all::<H>(name, recs, threads));
    }
    run_all::<H>(name, recs, threads)
}

fn run_all<H: Hasher>(name: &'static str, recs: &[Value], threads: usize) -> Report {
    let mut rep = Report::default();
    let mut trees: HashMap<usize, Tree<H>> = HashMap::new();
    for (ri, rec) in recs.iter().enumerate() {
        let mut bad = |rep: &mut Report, call: &str, what: &str, detail: Value| {
            rep.bad(json!({"i": ri, "hasher": name, "threads": threads, "call": call, "what": what,
                           "n": rec["n"], "idx": rec["idx"], "detail": detail}));
        };
        match rec["kind"].as_str() {
            Some("tree") => {
                if let Some(t) = tree_record::<H>(rec, &mut rep, &mut bad) {
                    trees.insert(t.ctx.n, t);
                }
            },
            Some("batch") => {
                let n = rec["n"].as_u64().unwrap_or(0) as usize;
                match trees.get_mut(&n) {
                    Some(t) => batch_record::<H>(rec, t, &mut rep, &mut bad),
                    None => rep.count("skipped_no_tree", 1),
                }
            },
            _ => rep.count("skipped_unknown", 1),
        }
    }
    rep
}

type Bad<'a> = dyn FnMut(&mut Report, &str, &str, Value) + 'a;

fn tree_record<H: Hasher>(rec: &Value, rep: &mut Report, bad: &mut Bad) -> Option<Tree<H>> {
    let mut ctx = TreeCtx::<H>::new(rec);
    let n = ctx.n;
    rep.count("trees", 1);
    let exp_root = match ctx.eval(&rec["root"]) {
        Ok(d) => d,
        Err(e) => panic!("harness: cannot evaluate root term: {e}"),
    };
    let leaves = ctx.leaves.clone();
    let tree = match catch(|| MerkleTree::<H>::new(leaves.clone())) {
        Ok(Ok(t)) => t,
        Ok(Err(e)) => {
            bad(rep, "new", "error", json!({"error": e.to_string()}));
            return None;
        },
        Err(p) => {
            bad(rep, "new", "panic", json!({"panic": p}));
            return None;
        },
    };
    rep.count("calls", 1);
    if *tree.root() != exp_root {
        bad(rep, "root", "differs", json!({"got": hex(tree.root()), "expected": hex(&exp_root)}));
    }
    if tree.depth() as u64 != rec["depth"].as_u64().unwrap_or(u64::MAX) || tree.leaves() != &leaves[..] {
        bad(rep, "depth/leaves", "differs", json!({"depth": tree.depth()}));
    }
    // node builders: documented layout (root at 1, children of k at 2k and 2k+1)
    match catch(|| build_merkle_nodes::<H>(&leaves)) {
        Ok(nodes) => {
            rep.count("calls", 1);
            let mut first_bad = None;
            for k in 1..n {
                let e = ctx.eval(&json!(["ref", k])).expect("ref");
                if nodes.get(k) != Some(&e) {
                    first_bad = Some(k);
                    break;
                }
            }
            if nodes.len() != n || first_bad.is_some() {
                bad(rep, "build_merkle_nodes", "node_differs", json!({"len": nodes.len(), "position": first_bad}));
            }
            #[cfg(feature = "concurrent")]
            {
                let subtrees = winter_utils::rayon::current_num_threads().next_power_of_two();
                if n / 2 >= subtrees {
                    match catch(|| winter_crypto::concurrent::build_merkle_nodes::<H>(&leaves)) {
                        Ok(cn) => {
                            rep.count("calls", 1);
                            rep.count("concurrent_builds", 1);
                            if cn != nodes {
                                let pos = (0..n).find(|&k| cn.get(k) != nodes.get(k));
                                bad(rep, "concurrent::build_merkle_nodes", "differs_from_serial",
                                    json!({"position": pos, "pool": winter_utils::rayon::current_num_threads()}));
                            }
                        },
                        Err(p) => bad(rep, "concurrent::build_merkle_nodes", "panic", json!({"panic": p})),
                    }
                }
            }
        },
        Err(p) => bad(rep, "build_merkle_nodes", "panic", json!({"panic": p})),
    }
    // single openings
    for s in rec["singles"].as_array().cloned().unwrap_or_default() {
        let i = s["i"].as_u64().unwrap() as usize;
        let leaf = ctx.eval(&s["leaf"]).expect("leaf term");
        let path = ctx.eval_seq(&s["proof"]).expect("proof terms");
        rep.count("singles", 1);
        rep.count("calls", 2);
        match catch(|| tree.prove(i)) {
            Ok(Ok((l, p))) => {
                if l != leaf || p != path {
                    bad(rep, "prove", "wrong_opening", json!({"index": i, "len": p.len()}));
                }
                match catch(|| MerkleTree::<H>::verify(*tree.root(), i, l, &p)) {
                    Ok(Ok(())) => {},
                    Ok(Err(e)) => bad(rep, "verify", "rejects_honest_opening", json!({"index": i, "error": e.to_string()})),
                    Err(pm) => bad(rep, "verify", "panic", json!({"index": i, "panic": pm})),
                }
            },
            Ok(Err(e)) => bad(rep, "prove", "error", json!({"index": i, "error": e.to_string()})),
            Err(pm) => bad(rep, "prove", "panic", json!({"index": i, "panic": pm})),
        }
        // the opening described by the specification verifies too
        match catch(|| MerkleTree::<H>::verify(exp_root, i, leaf, &path)) {
            Ok(Ok(())) => {},
            Ok(Err(e)) => bad(rep, "verify", "rejects_specified_opening", json!({"index": i, "error": e.to_string()})),
            Err(pm) => bad(rep, "verify", "panic", json!({"index": i, "panic": pm})),
        }
    }
    Some(Tree { ctx, tree, root: exp_root })
}

fn batch_record<H: Hasher>(rec: &Value, t: &mut Tree<H>, rep: &mut Report, bad: &mut Bad) {
    let idx = indexes_of(&rec["idx"]);
    let exp_leaves = t.ctx.eval_seq(&rec["leaves"]).expect("leaf terms");
    let exp_open = t.ctx.eval_seq2(&rec["openings"]).expect("opening terms");
    let exp_nodes = t.ctx.eval_seq2(&rec["nodes"]).expect("node terms");
    let root = t.root;
    let tree = &t.tree;
    rep.count("batches", 1);
    // route 1: prove_batch
    let (lv, bp) = match catch(|| tree.prove_batch(&idx)) {
        Ok(Ok(x)) => x,
        Ok(Err(e)) => return bad(rep, "prove_batch", "error", json!({"error": e.to_string()})),
        Err(p) => return bad(rep, "prove_batch", "panic", json!({"panic": p})),
    };
    rep.count("calls", 1);
    if lv != exp_leaves {
        bad(rep, "prove_batch", "wrong_leaves", json!({"got": lv.iter().map(hex).collect::<Vec<_>>()}));
    }
    // information only: the layout of the proof object is not part of the property
    if bp.nodes != exp_nodes || bp.depth as u64 != rec["depth"].as_u64().unwrap_or(u64::MAX) {
        rep.count("format_divergence", 1);
    }
    // verification and root reconstruction
    rep.count("calls", 2);
    match catch(|| MerkleTree::<H>::verify_batch(&root, &idx, &lv, &bp)) {
        Ok(Ok(())) => {},
        Ok(Err(e)) => bad(rep, "verify_batch", "rejects_honest_proof", json!({"error": e.to_string()})),
        Err(p) => bad(rep, "verify_batch", "panic", json!({"panic": p})),
    }
    match catch(|| bp.get_root(&idx, &lv)) {
        Ok(Ok(r)) => {
            if r != root {
                bad(rep, "get_root", "wrong_root", json!({"got": hex(&r), "expected": hex(&root)}));
            }
        },
        Ok(Err(e)) => bad(rep, "get_root", "error", json!({"error": e.to_string()})),
        Err(p) => bad(rep, "get_root", "panic", json!({"panic": p})),
    }
    // route 2: from single openings
    let mut singles = Vec::with_capacity(idx.len());
    let mut singles_ok = true;
    for (k, &i) in idx.iter().enumerate() {
        rep.count("calls", 1);
        match catch(|| tree.prove(i)) {
            Ok(Ok((l, p))) => {
                if l != exp_leaves[k] || p != exp_open[k] {
                    bad(rep, "prove", "wrong_opening", json!({"index": i}));
                }
                singles.push((l, p));
            },
            Ok(Err(e)) => {
                singles_ok = false;
                bad(rep, "prove", "error", json!({"index": i, "error": e.to_string()}));
            },
            Err(pm) => {
                singles_ok = false;
                bad(rep, "prove", "panic", json!({"index": i, "panic": pm}));
            },
        }
    }
    if singles_ok {
        rep.count("calls", 1);
        match catch(|| BatchMerkleProof::<H>::from_single_proofs(&singles, &idx)) {
            Ok(bp2) => {
                if bp2.nodes != bp.nodes || bp2.depth != bp.depth {
                    bad(rep, "from_single_proofs", "differs_from_prove_batch",
                        json!({"lens_single": bp2.nodes.iter().map(|v| v.len()).collect::<Vec<_>>(),
                               "lens_batch": bp.nodes.iter().map(|v| v.len()).collect::<Vec<_>>(),
                               "depths": [bp2.depth, bp.depth]}));
                }
            },
            Err(p) => bad(rep, "from_single_proofs", "panic", json!({"panic": p})),
        }
    }
    // expansion
    rep.count("calls", 1);
    let expected: Vec<(H::Digest, Vec<H::Digest>)> =
        exp_leaves.iter().copied().zip(exp_open.iter().cloned()).collect();
    let copy = BatchMerkleProof::<H> { nodes: bp.nodes.clone(), depth: bp.depth };
    match catch(|| copy.into_openings(&lv, &idx)) {
        Ok(Ok(ops)) => {
            if ops != expected {
                let pos = (0..expected.len()).find(|&k| ops.get(k) != expected.get(k));
                bad(rep, "into_openings", "wrong_openings", json!({"count": ops.len(), "first_bad": pos}));
            }
        },
        Ok(Err(e)) => bad(rep, "into_openings", "error", json!({"error": e.to_string()})),
        Err(p) => bad(rep, "into_openings", "panic", json!({"panic": p})),
    }
}
