//! Term evaluator (mechanism C): `["leaf", i]`, `["x", j]`, `["ref", k]`, `["m", a, b]`.
//! The evaluator knows nothing about tree shape: a reference is whatever the table printed by the
//! specification says it is, a merge is one call of the real `Hasher::merge`.
use serde_json::Value;
use winter_crypto::{Digest, Hasher};

pub fn leaf_digest<H: Hasher>(i: usize) -> H::Digest {
    let mut b = b"leaf".to_vec();
    b.extend_from_slice(&(i as u64).to_le_bytes());
    H::hash(&b)
}

pub fn foreign_digest<H: Hasher>(j: usize) -> H::Digest {
    let mut b = b"foreign".to_vec();
    b.extend_from_slice(&(j as u64).to_le_bytes());
    H::hash(&b)
}

pub fn hex<D: Digest>(d: &D) -> String {
    d.as_bytes()[..8].iter().map(|b| format!("{b:02x}")).collect()
}

pub struct TreeCtx<H: Hasher> {
    pub n: usize,
    pub leaves: Vec<H::Digest>,
    table: Vec<Value>,
    memo: Vec<Option<H::Digest>>,
}

impl<H: Hasher> TreeCtx<H> {
    pub fn new(rec: &Value) -> Self {
        let n = rec["n"].as_u64().expect("n") as usize;
        let table = rec["table"].as_array().expect("table").clone();
        let leaves = (0..n).map(leaf_digest::<H>).collect();
        let memo = vec![None; table.len() + 1];
        TreeCtx { n, leaves, table, memo }
    }

    pub fn eval(&mut self, t: &Value) -> Result<H::Digest, String> {
        let a = t.as_array().ok_or_else(|| format!("bad term {t}"))?;
        let tag = a.first().and_then(|x| x.as_str()).ok_or_else(|| format!("bad term {t}"))?;
        match tag {
            "leaf" => {
                let i = a[1].as_u64().ok_or("bad leaf")? as usize;
                self.leaves.get(i).copied().ok_or_else(|| format!("leaf {i} outside the tree"))
            },
            "x" => Ok(foreign_digest::<H>(a[1].as_u64().ok_or("bad foreign")? as usize)),
            "m" => {
                let l = self.eval(&a[1])?;
                let r = self.eval(&a[2])?;
                Ok(H::merge(&[l, r]))
            },
            "ref" => {
                let k = a[1].as_u64().ok_or("bad ref")? as usize;
                if k == 0 || k > self.table.len() {
                    return Err(format!("ref {k} outside the table"));
                }
                if let Some(d) = self.memo[k] {
                    return Ok(d);
                }
                let def = self.table[k - 1].clone();
                let d = self.eval(&def)?;
                self.memo[k] = Some(d);
                Ok(d)
            },
            _ => Err(format!("unknown term constructor {tag}")),
        }
    }

    pub fn eval_seq(&mut self, v: &Value) -> Result<Vec<H::Digest>, String> {
        v.as_array().ok_or_else(|| format!("not a sequence: {v}"))?.iter().map(|t| self.eval(t)).collect()
    }

    pub fn eval_seq2(&mut self, v: &Value) -> Result<Vec<Vec<H::Digest>>, String> {
        v.as_array().ok_or_else(|| format!("not a sequence: {v}"))?.iter().map(|t| self.eval_seq(t)).collect()
    }
}

/// An index is a JSON number or `["le", [bytes]]` (little-endian, for values TLC cannot hold).
pub fn index_of(v: &Value) -> usize {
    if let Some(x) = v.as_u64() {
        return x as usize;
    }
    let bytes = v[1].as_array().expect("le bytes");
    let mut x: u64 = 0;
    for (i, b) in bytes.iter().enumerate() {
        x |= (b.as_u64().unwrap() & 0xff) << (8 * i);
    }
    x as usize
}

pub fn indexes_of(v: &Value) -> Vec<usize> {
    v.as_array().map(|a| a.iter().map(index_of).collect()).unwrap_or_default()
}
