//! Cases (AIR description x options x field x hasher), honest proof generation, guarded
//! deserialisation / verification, parsed-component extraction and the proof field map.
use std::{marker::PhantomData, sync::Arc};

use serde::Deserialize;
use serde_json::{json, Value};
use wfcommon::util::catch;
use winter_utils::{ByteReader, Deserializable, Serializable, SliceReader};
use winterfell::{
    crypto::{
        hashers::{Blake3_192, Blake3_256, Rp62_248, Rp64_256, RpJive64_256, Sha3_256},
        DefaultRandomCoin, ElementHasher, Hasher, MerkleTree,
    },
    math::{
        fields::{f128, f62, f64, CubeExtension, QuadExtension},
        ExtensibleField, FieldElement, StarkField,
    },
    AcceptableOptions, Air, BatchingMethod, FieldExtension, Proof, ProofOptions, Prover,
};

use crate::air::{AirDesc, WireAir, WireProver, WirePub, WireTrace};

#[derive(Deserialize, Debug, Clone)]
pub struct Opts {
    pub queries: usize,
    pub blowup: usize,
    pub grind: u32,
    pub ext: usize,
    pub fold: usize,
    pub rem: usize,
    #[serde(default)]
    pub cbatch: usize,
    #[serde(default)]
    pub dbatch: usize,
    #[serde(default = "one")]
    pub parts: usize,
    #[serde(default = "one")]
    pub hash_rate: usize,
}
fn one() -> usize {
    1
}

pub fn batching(k: usize) -> BatchingMethod {
    match k {
        0 => BatchingMethod::Linear,
        1 => BatchingMethod::Algebraic,
        _ => BatchingMethod::Horner,
    }
}

pub fn extension(k: usize) -> FieldExtension {
    match k {
        1 => FieldExtension::None,
        2 => FieldExtension::Quadratic,
        _ => FieldExtension::Cubic,
    }
}

impl Opts {
    pub fn build(&self) -> ProofOptions {
        let o = ProofOptions::new(
            self.queries,
            self.blowup,
            self.grind,
            extension(self.ext),
            self.fold,
            self.rem,
            batching(self.cbatch),
            batching(self.dbatch),
        );
        o.with_partitions(self.parts, self.hash_rate)
    }
}

#[derive(Deserialize, Debug, Clone)]
pub struct Case {
    pub desc: AirDesc,
    pub opts: Opts,
    pub field: String,
    pub hash: String,
}

pub fn hex(b: &[u8]) -> String {
    let mut s = String::with_capacity(b.len() * 2);
    for x in b {
        s.push_str(&format!("{x:02x}"));
    }
    s
}

pub fn unhex(s: &str) -> Vec<u8> {
    (0..s.len() / 2).map(|i| u8::from_str_radix(&s[2 * i..2 * i + 2], 16).unwrap_or(0)).collect()
}

/// Result class of a guarded call.
#[derive(Debug, Clone)]
pub enum Out3 {
    Ok,
    Err(String),
    Panic(String),
}

impl Out3 {
    pub fn json(&self) -> Value {
        match self {
            Out3::Ok => json!(["ok", ""]),
            Out3::Err(e) => json!(["err", e]),
            Out3::Panic(p) => json!(["panic", p]),
        }
    }
}

/// The parsed contents of a proof (the list in property C04), each as canonical bytes obtained by
/// re-serialising what the real parsers returned (raw struct bytes when a parser refused).
#[derive(Debug, Clone, PartialEq, Eq)]
pub struct Parsed {
    pub ctx: Vec<u8>,
    pub uq: u8,
    pub com: Vec<u8>,
    pub tq: Vec<Vec<u8>>,
    pub cq: Vec<u8>,
    pub ood: Vec<u8>,
    pub fri_layers: Vec<u8>,
    pub fri_rem: Vec<u8>,
    pub fri_parts: Vec<u8>,
    pub nonce: u64,
}

impl Parsed {
    /// names of the components that differ
    pub fn diff(&self, o: &Parsed) -> Vec<&'static str> {
        let mut d = vec![];
        if self.ctx != o.ctx {
            d.push("context");
        }
        if self.uq != o.uq {
            d.push("unique_queries");
        }
        if self.com != o.com {
            d.push("commitments");
        }
        if self.tq != o.tq {
            d.push("trace_queries");
        }
        if self.cq != o.cq {
            d.push("constraint_queries");
        }
        if self.ood != o.ood {
            d.push("ood_frame");
        }
        if self.fri_layers != o.fri_layers {
            d.push("fri_layers");
        }
        if self.fri_rem != o.fri_rem {
            d.push("fri_remainder");
        }
        if self.fri_parts != o.fri_parts {
            d.push("fri_partitions");
        }
        if self.nonce != o.nonce {
            d.push("pow_nonce");
        }
        d
    }
}

/// Parameters the verifier derives from the honest AIR instance (used to drive the component parsers).
#[derive(Debug, Clone)]
pub struct Params {
    pub segments: usize,
    pub main_width: usize,
    pub aux_width: usize,
    pub comp_cols: usize,
    pub lde: usize,
    pub fold: usize,
    pub fri_layers: usize,
    pub digest_bytes: usize,
    pub base_bytes: usize,
    pub ext_bytes: usize,
}

pub trait Runner {
    /// honest proof of the case
    fn prove(&self, case: &Case) -> Result<Proof, String>;
    /// verify with variant "optset" | "conj" | "proven" (acceptable options); `pub_delta` is added to the
    /// first public value (0 = the honest public inputs)
    fn verify(&self, case: &Case, proof: Proof, variant: &str, pub_delta: u32) -> Out3;
    fn params(&self, case: &Case) -> Params;
    fn parsed(&self, case: &Case, proof: &Proof) -> Parsed;
    fn field_map(&self, case: &Case, proof: &Proof) -> Vec<Value>;
}

pub struct R<B, H>(PhantomData<(B, H)>);

fn honest_values<B: StarkField>(desc: &AirDesc) -> (Vec<Vec<B>>, Vec<B>) {
    let cols = desc.build_main::<B>();
    let vals = desc.assertion_values(&cols);
    (cols, vals)
}

pub fn err_class(e: &winterfell::VerifierError) -> String {
    let s = format!("{e:?}");
    if std::env::var("WF_WIRE_FULLERR").is_ok() {
        return s; // diagnostics only
    }
    s.split(|c| c == '(' || c == ' ' || c == '{').next().unwrap_or("").to_string()
}

fn ser_elems<E: FieldElement>(v: &[E]) -> Vec<u8> {
    let mut out = vec![];
    for e in v {
        e.write_into(&mut out);
    }
    out
}

fn parse_queries<E, H>(q: &winterfell::Proof, which: usize, p: &Params, uq: usize, width: usize) -> Vec<u8>
where
    E: FieldElement,
    H: ElementHasher<BaseField = E::BaseField>,
{
    // which: index into trace_queries, or usize::MAX for the constraint queries
    let queries = if which == usize::MAX { q.constraint_queries.clone() } else { q.trace_queries[which].clone() };
    let raw = queries.to_bytes();
    if uq == 0 || width == 0 {
        return raw;
    }
    let lde = p.lde;
    match catch(move || queries.parse::<E, H, MerkleTree<H>>(lde, uq, width)) {
        Ok(Ok((proof, table))) => {
            let mut out = vec![1u8];
            out.extend(proof.to_bytes());
            for row in table.rows() {
                out.extend(ser_elems(row));
            }
            out
        },
        _ => {
            let mut out = vec![0u8];
            out.extend(raw);
            out
        },
    }
}

fn parsed_ext<B, H, E>(case: &Case, p: &Params, proof: &Proof) -> Parsed
where
    B: StarkField,
    H: ElementHasher<BaseField = B>,
    E: FieldElement<BaseField = B>,
{
    let _ = case;
    let uq = proof.num_unique_queries as usize;
    // commitments
    let com = {
        let c = proof.commitments.clone();
        let raw = c.to_bytes();
        let (s, l) = (p.segments, p.fri_layers);
        match catch(move || c.parse::<H>(s, l)) {
            Ok(Ok((t, c, f))) => {
                let mut out = vec![1u8];
                for d in t.iter().chain(std::iter::once(&c)).chain(f.iter()) {
                    d.write_into(&mut out);
                }
                out
            },
            _ => {
                let mut out = vec![0u8];
                out.extend(raw);
                out
            },
        }
    };
    let mut tq = vec![];
    for i in 0..proof.trace_queries.len() {
        if i == 0 {
            tq.push(parse_queries::<B, H>(proof, 0, p, uq, p.main_width));
        } else {
            tq.push(parse_queries::<E, H>(proof, i, p, uq, p.aux_width));
        }
    }
    let cq = parse_queries::<E, H>(proof, usize::MAX, p, uq, p.comp_cols);
    let ood = {
        let o = proof.ood_frame.clone();
        let raw = o.to_bytes();
        let (mw, aw, cc) = (p.main_width, p.aux_width, p.comp_cols);
        match catch(move || o.parse::<E>(mw, aw, cc)) {
            Ok(Ok((t, q))) => {
                let mut out = vec![1u8];
                out.extend(ser_elems(t.current_row()));
                out.extend(ser_elems(t.next_row()));
                out.extend(ser_elems(q.current_row()));
                out.extend(ser_elems(q.next_row()));
                out
            },
            _ => {
                let mut out = vec![0u8];
                out.extend(raw);
                out
            },
        }
    };
    let fri = proof.fri_proof.clone();
    let fri_raw = fri.to_bytes();
    let fri_rem = {
        let f = fri.clone();
        match catch(move || f.parse_remainder::<E>()) {
            Ok(Ok(r)) => {
                let mut out = vec![1u8];
                out.extend(ser_elems(&r));
                out
            },
            _ => vec![0u8],
        }
    };
    let nl = fri.num_layers();
    let fri_parts = {
        let f = fri.clone();
        match catch(move || f.num_partitions()) {
            Ok(n) => (n as u64).to_le_bytes().to_vec(),
            Err(_) => vec![0xEE],
        }
    };
    let fri_layers = {
        let (lde, fold) = (p.lde, p.fold);
        match catch(move || fri.parse_layers::<E, H, MerkleTree<H>>(lde, fold)) {
            Ok(Ok((qs, ps))) => {
                let mut out = vec![1u8, nl as u8];
                for (q, pr) in qs.iter().zip(ps.iter()) {
                    out.extend((q.len() as u32).to_le_bytes());
                    out.extend(ser_elems(q));
                    out.extend(pr.to_bytes());
                }
                out
            },
            _ => {
                // layers could not be parsed with the honest schedule: fall back to the raw struct
                let mut out = vec![0u8, nl as u8];
                out.extend(fri_raw);
                out
            },
        }
    };
    Parsed {
        ctx: proof.context.to_bytes(),
        uq: proof.num_unique_queries,
        com,
        tq,
        cq,
        ood,
        fri_layers,
        fri_rem,
        fri_parts,
        nonce: proof.pow_nonce,
    }
}

// ------------------------------------------------------------------------------------------------
// field map: offsets and lengths of every encoded field of a proof.  Computed by walking the
// proof's own re-serialisation with the real reader; the specification (spec/wire/ProofWire.tla)
// validates it against the byte grammar before using it.
// ------------------------------------------------------------------------------------------------

struct Walker<'a> {
    r: SliceReader<'a>,
    pos: usize,
    out: Vec<Value>,
    ok: bool,
}

impl<'a> Walker<'a> {
    fn new(b: &'a [u8]) -> Self {
        Walker { r: SliceReader::new(b), pos: 0, out: vec![], ok: true }
    }
    fn push(&mut self, g: &str, n: &str, len: usize, v: i64) {
        self.out.push(json!({"g": g, "n": n, "o": self.pos, "l": len, "v": v}));
        self.pos += len;
    }
    fn u8(&mut self, g: &str, n: &str) -> usize {
        match self.r.read_u8() {
            Ok(v) => {
                self.push(g, n, 1, v as i64);
                v as usize
            },
            Err(_) => {
                self.ok = false;
                0
            },
        }
    }
    fn u16(&mut self, g: &str, n: &str) -> usize {
        match self.r.read_u16() {
            Ok(v) => {
                self.push(g, n, 2, v as i64);
                v as usize
            },
            Err(_) => {
                self.ok = false;
                0
            },
        }
    }
    fn u32(&mut self, g: &str, n: &str) -> usize {
        match self.r.read_u32() {
            Ok(v) => {
                self.push(g, n, 4, (v & 0x7fff_ffff) as i64);
                v as usize
            },
            Err(_) => {
                self.ok = false;
                0
            },
        }
    }
    fn vint(&mut self, g: &str, n: &str) -> usize {
        let first = self.r.peek_u8().unwrap_or(1);
        let len = (first.trailing_zeros() as usize + 1).min(9);
        match self.r.read_usize() {
            Ok(v) => {
                self.push(g, n, len, (v & 0x7fff_ffff) as i64);
                v
            },
            Err(_) => {
                self.ok = false;
                0
            },
        }
    }
    fn bytes(&mut self, g: &str, n: &str, len: usize) {
        if self.r.read_slice(len).is_err() {
            self.ok = false;
            return;
        }
        self.push(g, n, len, -1);
    }
    fn bmp(&mut self, g: &str, digest: usize) {
        self.u8(g, "bmp.depth");
        let n = self.vint(g, "bmp.ncnt");
        for _ in 0..n {
            if !self.ok {
                return;
            }
            let c = self.vint(g, "bmp.vcnt");
            self.bytes(g, "bmp.nodes", c * digest);
        }
    }
    fn queries(&mut self, g: &str, digest: usize) {
        let vl = self.vint(g, "q.vlen");
        self.bytes(g, "q.vals", vl);
        self.vint(g, "q.plen");
        self.bmp(g, digest);
    }
}

fn field_map_impl(p: &Params, proof: &Proof) -> Vec<Value> {
    let bytes = proof.to_bytes();
    let mut w = Walker::new(&bytes);
    w.u8("ctx", "ti.main");
    w.u8("ctx", "ti.aux");
    w.u8("ctx", "ti.rands");
    w.u8("ctx", "ti.logn");
    let ml = w.u16("ctx", "ti.metalen");
    w.bytes("ctx", "ti.meta", ml);
    let modl = w.u8("ctx", "modlen");
    w.bytes("ctx", "mod", modl);
    for n in ["opt.queries", "opt.blowup", "opt.grind", "opt.ext", "opt.fold", "opt.rem", "opt.cbatch", "opt.dbatch", "opt.parts", "opt.hrate"] {
        w.u8("ctx", n);
    }
    w.vint("ctx", "ncons");
    w.u8("uq", "uq");
    let cl = w.u16("com", "com.len");
    let nd = if p.digest_bytes > 0 { cl / p.digest_bytes } else { 0 };
    for _ in 0..nd {
        w.bytes("com", "com.d", p.digest_bytes);
    }
    if cl > nd * p.digest_bytes {
        w.bytes("com", "com.tail", cl - nd * p.digest_bytes);
    }
    for i in 0..proof.trace_queries.len() {
        w.queries(&format!("tq{i}"), p.digest_bytes);
    }
    w.queries("cq", p.digest_bytes);
    let tl = w.u16("ood", "ood.tlen");
    if tl > 0 {
        w.u8("ood", "ood.tfsz");
        w.bytes("ood", "ood.tvals", tl - 1);
    }
    let ql = w.u16("ood", "ood.qlen");
    if ql > 0 {
        w.u8("ood", "ood.qfsz");
        w.bytes("ood", "ood.qvals", ql - 1);
    }
    let nl = w.u8("fri", "fri.nlayers");
    for i in 0..nl {
        let g = format!("fl{i}");
        let vl = w.u32(&g, "fl.vlen");
        w.bytes(&g, "fl.vals", vl);
        w.u32(&g, "fl.plen");
        w.bmp(&g, p.digest_bytes);
    }
    let rl = w.u16("fri", "fri.remlen");
    w.bytes("fri", "fri.rem", rl);
    w.u8("fri", "fri.parts");
    w.bytes("nonce", "nonce", 8);
    if !w.ok || w.pos != bytes.len() {
        w.out.push(json!({"g": "error", "n": "walker", "o": w.pos, "l": 0, "v": -1}));
    }
    w.out
}

impl<B, H> Runner for R<B, H>
where
    B: StarkField + ExtensibleField<2> + ExtensibleField<3> + 'static,
    H: ElementHasher<BaseField = B> + Sync,
{
    fn prove(&self, case: &Case) -> Result<Proof, String> {
        let desc = Arc::new(case.desc.clone());
        let (cols, vals) = honest_values::<B>(&desc);
        let trace = WireTrace::new(desc, cols, vals);
        let prover = WireProver::<B, H>::new(case.opts.build());
        match catch(|| prover.prove(trace)) {
            Err(p) => Err(format!("prover panic: {p}")),
            Ok(Err(e)) => Err(format!("prover error: {e:?}")),
            Ok(Ok(p)) => Ok(p),
        }
    }

    fn verify(&self, case: &Case, proof: Proof, variant: &str, pub_delta: u32) -> Out3 {
        let desc = Arc::new(case.desc.clone());
        let (_, mut vals) = honest_values::<B>(&desc);
        if pub_delta != 0 && !vals.is_empty() {
            vals[0] += B::from(pub_delta);
        }
        let pub_inputs = WirePub { desc, values: vals };
        let acceptable = match variant {
            "optset" => AcceptableOptions::OptionSet(vec![case.opts.build()]),
            "conj" => AcceptableOptions::MinConjecturedSecurity(0),
            _ => AcceptableOptions::MinProvenSecurity(0),
        };
        match catch(move || {
            winterfell::verify::<WireAir<B>, H, DefaultRandomCoin<H>, MerkleTree<H>>(proof, pub_inputs, &acceptable)
        }) {
            Err(p) => Out3::Panic(p),
            Ok(Err(e)) => Out3::Err(err_class(&e)),
            Ok(Ok(())) => Out3::Ok,
        }
    }

    fn params(&self, case: &Case) -> Params {
        let desc = Arc::new(case.desc.clone());
        let (_, vals) = honest_values::<B>(&desc);
        let pub_inputs = WirePub { desc: desc.clone(), values: vals };
        let air = WireAir::<B>::new(desc.trace_info(), pub_inputs, case.opts.build());
        let fo = air.options().to_fri_options();
        let digest_bytes = <H as Hasher>::Digest::default().to_bytes().len();
        Params {
            segments: air.trace_info().num_segments(),
            main_width: air.trace_info().main_trace_width(),
            aux_width: air.trace_info().aux_segment_width(),
            comp_cols: air.context().num_constraint_composition_columns(),
            lde: air.lde_domain_size(),
            fold: fo.folding_factor(),
            fri_layers: fo.num_fri_layers(air.lde_domain_size()),
            digest_bytes,
            base_bytes: B::ELEMENT_BYTES,
            ext_bytes: B::ELEMENT_BYTES * case.opts.ext,
        }
    }

    fn parsed(&self, case: &Case, proof: &Proof) -> Parsed {
        let p = self.params(case);
        match case.opts.ext {
            1 => parsed_ext::<B, H, B>(case, &p, proof),
            2 => parsed_ext::<B, H, QuadExtension<B>>(case, &p, proof),
            _ => parsed_ext::<B, H, CubeExtension<B>>(case, &p, proof),
        }
    }

    fn field_map(&self, case: &Case, proof: &Proof) -> Vec<Value> {
        field_map_impl(&self.params(case), proof)
    }
}

pub fn runner(field: &str, hash: &str) -> Option<Box<dyn Runner>> {
    type B64 = f64::BaseElement;
    type B62 = f62::BaseElement;
    type B128 = f128::BaseElement;
    Some(match (field, hash) {
        ("f64", "blake3_256") => Box::new(R::<B64, Blake3_256<B64>>(PhantomData)),
        ("f64", "blake3_192") => Box::new(R::<B64, Blake3_192<B64>>(PhantomData)),
        ("f64", "sha3_256") => Box::new(R::<B64, Sha3_256<B64>>(PhantomData)),
        ("f64", "rp64_256") => Box::new(R::<B64, Rp64_256>(PhantomData)),
        ("f64", "rpjive64_256") => Box::new(R::<B64, RpJive64_256>(PhantomData)),
        ("f62", "rp62_248") => Box::new(R::<B62, Rp62_248>(PhantomData)),
        ("f62", "blake3_256") => Box::new(R::<B62, Blake3_256<B62>>(PhantomData)),
        ("f128", "blake3_256") => Box::new(R::<B128, Blake3_256<B128>>(PhantomData)),
        ("f128", "sha3_256") => Box::new(R::<B128, Sha3_256<B128>>(PhantomData)),
        _ => return None,
    })
}

/// Guarded `Proof::from_bytes`.
pub fn deser(bytes: &[u8]) -> (Out3, Option<Proof>) {
    match catch(|| Proof::from_bytes(bytes)) {
        Err(p) => (Out3::Panic(p), None),
        Ok(Err(e)) => (Out3::Err(format!("{e:?}").split('(').next().unwrap_or("").to_string()), None),
        Ok(Ok(p)) => (Out3::Ok, Some(p)),
    }
}

/// The same decoding through the streaming reader (`ReadAdapter` over a chunked `std::io::Read`): proofs
/// are also read from files and sockets. Only the outcome class is reported.
pub fn deser_stream(bytes: &[u8]) -> Out3 {
    struct Chunked<'a> {
        data: &'a [u8],
        pos: usize,
    }
    impl std::io::Read for Chunked<'_> {
        fn read(&mut self, buf: &mut [u8]) -> std::io::Result<usize> {
            let n = buf.len().min(97).min(self.data.len() - self.pos);
            buf[..n].copy_from_slice(&self.data[self.pos..self.pos + n]);
            self.pos += n;
            Ok(n)
        }
    }
    let r = catch(|| {
        let mut src = Chunked { data: bytes, pos: 0 };
        let mut adapter = winter_utils::ReadAdapter::new(&mut src);
        <Proof as winter_utils::Deserializable>::read_from(&mut adapter).map(|_| ())
    });
    match r {
        Err(p) => Out3::Panic(p),
        Ok(Err(e)) => Out3::Err(format!("{e:?}").split('(').next().unwrap_or("").to_string()),
        Ok(Ok(())) => Out3::Ok,
    }
}

/// Engine `gen`: honest proofs with field maps, round trip and verdicts (C07 part 2; input of C04/C05).
pub fn gen_main(args: &[String]) -> i32 {
    let cases = wfcommon::util::read_ndjson(&args[0]);
    let mut out = wfcommon::util::Out::new();
    for (i, c) in cases.iter().enumerate() {
        let case: Case = match serde_json::from_value(c.clone()) {
            Ok(c) => c,
            Err(e) => {
                eprintln!("bad case {i}: {e}");
                return 2;
            },
        };
        let Some(r) = runner(&case.field, &case.hash) else {
            out.emit(&json!({"i": i, "ok": false, "error": "unsupported field/hash combination"}));
            continue;
        };
        let res = catch(|| {
            let proof = match r.prove(&case) {
                Ok(p) => p,
                Err(e) => return json!({"i": i, "ok": false, "error": e}),
            };
            let bytes = proof.to_bytes();
            let p = r.params(&case);
            let map = r.field_map(&case, &proof);
            // round trip: decode own encoding, nothing left over, equal value, equal re-encoding
            let mut reader = SliceReader::new(&bytes);
            let decoded = catch(|| Proof::read_from(&mut reader));
            let (rt, rt_detail, decoded) = match decoded {
                Err(pn) => ("panic", pn, None),
                Ok(Err(e)) => ("err", format!("{e:?}"), None),
                Ok(Ok(d)) => {
                    if reader.has_more_bytes() {
                        ("leftover", String::new(), Some(d))
                    } else if d != proof {
                        ("unequal", String::new(), Some(d))
                    } else if d.to_bytes() != bytes {
                        ("reencode_differs", String::new(), Some(d))
                    } else {
                        ("ok", String::new(), Some(d))
                    }
                },
            };
            let v_orig = r.verify(&case, proof.clone(), "optset", 0).json();
            let v_dec = match decoded {
                Some(d) => r.verify(&case, d, "optset", 0).json(),
                None => json!(["none", ""]),
            };
            json!({"i": i, "ok": true, "hex": hex(&bytes), "len": bytes.len(), "map": map,
                "rt": rt, "rt_detail": rt_detail, "verdict": v_orig, "verdict_decoded": v_dec,
                "uq": proof.num_unique_queries,
                "params": {"segments": p.segments, "main_width": p.main_width, "aux_width": p.aux_width,
                    "comp_cols": p.comp_cols, "lde": p.lde, "fold": p.fold, "fri_layers": p.fri_layers,
                    "digest_bytes": p.digest_bytes, "base_bytes": p.base_bytes, "ext_bytes": p.ext_bytes}})
        });
        match res {
            Ok(v) => out.emit(&v),
            Err(p) => out.emit(&json!({"i": i, "ok": false, "error": format!("setup panic: {p}")})),
        }
        out.flush();
    }
    0
}
