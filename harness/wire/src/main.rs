//! wf-wire — engines for the wire-format properties (C07 round trips, C04 tampering, C05 crash freedom).
#![allow(clippy::all)]
mod air;
mod decoders;
mod roundtrip;
mod run;
mod worker;

fn main() {
    let args: Vec<String> = std::env::args().collect();
    wfcommon::util::install_quiet_panic_hook();
    let code = match args.get(1).map(|s| s.as_str()) {
        Some("gen") => run::gen_main(&args[2..]),
        Some("worker") => worker::main(&args[2..]),
        Some("roundtrip") => roundtrip::main(&args[2..]),
        _ => {
            eprintln!("usage: wf-wire <gen|worker|roundtrip> ...");
            2
        },
    };
    std::process::exit(code);
}
