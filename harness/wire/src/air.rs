//! WireAir / WireProver: an `Air` + `Prover` interpreted from a JSON description (same description
//! language as harness/stark/src/genair.rs, copied because that crate belongs to another group).
//!
//! Difference from GenAir: WireAir is TOLERANT of the `TraceInfo` / `ProofOptions` handed to
//! `Air::new`.  In C04/C05 those come from attacker-controlled proof bytes; an AIR that asserts on
//! them would make *user code* panic and hide what winterfell itself does.  WireAir therefore
//!  * keeps the statement (constraints, assertion values) fixed by the public inputs,
//!  * sizes the auxiliary part after the trace info it is given,
//!  * drops assertions that fall outside the announced trace (always keeping cell (0,0)),
//!  * reads missing frame columns as zero.
//! With honest proofs it behaves exactly like GenAir.
use std::{marker::PhantomData, sync::Arc};

use serde::Deserialize;
use winter_maybe_async::maybe_async;
use winterfell::{
    crypto::{DefaultRandomCoin, ElementHasher, MerkleTree},
    math::{ExtensibleField, ExtensionOf, FieldElement, StarkField, ToElements},
    matrix::ColMatrix,
    Air, AirContext, Assertion, AuxRandElements, CompositionPoly, CompositionPolyTrace,
    ConstraintCompositionCoefficients, DefaultConstraintCommitment, DefaultConstraintEvaluator,
    DefaultTraceLde, EvaluationFrame, PartitionOptions, ProofOptions, Prover, StarkDomain, Trace,
    TraceInfo, TracePolyTable, TransitionConstraintDegree,
};

#[derive(Deserialize, Debug, Clone)]
pub struct Term {
    pub k: u32,
    /// variables: ("c"|"p", index)
    pub v: Vec<(String, usize)>,
}

#[derive(Deserialize, Debug, Clone)]
pub struct AssertDesc {
    pub t: String,
    pub col: usize,
    #[serde(default)]
    pub step: usize,
    #[serde(default)]
    pub first: usize,
    #[serde(default)]
    pub stride: usize,
    #[serde(default)]
    pub n: usize,
}

#[derive(Deserialize, Debug, Clone)]
pub struct AuxDesc {
    pub width: usize,
    pub rands: usize,
    pub src: Vec<usize>,
}

#[derive(Deserialize, Debug, Clone)]
pub struct AirDesc {
    pub width: usize,
    pub log_len: u32,
    pub cols: Vec<Vec<Term>>,
    #[serde(default)]
    pub periodic: Vec<Vec<u32>>,
    pub init: Vec<u32>,
    pub exemptions: usize,
    pub asserts: Vec<AssertDesc>,
    #[serde(default)]
    pub aux: Vec<AuxDesc>,
    #[serde(default)]
    pub meta: Vec<u8>,
}

impl AirDesc {
    pub fn len(&self) -> usize {
        1usize << self.log_len
    }

    fn degree(&self, j: usize) -> TransitionConstraintDegree {
        let n = self.len();
        let mut best: (usize, usize, Vec<usize>) = (n - 1, 1, vec![]);
        for t in &self.cols[j] {
            let d = t.v.iter().filter(|(k, _)| k == "c").count().max(1);
            let cycles: Vec<usize> =
                t.v.iter().filter(|(k, _)| k == "p").map(|(_, i)| self.periodic[*i].len()).collect();
            let eval = d * (n - 1) + cycles.iter().map(|c| (n / c) * (c - 1)).sum::<usize>();
            if eval > best.0 {
                best = (eval, d, cycles);
            }
        }
        if best.2.is_empty() {
            TransitionConstraintDegree::new(best.1)
        } else {
            TransitionConstraintDegree::with_cycles(best.1, best.2)
        }
    }

    pub fn next_value<E: FieldElement>(&self, j: usize, cur: &[E], per: &[E]) -> E {
        let mut acc = E::ZERO;
        for t in &self.cols[j] {
            let mut m = E::from(t.k);
            for (k, i) in &t.v {
                let src = if k == "c" { cur } else { per };
                m *= src.get(*i).copied().unwrap_or(E::ZERO);
            }
            acc += m;
        }
        acc
    }

    pub fn trace_info(&self) -> TraceInfo {
        match self.aux.first() {
            None => TraceInfo::with_meta(self.width, self.len(), self.meta.clone()),
            Some(a) => TraceInfo::new_multi_segment(self.width, a.width, a.rands, self.len(), self.meta.clone()),
        }
    }

    pub fn build_main<B: StarkField>(&self) -> Vec<Vec<B>> {
        let n = self.len();
        let mut cols: Vec<Vec<B>> = (0..self.width).map(|_| vec![B::ZERO; n]).collect();
        let mut cur: Vec<B> = self.init.iter().map(|v| B::from(*v)).collect();
        for i in 0..n {
            for j in 0..self.width {
                cols[j][i] = cur[j];
            }
            let per: Vec<B> = self.periodic.iter().map(|p| B::from(p[i % p.len()])).collect();
            let nxt: Vec<B> = (0..self.width).map(|j| self.next_value(j, &cur, &per)).collect();
            cur = nxt;
        }
        cols
    }

    /// Assertion values read from a main trace, flattened in description order.
    pub fn assertion_values<B: StarkField>(&self, main: &[Vec<B>]) -> Vec<B> {
        let mut out = vec![];
        for a in &self.asserts {
            match a.t.as_str() {
                "single" => out.push(main[a.col][a.step]),
                "periodic" => out.push(main[a.col][a.first]),
                _ => {
                    for k in 0..a.n {
                        out.push(main[a.col][a.first + k * a.stride]);
                    }
                },
            }
        }
        out
    }
}

// PUBLIC INPUTS
// ------------------------------------------------------------------------------------------------

#[derive(Clone)]
pub struct WirePub<B: StarkField> {
    pub desc: Arc<AirDesc>,
    pub values: Vec<B>,
}

impl<B: StarkField> ToElements<B> for WirePub<B> {
    fn to_elements(&self) -> Vec<B> {
        let mut v = self.values.clone();
        v.push(B::from(self.desc.width as u32));
        v.push(B::from(self.desc.exemptions as u32));
        v
    }
}

// AIR
// ------------------------------------------------------------------------------------------------

pub struct WireAir<B: StarkField> {
    context: AirContext<B>,
    desc: Arc<AirDesc>,
    assertions: Vec<Assertion<B>>,
}

fn build_assertions<B: StarkField>(desc: &AirDesc, values: &[B], width: usize, len: usize) -> Vec<Assertion<B>> {
    let mut out = vec![];
    let mut k = 0;
    let val = |i: usize| values.get(i).copied().unwrap_or(B::ZERO);
    for a in &desc.asserts {
        match a.t.as_str() {
            "single" => {
                if a.col < width && a.step < len {
                    out.push(Assertion::single(a.col, a.step, val(k)));
                }
                k += 1;
            },
            "periodic" => {
                if a.col < width && len == desc.len() {
                    out.push(Assertion::periodic(a.col, a.first, a.stride, val(k)));
                }
                k += 1;
            },
            _ => {
                if a.col < width && len == desc.len() {
                    out.push(Assertion::sequence(a.col, a.first, a.stride, (k..k + a.n).map(val).collect()));
                }
                k += a.n;
            },
        }
    }
    if out.is_empty() {
        out.push(Assertion::single(0, 0, val(0)));
    }
    out
}

impl<B: StarkField + ExtensibleField<2> + ExtensibleField<3>> Air for WireAir<B> {
    type BaseField = B;
    type PublicInputs = WirePub<B>;

    fn new(trace_info: TraceInfo, pub_inputs: WirePub<B>, options: ProofOptions) -> Self {
        let desc = pub_inputs.desc.clone();
        let degrees: Vec<_> = (0..desc.width).map(|j| desc.degree(j)).collect();
        let honest = desc.trace_info();
        let _ = honest;
        let assertions =
            build_assertions(&desc, &pub_inputs.values, trace_info.main_trace_width(), trace_info.length());
        let aw = trace_info.aux_segment_width();
        let context = if aw == 0 {
            AirContext::new(trace_info, degrees, assertions.len(), options)
        } else {
            let aux_degrees = vec![TransitionConstraintDegree::new(2); aw];
            AirContext::new_multi_segment(trace_info, degrees, aux_degrees, assertions.len(), aw, options)
        }
        .set_num_transition_exemptions(desc.exemptions);
        WireAir { context, desc, assertions }
    }

    fn context(&self) -> &AirContext<B> {
        &self.context
    }

    fn evaluate_transition<E: FieldElement<BaseField = B>>(
        &self,
        frame: &EvaluationFrame<E>,
        periodic_values: &[E],
        result: &mut [E],
    ) {
        let cur = frame.current();
        let nxt = frame.next();
        for j in 0..self.desc.width.min(result.len()) {
            let n = nxt.get(j).copied().unwrap_or(E::ZERO);
            result[j] = n - self.desc.next_value(j, cur, periodic_values);
        }
    }

    fn get_assertions(&self) -> Vec<Assertion<B>> {
        self.assertions.clone()
    }

    fn get_periodic_column_values(&self) -> Vec<Vec<B>> {
        self.desc.periodic.iter().map(|p| p.iter().map(|v| B::from(*v)).collect()).collect()
    }

    fn evaluate_aux_transition<F, E>(
        &self,
        main_frame: &EvaluationFrame<F>,
        aux_frame: &EvaluationFrame<E>,
        _periodic_values: &[F],
        aux_rand_elements: &AuxRandElements<E>,
        result: &mut [E],
    ) where
        F: FieldElement<BaseField = B>,
        E: FieldElement<BaseField = B> + ExtensionOf<F>,
    {
        let r = aux_rand_elements.rand_elements();
        let src: Vec<usize> = self.desc.aux.first().map(|a| a.src.clone()).unwrap_or_default();
        let rands = self.desc.aux.first().map(|a| a.rands).unwrap_or(1).max(1);
        for m in 0..result.len() {
            let s = if src.is_empty() { 0 } else { src[m % src.len()] };
            let f: E = main_frame.current().get(s).copied().map(|x| x.into()).unwrap_or(E::ZERO);
            let rr = r.get(m % rands).copied().unwrap_or(E::ONE);
            let c = aux_frame.current().get(m).copied().unwrap_or(E::ZERO);
            let n = aux_frame.next().get(m).copied().unwrap_or(E::ZERO);
            result[m] = n - c * (f + rr);
        }
    }

    fn get_aux_assertions<E: FieldElement<BaseField = B>>(
        &self,
        _aux_rand_elements: &AuxRandElements<E>,
    ) -> Vec<Assertion<E>> {
        (0..self.context.trace_info().aux_segment_width()).map(|m| Assertion::single(m, 0, E::ONE)).collect()
    }
}

// TRACE
// ------------------------------------------------------------------------------------------------

pub struct WireTrace<B: StarkField> {
    pub info: TraceInfo,
    pub main: ColMatrix<B>,
    pub desc: Arc<AirDesc>,
    pub values: Vec<B>,
}

impl<B: StarkField> WireTrace<B> {
    pub fn new(desc: Arc<AirDesc>, cols: Vec<Vec<B>>, values: Vec<B>) -> Self {
        WireTrace { info: desc.trace_info(), main: ColMatrix::new(cols), desc, values }
    }
}

impl<B: StarkField> Trace for WireTrace<B> {
    type BaseField = B;

    fn info(&self) -> &TraceInfo {
        &self.info
    }

    fn main_segment(&self) -> &ColMatrix<B> {
        &self.main
    }

    fn read_main_frame(&self, row_idx: usize, frame: &mut EvaluationFrame<B>) {
        let next = (row_idx + 1) % self.main.num_rows();
        self.main.read_row_into(row_idx, frame.current_mut());
        self.main.read_row_into(next, frame.next_mut());
    }
}

// PROVER
// ------------------------------------------------------------------------------------------------

pub struct WireProver<B: StarkField, H: ElementHasher> {
    pub options: ProofOptions,
    _p: PhantomData<(B, H)>,
}

impl<B: StarkField, H: ElementHasher> WireProver<B, H> {
    pub fn new(options: ProofOptions) -> Self {
        WireProver { options, _p: PhantomData }
    }
}

pub fn build_aux<B: StarkField, E: FieldElement<BaseField = B>>(
    desc: &AirDesc,
    main: &ColMatrix<B>,
    rands: &[E],
) -> Vec<Vec<E>> {
    let a = desc.aux.first().expect("aux description");
    let n = main.num_rows();
    let mut cols = vec![vec![E::ZERO; n]; a.width];
    for m in 0..a.width {
        cols[m][0] = E::ONE;
        for i in 1..n {
            let f: E = main.get(a.src[m % a.src.len()], i - 1).into();
            cols[m][i] = cols[m][i - 1] * (f + rands[m % a.rands]);
        }
    }
    cols
}

impl<B, H> Prover for WireProver<B, H>
where
    B: StarkField + ExtensibleField<2> + ExtensibleField<3> + 'static,
    H: ElementHasher<BaseField = B> + Sync,
{
    type BaseField = B;
    type Air = WireAir<B>;
    type Trace = WireTrace<B>;
    type HashFn = H;
    type VC = MerkleTree<H>;
    type RandomCoin = DefaultRandomCoin<H>;
    type TraceLde<E: FieldElement<BaseField = B>> = DefaultTraceLde<E, H, MerkleTree<H>>;
    type ConstraintCommitment<E: FieldElement<BaseField = B>> = DefaultConstraintCommitment<E, H, MerkleTree<H>>;
    type ConstraintEvaluator<'a, E: FieldElement<BaseField = B>> = DefaultConstraintEvaluator<'a, WireAir<B>, E>;

    fn get_pub_inputs(&self, trace: &WireTrace<B>) -> WirePub<B> {
        WirePub { desc: trace.desc.clone(), values: trace.values.clone() }
    }

    fn options(&self) -> &ProofOptions {
        &self.options
    }

    #[maybe_async]
    fn new_trace_lde<E: FieldElement<BaseField = B>>(
        &self,
        trace_info: &TraceInfo,
        main_trace: &ColMatrix<B>,
        domain: &StarkDomain<B>,
        partition_option: PartitionOptions,
    ) -> (Self::TraceLde<E>, TracePolyTable<E>) {
        DefaultTraceLde::new(trace_info, main_trace, domain, partition_option)
    }

    #[maybe_async]
    fn new_evaluator<'a, E: FieldElement<BaseField = B>>(
        &self,
        air: &'a WireAir<B>,
        aux_rand_elements: Option<AuxRandElements<E>>,
        composition_coefficients: ConstraintCompositionCoefficients<E>,
    ) -> Self::ConstraintEvaluator<'a, E> {
        DefaultConstraintEvaluator::new(air, aux_rand_elements, composition_coefficients)
    }

    #[maybe_async]
    fn build_constraint_commitment<E: FieldElement<BaseField = B>>(
        &self,
        composition_poly_trace: CompositionPolyTrace<E>,
        num_constraint_composition_columns: usize,
        domain: &StarkDomain<B>,
        partition_options: PartitionOptions,
    ) -> (Self::ConstraintCommitment<E>, CompositionPoly<E>) {
        DefaultConstraintCommitment::new(
            composition_poly_trace,
            num_constraint_composition_columns,
            domain,
            partition_options,
        )
    }

    #[maybe_async]
    fn build_aux_trace<E: FieldElement<BaseField = B>>(
        &self,
        main_trace: &WireTrace<B>,
        aux_rand_elements: &AuxRandElements<E>,
    ) -> ColMatrix<E> {
        ColMatrix::new(build_aux(&main_trace.desc, &main_trace.main, aux_rand_elements.rand_elements()))
    }
}
