//! Component decoders driven on arbitrary bytes (C05).  Arguments of the `parse` functions are kept
//! inside their documented preconditions (power-of-two domain, folding factor in {2,4,8,16}, at least
//! one query / value / column), so a panic is never a caller error.
use wfcommon::util::catch;
use winter_air::proof::{Commitments, Context, OodFrame, Queries};
use winter_fri::FriProof;
use winter_utils::Deserializable;
use winterfell::{
    crypto::{
        hashers::{Blake3_192, Blake3_256, Rp62_248, Rp64_256, RpJive64_256, Sha3_256},
        BatchMerkleProof, ElementHasher, Hasher, MerkleTree,
    },
    math::{
        fields::{f128, f62, f64, CubeExtension, QuadExtension},
        FieldElement, StarkField,
    },
    Proof, ProofOptions, TraceInfo,
};

use crate::run::Out3;

fn cls<T, E: core::fmt::Debug>(r: Result<Result<T, E>, String>) -> Out3 {
    match r {
        Err(p) => Out3::Panic(p),
        Ok(Err(e)) => Out3::Err(format!("{e:?}").split('(').next().unwrap_or("").to_string()),
        Ok(Ok(_)) => Out3::Ok,
    }
}

fn pow2(a: usize) -> usize {
    if a.is_power_of_two() {
        a
    } else {
        a.max(1).next_power_of_two()
    }
}

fn decode_ext<B, H, E>(name: &str, b: &[u8], a: &[usize]) -> Out3
where
    B: StarkField,
    H: ElementHasher<BaseField = B>,
    E: FieldElement<BaseField = B>,
{
    let arg = |i: usize, d: usize| a.get(i).copied().unwrap_or(d);
    match name {
        "TraceInfo" => cls(catch(|| TraceInfo::read_from_bytes(b))),
        "ProofOptions" => cls(catch(|| ProofOptions::read_from_bytes(b))),
        "Context" => cls(catch(|| Context::read_from_bytes(b))),
        "Proof" => cls(catch(|| Proof::from_bytes(b))),
        "Commitments" => cls(catch(|| Commitments::read_from_bytes(b).and_then(|c| c.parse::<H>(arg(0, 1), arg(1, 0))))),
        "Queries" => cls(catch(|| {
            Queries::read_from_bytes(b).and_then(|q| {
                q.parse::<E, H, MerkleTree<H>>(pow2(arg(0, 64)), arg(1, 1).clamp(1, 255), arg(2, 1).clamp(1, 255))
                    .map(|_| ())
            })
        })),
        "OodFrame" => cls(catch(|| {
            OodFrame::read_from_bytes(b)
                .and_then(|o| o.parse::<E>(arg(0, 1).max(1), arg(1, 0), arg(2, 1).max(1)).map(|_| ()))
        })),
        "FriProof" => cls(catch(|| {
            FriProof::read_from_bytes(b).and_then(|f| {
                let _ = f.num_layers();
                let _ = f.num_partitions();
                let _ = f.num_remainder_elements::<E>();
                let _ = f.size();
                let r = f.parse_remainder::<E>().map(|_| ());
                let fold = match arg(1, 4) {
                    2 | 4 | 8 | 16 => arg(1, 4),
                    _ => 4,
                };
                let l = f.parse_layers::<E, H, MerkleTree<H>>(pow2(arg(0, 64)), fold).map(|_| ());
                r.and(l)
            })
        })),
        "BatchMerkleProof" => cls(catch(|| BatchMerkleProof::<H>::read_from_bytes(b))),
        "Digest" => cls(catch(|| <H as Hasher>::Digest::read_from_bytes(b))),
        "Element" => cls(catch(|| E::read_from_bytes(b))),
        "BaseElement" => cls(catch(|| B::read_from_bytes(b))),
        "ElementVec" => cls(catch(|| Vec::<E>::read_from_bytes(b))),
        "DigestVec" => cls(catch(|| Vec::<<H as Hasher>::Digest>::read_from_bytes(b))),
        _ => Out3::Err("unknown decoder".into()),
    }
}

fn decode_bh<B, H>(name: &str, ext: usize, b: &[u8], a: &[usize]) -> Out3
where
    B: StarkField + winterfell::math::ExtensibleField<2> + winterfell::math::ExtensibleField<3>,
    H: ElementHasher<BaseField = B>,
{
    match ext {
        1 => decode_ext::<B, H, B>(name, b, a),
        2 => decode_ext::<B, H, QuadExtension<B>>(name, b, a),
        _ => decode_ext::<B, H, CubeExtension<B>>(name, b, a),
    }
}

pub fn decode(name: &str, field: &str, hash: &str, ext: usize, b: &[u8], a: &[usize]) -> Out3 {
    type B64 = f64::BaseElement;
    type B62 = f62::BaseElement;
    type B128 = f128::BaseElement;
    match (field, hash) {
        ("f64", "blake3_256") => decode_bh::<B64, Blake3_256<B64>>(name, ext, b, a),
        ("f64", "blake3_192") => decode_bh::<B64, Blake3_192<B64>>(name, ext, b, a),
        ("f64", "sha3_256") => decode_bh::<B64, Sha3_256<B64>>(name, ext, b, a),
        ("f64", "rp64_256") => decode_bh::<B64, Rp64_256>(name, ext, b, a),
        ("f64", "rpjive64_256") => decode_bh::<B64, RpJive64_256>(name, ext, b, a),
        ("f62", "rp62_248") => decode_bh::<B62, Rp62_248>(name, ext, b, a),
        ("f62", "blake3_256") => decode_bh::<B62, Blake3_256<B62>>(name, ext, b, a),
        ("f128", "blake3_256") => decode_bh::<B128, Blake3_256<B128>>(name, ext, b, a),
        ("f128", "sha3_256") => decode_bh::<B128, Sha3_256<B128>>(name, ext, b, a),
        _ => Out3::Err("unsupported field/hash".into()),
    }
}
