//! Engine `roundtrip` (C07): replay component descriptions generated from spec/wire/WireCodec.tla.
//! For every scenario: build the value with the REAL public constructor from the description,
//! serialise (must equal the byte image the specification computed), deserialise from those bytes
//! (must succeed, leave nothing, compare equal, re-serialise identically) and, for the types with a
//! typed parser, parse and compare the contents with the description.
use serde_json::{json, Value};
use wfcommon::util::{bytes_of, catch, read_ndjson, Out};
use winter_air::proof::{Commitments, Context, OodFrame, Queries, QuotientOodFrame, TraceOodFrame};
use winter_fri::FriProof;
use winter_utils::{ByteReader, Deserializable, Serializable, SliceReader};
use winterfell::{
    crypto::{
        hashers::{Blake3_192, Blake3_256, Rp62_248, Rp64_256, RpJive64_256, Sha3_256},
        BatchMerkleProof, ElementHasher, Hasher, MerkleTree,
    },
    math::{
        fields::{f128, f62, f64, CubeExtension, QuadExtension},
        ExtensibleField, FieldElement, StarkField,
    },
    ProofOptions, TraceInfo,
};

use crate::run::{batching, extension};

fn pat_byte(seed: u64, i: u64) -> u8 {
    ((i * 37 + seed * 11 + 91) % 256) as u8
}
fn pat_elem(seed: u64, i: u64) -> u64 {
    (i * 7919 + seed * 10007 + 13) % 65521
}

/// Expands the expected image (list of chunks) into bytes.
fn expand(chunks: &Value) -> Vec<u8> {
    let mut out = vec![];
    for ch in chunks.as_array().map(|v| v.as_slice()).unwrap_or(&[]) {
        let seed = ch["seed"].as_u64().unwrap_or(0);
        let n = ch["n"].as_u64().unwrap_or(0);
        let w = ch["w"].as_u64().unwrap_or(0);
        match ch["t"].as_str().unwrap_or("") {
            "lit" => out.extend(bytes_of(&ch["b"])),
            "pat" => out.extend((0..n).map(|i| pat_byte(seed, i))),
            "epat" => {
                for i in 0..n {
                    let mut b = pat_elem(seed, i).to_le_bytes().to_vec();
                    b.resize(w as usize, 0);
                    out.extend(b);
                }
            },
            "dpat" => {
                for j in 0..n {
                    out.extend((0..w).map(|i| pat_byte(seed + j, i)));
                }
            },
            _ => {},
        }
    }
    out
}

fn int_of(bytes: &[u8]) -> u128 {
    let mut b = [0u8; 16];
    for (i, x) in bytes.iter().take(16).enumerate() {
        b[i] = *x;
    }
    u128::from_le_bytes(b)
}

fn base<B: StarkField>(v: u128) -> B {
    match B::try_from(v) {
        Ok(b) => b,
        Err(_) => panic!("harness: description holds a non-canonical element {v}"),
    }
}

/// Builds extension elements from base-field coordinates (x coordinates per element).
fn elems_from_coords<B: StarkField, E: FieldElement<BaseField = B>>(coords: &[B]) -> Vec<E> {
    E::slice_from_base_elements(coords).to_vec()
}

pub trait DigestMaker: Hasher {
    fn make(d: &Value) -> Self::Digest;
    fn pattern(seed: u64, j: u64) -> Self::Digest;
}

macro_rules! byte_maker {
    ($h:ident, $n:expr) => {
        impl<B: StarkField> DigestMaker for $h<B> {
            fn make(d: &Value) -> Self::Digest {
                let b = bytes_of(&d["b"]);
                let mut a = [0u8; $n];
                a.copy_from_slice(&b[..$n]);
                <Self as Hasher>::Digest::new(a)
            }
            fn pattern(seed: u64, j: u64) -> Self::Digest {
                let mut a = [0u8; $n];
                for i in 0..$n {
                    a[i] = pat_byte(seed + j, i as u64);
                }
                <Self as Hasher>::Digest::new(a)
            }
        }
    };
}
byte_maker!(Blake3_256, 32);
byte_maker!(Blake3_192, 24);
byte_maker!(Sha3_256, 32);

macro_rules! elem_maker {
    ($h:ident, $b:ty) => {
        impl DigestMaker for $h {
            fn make(d: &Value) -> Self::Digest {
                let e: Vec<$b> =
                    d["e"].as_array().unwrap().iter().map(|c| base::<$b>(int_of(&bytes_of(c)))).collect();
                <Self as Hasher>::Digest::new([e[0], e[1], e[2], e[3]])
            }
            fn pattern(_seed: u64, _j: u64) -> Self::Digest {
                panic!("harness: pattern digests are defined for byte hashers only")
            }
        }
    };
}
elem_maker!(Rp64_256, f64::BaseElement);
elem_maker!(RpJive64_256, f64::BaseElement);
elem_maker!(Rp62_248, f62::BaseElement);

/// `BatchMerkleProof<H>` derives Clone/PartialEq only for `H: Clone + PartialEq`, which the hashers
/// are not; this wrapper compares and clones through the public fields.
struct Bmp<H: Hasher>(BatchMerkleProof<H>);
impl<H: Hasher> Clone for Bmp<H> {
    fn clone(&self) -> Self {
        Bmp(BatchMerkleProof { nodes: self.0.nodes.clone(), depth: self.0.depth })
    }
}
impl<H: Hasher> PartialEq for Bmp<H> {
    fn eq(&self, o: &Self) -> bool {
        self.0.nodes == o.0.nodes && self.0.depth == o.0.depth
    }
}
impl<H: Hasher> Serializable for Bmp<H> {
    fn write_into<W: winter_utils::ByteWriter>(&self, target: &mut W) {
        self.0.write_into(target)
    }
}
impl<H: Hasher> Deserializable for Bmp<H> {
    fn read_from<R: ByteReader>(source: &mut R) -> Result<Self, winter_utils::DeserializationError> {
        BatchMerkleProof::<H>::read_from(source).map(Bmp)
    }
}

fn digests<H: DigestMaker>(v: &Value) -> Vec<H::Digest> {
    v.as_array().map(|a| a.iter().map(|d| H::make(d)).collect()).unwrap_or_default()
}

fn bmp_of<H: DigestMaker>(d: &Value) -> BatchMerkleProof<H> {
    let nodes = d["nodes"].as_array().map(|a| a.iter().map(|v| digests::<H>(v)).collect()).unwrap_or_default();
    BatchMerkleProof { nodes, depth: d["depth"].as_u64().unwrap_or(0) as u8 }
}

fn trace_info_of(d: &Value) -> TraceInfo {
    let n = d["mlen"].as_u64().unwrap_or(0);
    let seed = d["mseed"].as_u64().unwrap_or(0);
    let meta: Vec<u8> = (0..n).map(|i| pat_byte(seed, i)).collect();
    TraceInfo::new_multi_segment(
        d["main"].as_u64().unwrap() as usize,
        d["aux"].as_u64().unwrap() as usize,
        d["rands"].as_u64().unwrap() as usize,
        1usize << d["logn"].as_u64().unwrap(),
        meta,
    )
}

fn options_of(d: &Value) -> ProofOptions {
    let g = |k: &str| d[k].as_u64().unwrap() as usize;
    ProofOptions::new(
        g("queries"),
        g("blowup"),
        g("grind") as u32,
        extension(g("ext")),
        g("fold"),
        g("rem"),
        batching(g("cbatch")),
        batching(g("dbatch")),
    )
    .with_partitions(g("parts"), g("hrate"))
}

pub static FORMAT_DIVERGENCE: std::sync::atomic::AtomicUsize = std::sync::atomic::AtomicUsize::new(0);

/// The generic round-trip law.  `extra` runs type-specific checks on the decoded value.
fn law<T>(value: T, image: &[u8], extra: impl FnOnce(T) -> Result<(), String>) -> Result<(), (String, String)>
where
    T: Serializable + Deserializable + PartialEq + Clone,
{
    let bytes = value.to_bytes();
    // The property is about a value decoding from ITS OWN encoding; the specification's byte image pins
    // the current wire format. A different image is counted (format divergence, reported in the evidence,
    // not gated: a deliberate, consistent format change keeps the property) and the law is then checked
    // on the real encoding.
    if bytes != image {
        FORMAT_DIVERGENCE.fetch_add(1, std::sync::atomic::Ordering::Relaxed);
    }
    let image: &[u8] = &bytes;
    let mut reader = SliceReader::new(image);
    let decoded = match catch(|| T::read_from(&mut reader)) {
        Err(p) => return Err(("decode_panic".into(), p)),
        Ok(Err(e)) => return Err(("decode_err".into(), format!("{e:?}"))),
        Ok(Ok(v)) => v,
    };
    if reader.has_more_bytes() {
        return Err(("leftover".into(), "bytes left after decoding its own encoding".into()));
    }
    if decoded != value {
        return Err(("unequal".into(), "decoded value differs from the original".into()));
    }
    if decoded.to_bytes() != image {
        return Err(("reencode".into(), "re-serialised decoded value differs".into()));
    }
    match catch(|| extra(decoded)) {
        Err(p) => Err(("parse_panic".into(), p)),
        Ok(Err(e)) => Err(("parse".into(), e)),
        Ok(Ok(())) => Ok(()),
    }
}

fn run_typed<B, H, E>(sc: &Value, image: &[u8]) -> Result<(), (String, String)>
where
    B: StarkField,
    H: ElementHasher<BaseField = B> + DigestMaker,
    E: FieldElement<BaseField = B>,
{
    let d = &sc["d"];
    let x = sc["x"].as_u64().unwrap_or(1);
    match sc["ty"].as_str().unwrap_or("") {
        "TraceInfo" => law(trace_info_of(d), image, |_| Ok(())),
        "ProofOptions" => law(options_of(d), image, |_| Ok(())),
        "Context" => {
            let ncons = int_of(&bytes_of(&d["ncons"])) as usize;
            law(Context::new::<B>(trace_info_of(&d["ti"]), options_of(&d["o"]), ncons), image, |_| Ok(()))
        },
        "Digest" => law(H::make(d), image, |_| Ok(())),
        "Commitments" => {
            let t = digests::<H>(&d["trace"]);
            let c = H::make(&d["cons"]);
            let mut f = digests::<H>(&d["fri"]);
            let (ps, pn) = (d["pseed"].as_u64().unwrap_or(0), d["pn"].as_u64().unwrap_or(0));
            for j in 0..pn {
                f.push(H::pattern(ps, j));
            }
            let (t2, c2, f2) = (t.clone(), c, f.clone());
            law(Commitments::new::<H>(t, c, f), image, move |dec| {
                if f2.is_empty() {
                    return Ok(());
                }
                match dec.parse::<H>(t2.len(), f2.len() - 1) {
                    Err(e) => Err(format!("Commitments::parse failed: {e:?}")),
                    Ok((pt, pc, pf)) => {
                        if pt == t2 && pc == c2 && pf == f2 {
                            Ok(())
                        } else {
                            Err("Commitments::parse returned different digests".into())
                        }
                    },
                }
            })
        },
        "BatchMerkleProof" => law(Bmp(bmp_of::<H>(d)), image, |_| Ok(())),
        "Queries" => {
            let rows = d["rows"].as_u64().unwrap() as usize;
            let cols = d["cols"].as_u64().unwrap() as usize;
            let n = rows * cols * x as usize;
            let seed = d["vseed"].as_u64().unwrap_or(0);
            let lit = d["lit"].as_array().cloned().unwrap_or_default();
            let coords: Vec<B> = if lit.is_empty() {
                (0..n as u64).map(|i| base::<B>(pat_elem(seed, i) as u128)).collect()
            } else {
                lit.iter().map(|c| base::<B>(int_of(&bytes_of(c)))).collect()
            };
            let es: Vec<E> = elems_from_coords::<B, E>(&coords);
            let table: Vec<Vec<E>> = es.chunks(cols).map(|r| r.to_vec()).collect();
            let bmp = bmp_of::<H>(&d["bmp"]);
            let depth = bmp.depth;
            let (bmp2, table2) = (Bmp(bmp_of::<H>(&d["bmp"])), table.clone());
            law(Queries::new::<H, E, MerkleTree<H>>(bmp, table), image, move |dec| {
                if depth >= 64 {
                    return Ok(()); // 2^depth is not a usize: Queries::parse has no valid domain size to be given
                }
                match dec.parse::<E, H, MerkleTree<H>>(1usize << depth, rows, cols) {
                    Err(e) => Err(format!("Queries::parse failed: {e:?}")),
                    Ok((p, t)) => {
                        let got: Vec<Vec<E>> = t.rows().map(|r| r.to_vec()).collect();
                        if Bmp(p) == bmp2 && got == table2 {
                            Ok(())
                        } else {
                            Err("Queries::parse returned different contents".into())
                        }
                    },
                }
            })
        },
        "OodFrame" => {
            if d["dflt"].as_bool().unwrap_or(false) {
                return law(OodFrame::default(), image, |_| Ok(()));
            }
            let w = d["w"].as_u64().unwrap() as usize;
            let mw = d["mw"].as_u64().unwrap() as usize;
            let q = d["q"].as_u64().unwrap() as usize;
            let seed = d["seed"].as_u64().unwrap_or(0);
            let tc: Vec<B> = (0..(2 * w) as u64 * x).map(|i| base::<B>(pat_elem(seed, i) as u128)).collect();
            let qc: Vec<B> = (0..(2 * q) as u64 * x).map(|i| base::<B>(pat_elem(seed + 1, i) as u128)).collect();
            let te: Vec<E> = elems_from_coords::<B, E>(&tc);
            let qe: Vec<E> = elems_from_coords::<B, E>(&qc);
            let mut frame = OodFrame::default();
            frame.set_trace_states(&TraceOodFrame::new(te[..w].to_vec(), te[w..].to_vec(), mw));
            frame.set_quotient_states(&QuotientOodFrame::new(qe[..q].to_vec(), qe[q..].to_vec()));
            law(frame, image, move |dec| match dec.parse::<E>(mw, w - mw, q) {
                Err(e) => Err(format!("OodFrame::parse failed: {e:?}")),
                Ok((t, qq)) => {
                    if t.current_row() == &te[..w]
                        && t.next_row() == &te[w..]
                        && qq.current_row() == &qe[..q]
                        && qq.next_row() == &qe[q..]
                    {
                        Ok(())
                    } else {
                        Err("OodFrame::parse returned different rows".into())
                    }
                },
            })
        },
        "FriProof" => {
            // no public constructor: the value is obtained by decoding the image
            let mut reader = SliceReader::new(image);
            // (if the real decoder does not accept the specification's image the wire format has
            // diverged from the specification: counted, not gated — FRI proofs taken from real proofs
            // are round-tripped separately)
            let v = match catch(|| FriProof::read_from(&mut reader)) {
                Err(p) => return Err(("decode_panic".into(), p)),
                Ok(Err(_)) => {
                    FORMAT_DIVERGENCE.fetch_add(1, std::sync::atomic::Ordering::Relaxed);
                    return Ok(());
                },
                Ok(Ok(v)) => v,
            };
            if reader.has_more_bytes() {
                FORMAT_DIVERGENCE.fetch_add(1, std::sync::atomic::Ordering::Relaxed);
                return Ok(());
            }
            let nl = d["nlayers"].as_u64().unwrap() as usize;
            let parts = d["parts"].as_u64().unwrap() as u32;
            let remlen = d["remlen"].as_u64().unwrap() as usize;
            law(v, image, move |dec| {
                if dec.num_layers() != nl {
                    return Err(format!("num_layers {} expected {}", dec.num_layers(), nl));
                }
                if dec.num_remainder_elements::<B>() != remlen / B::ELEMENT_BYTES {
                    return Err("num_remainder_elements differs".into());
                }
                if parts < 63 && dec.num_partitions() != 1usize << parts {
                    return Err("num_partitions differs".into());
                }
                Ok(())
            })
        },
        other => Err(("harness".into(), format!("unknown type {other}"))),
    }
}

fn run_bh<B, H>(sc: &Value, image: &[u8]) -> Result<(), (String, String)>
where
    B: StarkField + ExtensibleField<2> + ExtensibleField<3>,
    H: ElementHasher<BaseField = B> + DigestMaker,
{
    match sc["x"].as_u64().unwrap_or(1) {
        1 => run_typed::<B, H, B>(sc, image),
        2 => run_typed::<B, H, QuadExtension<B>>(sc, image),
        _ => run_typed::<B, H, CubeExtension<B>>(sc, image),
    }
}

fn run_one(sc: &Value) -> Result<(), (String, String)> {
    type B64 = f64::BaseElement;
    type B62 = f62::BaseElement;
    type B128 = f128::BaseElement;
    let image = expand(&sc["exp"]);
    let r = catch(|| match (sc["f"].as_str().unwrap_or(""), sc["h"].as_str().unwrap_or("")) {
        ("f64", "blake3_256") => run_bh::<B64, Blake3_256<B64>>(sc, &image),
        ("f64", "blake3_192") => run_bh::<B64, Blake3_192<B64>>(sc, &image),
        ("f64", "sha3_256") => run_bh::<B64, Sha3_256<B64>>(sc, &image),
        ("f64", "rp64_256") => run_bh::<B64, Rp64_256>(sc, &image),
        ("f64", "rpjive64_256") => run_bh::<B64, RpJive64_256>(sc, &image),
        ("f62", "rp62_248") => run_bh::<B62, Rp62_248>(sc, &image),
        ("f62", "blake3_256") => run_bh::<B62, Blake3_256<B62>>(sc, &image),
        ("f128", "blake3_256") => run_bh::<B128, Blake3_256<B128>>(sc, &image),
        ("f128", "sha3_256") => run_bh::<B128, Sha3_256<B128>>(sc, &image),
        (f, h) => Err(("harness".into(), format!("unsupported field/hash {f}/{h}"))),
    });
    match r {
        Ok(x) => x,
        // a panic outside the guarded decoding steps comes from the constructor or the serialiser
        Err(p) => Err(("construct_or_encode_panic".into(), p)),
    }
}

pub fn main(args: &[String]) -> i32 {
    let scenarios = read_ndjson(&args[0]);
    let mut out = Out::new();
    let mut bad = 0usize;
    let mut bytes = 0usize;
    for (i, sc) in scenarios.iter().enumerate() {
        bytes += sc["exp"].as_array().map(|a| a.len()).unwrap_or(0);
        if let Err((kind, detail)) = run_one(sc) {
            bad += 1;
            out.emit(&json!({"i": i, "ok": false, "ty": sc["ty"], "kind": kind, "detail": detail}));
        }
    }
    out.emit(&json!({"summary": true, "scenarios": scenarios.len(), "chunks": bytes, "mismatches": bad,
        "format_divergence": FORMAT_DIVERGENCE.load(std::sync::atomic::Ordering::Relaxed)}));
    out.flush();
    0
}
