//! Engine `worker`: the isolated child process of C04 / C05.
//!
//!   wf-wire worker <proofs.ndjson> <tasks.ndjson> <out.ndjson> <start> [<timeout_s> [<as_limit_mib>]]
//!
//! Runs tasks[start..] one after the other.  Before a task a marker line {"s": i} is appended to the
//! output, after it a result line {"i": i, ...}.  The process limits its own address space
//! (RLIMIT_AS) and a watchdog thread kills it (exit code 3, after appending {"i": i, "timeout": true})
//! when a single task runs longer than the timeout.  The supervisor (checks/wirelib.py) reads the
//! output, attributes an abnormal exit to the task of the last marker and restarts after it.
//!
//! Tasks:
//!   {"k":"mut","c":case,"e":[edit..],"acc":[variant..]}   mutated honest proof of case c
//!   {"k":"raw","c":case,"b":hex,"acc":[variant..]}        arbitrary bytes as a proof for case c
//!   {"k":"cross","c":case,"src":case2,"e":[edit..],"acc":[..]}   (mutated) proof of case2 verified as a proof of case c
//!   any proof task: "pd": n   adds n to the first public input value given to the verifier
//!   {"k":"dec","d":decoder,"f":field,"h":hash,"x":ext,"b":hex,"a":[args]}   component decoder
//! Edits (offsets refer to the ORIGINAL bytes, sites never overlap):
//!   {"o":off,"x":mask}                          xor one byte
//!   {"o":off,"d":ndel,"b":[bytes]}              delete ndel bytes at off, insert bytes there
//!   {"o":off,"d":ndel,"c":[from,len],"p":[[rel,val]..]}   insert a copy of original[from..from+len]
//!                                               with bytes at relative positions overwritten
use std::{
    fs::OpenOptions,
    io::Write,
    sync::atomic::{AtomicI64, AtomicU64, Ordering},
    time::{Duration, Instant, SystemTime, UNIX_EPOCH},
};

use serde_json::{json, Value};
use wfcommon::util::{catch, read_ndjson};

use crate::run::{deser, deser_stream, runner, unhex, Case, Out3, Parsed};

static CUR: AtomicI64 = AtomicI64::new(-1);
static STARTED: AtomicU64 = AtomicU64::new(0);

fn now_ms() -> u64 {
    SystemTime::now().duration_since(UNIX_EPOCH).map(|d| d.as_millis() as u64).unwrap_or(0)
}

pub fn apply_edits(orig: &[u8], edits: &[Value]) -> Vec<u8> {
    let mut base = orig.to_vec();
    // xor edits first, in place
    for e in edits {
        if let Some(m) = e.get("x").and_then(|x| x.as_u64()).filter(|m| *m != 0) {
            let o = e["o"].as_u64().unwrap_or(0) as usize;
            if o < base.len() {
                base[o] ^= m as u8;
            }
        }
    }
    // structural edits from the highest offset down, so earlier offsets stay valid
    let mut st: Vec<&Value> = edits.iter().filter(|e| e.get("x").and_then(|x| x.as_u64()).unwrap_or(0) == 0).collect();
    st.sort_by_key(|e| std::cmp::Reverse(e["o"].as_u64().unwrap_or(0)));
    for e in st {
        let o = (e["o"].as_u64().unwrap_or(0) as usize).min(base.len());
        let d = (e.get("d").and_then(|d| d.as_u64()).unwrap_or(0) as usize).min(base.len() - o);
        let mut ins: Vec<u8> = vec![];
        let c: Vec<usize> = e
            .get("c")
            .and_then(|c| c.as_array())
            .map(|a| a.iter().map(|x| x.as_u64().unwrap_or(0) as usize).collect())
            .unwrap_or_default();
        if c.len() == 2 {
            let from = c[0].min(orig.len());
            let len = c[1].min(orig.len() - from);
            ins = orig[from..from + len].to_vec();
            if let Some(ps) = e.get("p").and_then(|p| p.as_array()) {
                for p in ps {
                    let rel = p[0].as_u64().unwrap_or(0) as usize;
                    if rel < ins.len() {
                        ins[rel] = p[1].as_u64().unwrap_or(0) as u8;
                    }
                }
            }
        } else if let Some(b) = e.get("b").and_then(|b| b.as_array()) {
            ins = b.iter().map(|x| x.as_u64().unwrap_or(0) as u8).collect();
        }
        base.splice(o..o + d, ins);
    }
    base
}

/// FNV-1a (32 bit) of the input actually tested; the supervisor recomputes it from the edits
/// with its own implementation, so a mis-applied edit is a tool error, not a silent no-op.
pub fn fnv(b: &[u8]) -> u32 {
    let mut h: u32 = 0x811c9dc5;
    for x in b {
        h ^= *x as u32;
        h = h.wrapping_mul(0x01000193);
    }
    h
}

struct Honest {
    case: Case,
    bytes: Vec<u8>,
    parsed: Option<Parsed>,
}

fn proof_task(h: &mut Honest, bytes: &[u8], acc: &[String], compare: bool, pub_delta: u32, stream: bool) -> Value {
    let (de, proof) = deser(bytes);
    let mut res = json!({"de": de.json(), "len": bytes.len(), "fnv": fnv(bytes)});
    if stream {
        res["ds"] = deser_stream(bytes).json();
    }
    let Some(proof) = proof else {
        return res;
    };
    let Some(r) = runner(&h.case.field, &h.case.hash) else {
        return res;
    };
    let mut ve = serde_json::Map::new();
    let mut accepted = false;
    for v in acc {
        let o = r.verify(&h.case, proof.clone(), v, pub_delta);
        if matches!(o, Out3::Ok) {
            accepted = true;
        }
        ve.insert(v.clone(), o.json());
    }
    res["ve"] = Value::Object(ve);
    if compare && accepted {
        if h.parsed.is_none() {
            let (_, hp) = deser(&h.bytes);
            if let Some(hp) = hp {
                h.parsed = Some(r.parsed(&h.case, &hp));
            }
        }
        let mine = catch(|| r.parsed(&h.case, &proof));
        match (&h.parsed, mine) {
            (Some(a), Ok(b)) => {
                let mut d: Vec<String> = a.diff(&b).iter().map(|x| x.to_string()).collect();
                // the component parsers (code under test) may ignore part of what was decoded: when they
                // report equal contents although the decoded proof is not the original one (its canonical
                // re-encoding differs from the honest bytes), the difference is bytes no parser looked at
                if d.is_empty() {
                    if let Ok(re) = catch(|| winterfell::Proof::to_bytes(&proof)) {
                        if re != h.bytes {
                            d.push("bytes_ignored_by_the_parsers".to_string());
                        }
                    }
                }
                res["diff"] = json!(d);
            },
            (_, Err(p)) => res["diff"] = json!(["<panic while re-parsing: ".to_string() + &p + ">"]),
            _ => res["diff"] = json!(["<honest proof did not parse>"]),
        }
    }
    res
}

pub fn main(args: &[String]) -> i32 {
    if args.len() < 4 {
        eprintln!("usage: wf-wire worker <proofs> <tasks> <out> <start> [timeout_s [as_mib]]");
        return 2;
    }
    let start: usize = args[3].parse().unwrap_or(0);
    let timeout_s: u64 = args.get(4).and_then(|s| s.parse().ok()).unwrap_or(10);
    let as_mib: u64 = args.get(5).and_then(|s| s.parse().ok()).unwrap_or(4096);
    let proofs = read_ndjson(&args[0]);
    let tasks = read_ndjson(&args[1]);
    let mut honest: Vec<Option<Honest>> = proofs
        .iter()
        .map(|p| {
            let case: Case = serde_json::from_value(p["case"].clone()).ok()?;
            Some(Honest { case, bytes: unhex(p["hex"].as_str()?), parsed: None })
        })
        .collect();
    unsafe {
        let lim = libc::rlimit { rlim_cur: as_mib << 20, rlim_max: as_mib << 20 };
        libc::setrlimit(libc::RLIMIT_AS, &lim);
        let core = libc::rlimit { rlim_cur: 0, rlim_max: 0 };
        libc::setrlimit(libc::RLIMIT_CORE, &core);
    }
    let out_path = args[2].clone();
    let mut out = match OpenOptions::new().create(true).append(true).open(&out_path) {
        Ok(f) => f,
        Err(e) => {
            eprintln!("cannot open {out_path}: {e}");
            return 2;
        },
    };
    // watchdog
    {
        let out_path = out_path.clone();
        std::thread::spawn(move || loop {
            std::thread::sleep(Duration::from_millis(100));
            let cur = CUR.load(Ordering::SeqCst);
            let st = STARTED.load(Ordering::SeqCst);
            if cur >= 0 && st > 0 && now_ms().saturating_sub(st) > timeout_s * 1000 {
                if let Ok(mut f) = OpenOptions::new().append(true).open(&out_path) {
                    let _ = writeln!(f, "{}", json!({"i": cur, "timeout": true}));
                }
                unsafe { libc::_exit(3) };
            }
        });
    }
    for i in start..tasks.len() {
        let t = &tasks[i];
        let _ = writeln!(out, "{{\"s\":{i}}}");
        STARTED.store(now_ms(), Ordering::SeqCst);
        CUR.store(i as i64, Ordering::SeqCst);
        let t0 = Instant::now();
        let kind = t["k"].as_str().unwrap_or("");
        let acc: Vec<String> = t["acc"]
            .as_array()
            .map(|a| a.iter().filter_map(|x| x.as_str().map(|s| s.to_string())).collect())
            .unwrap_or_default();
        let mut res = match kind {
            "mut" | "raw" | "cross" => {
                let c = t["c"].as_u64().unwrap_or(0) as usize;
                let src_bytes: Option<Vec<u8>> = if kind == "cross" {
                    honest.get(t["src"].as_u64().unwrap_or(0) as usize).and_then(|h| h.as_ref()).map(|h| h.bytes.clone())
                } else {
                    None
                };
                match honest.get_mut(c).and_then(|h| h.as_mut()) {
                    None => json!({"tool_error": "unknown case"}),
                    Some(h) => {
                        let bytes = if kind == "mut" {
                            apply_edits(&h.bytes, t["e"].as_array().map(|v| v.as_slice()).unwrap_or(&[]))
                        } else if kind == "cross" {
                            apply_edits(&src_bytes.unwrap_or_default(), t["e"].as_array().map(|v| v.as_slice()).unwrap_or(&[]))
                        } else {
                            unhex(t["b"].as_str().unwrap_or(""))
                        };
                        let pd = t["pd"].as_u64().unwrap_or(0) as u32;
                        let stream = t["stream"].as_bool().unwrap_or(false);
                        match catch(|| proof_task(h, &bytes, &acc, true, pd, stream)) {
                            Ok(v) => v,
                            Err(p) => json!({"tool_error": format!("harness panic: {p}")}),
                        }
                    },
                }
            },
            "dec" => {
                let bytes = unhex(t["b"].as_str().unwrap_or(""));
                let a: Vec<usize> = t["a"]
                    .as_array()
                    .map(|a| a.iter().map(|x| x.as_u64().unwrap_or(1) as usize).collect())
                    .unwrap_or_default();
                let o = crate::decoders::decode(
                    t["d"].as_str().unwrap_or(""),
                    t["f"].as_str().unwrap_or("f64"),
                    t["h"].as_str().unwrap_or("blake3_256"),
                    t["x"].as_u64().unwrap_or(1) as usize,
                    &bytes,
                    &a,
                );
                json!({"de": o.json(), "len": bytes.len()})
            },
            _ => json!({"tool_error": "unknown task kind"}),
        };
        CUR.store(-1, Ordering::SeqCst);
        res["i"] = json!(i);
        res["ms"] = json!(t0.elapsed().as_millis() as u64);
        let _ = writeln!(out, "{res}");
    }
    let _ = writeln!(out, "{{\"done\":true}}");
    0
}
