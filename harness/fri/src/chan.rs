//! A verifier channel that checks NOTHING against the commitments (vacuity guard of C09).
//! `FriVerifier` is generic over `VerifierChannel`; running the REAL `FriVerifier::verify` over this
//! channel shows whether a forged proof passes every algebraic check of the verifier, i.e. whether
//! only the comparison with the commitments can reject it.  The last "commitment" handed to the
//! verifier is the hash of the (possibly forged) remainder, so that the verifier's own
//! remainder-commitment comparison is neutralised as well.
use std::marker::PhantomData;

use winter_crypto::{ElementHasher, Hasher, MerkleTree, VectorCommitment};
use winter_fri::{VerifierChannel, VerifierError};
use winter_math::FieldElement;
use winter_utils::group_slice_elements;

pub struct PermissiveChannel<E: FieldElement, H: ElementHasher<BaseField = E::BaseField>> {
    pub commitments: Vec<H::Digest>,
    pub layer_queries: Vec<Vec<E>>,
    pub remainder: Vec<E>,
    pub num_partitions: usize,
    pub _h: PhantomData<H>,
}

impl<E: FieldElement, H: ElementHasher<BaseField = E::BaseField>> PermissiveChannel<E, H> {
    /// `commitments`: the honest layer commitments (their values are irrelevant here, only their
    /// number matters); the last one is replaced by the hash of `remainder`.
    pub fn new(mut commitments: Vec<H::Digest>, layer_queries: Vec<Vec<E>>, remainder: Vec<E>) -> Self {
        if let Some(last) = commitments.last_mut() {
            *last = H::hash_elements(&remainder);
        }
        PermissiveChannel { commitments, layer_queries, remainder, num_partitions: 1, _h: PhantomData }
    }
}

impl<E: FieldElement, H: ElementHasher<BaseField = E::BaseField>> VerifierChannel<E> for PermissiveChannel<E, H> {
    type Hasher = H;
    type VectorCommitment = MerkleTree<H>;

    fn read_fri_num_partitions(&self) -> usize {
        self.num_partitions
    }
    fn read_fri_layer_commitments(&mut self) -> Vec<<H as Hasher>::Digest> {
        self.commitments.drain(..).collect()
    }
    fn take_next_fri_layer_queries(&mut self) -> Vec<E> {
        self.layer_queries.remove(0)
    }
    fn take_next_fri_layer_proof(&mut self) -> <MerkleTree<H> as VectorCommitment<H>>::MultiProof {
        unreachable!("the permissive channel never verifies an opening")
    }
    fn take_fri_remainder(&mut self) -> Vec<E> {
        self.remainder.clone()
    }
    fn read_layer_queries<const N: usize>(
        &mut self,
        _positions: &[usize],
        _commitment: &<H as Hasher>::Digest,
    ) -> Result<Vec<[E; N]>, VerifierError> {
        let q = self.take_next_fri_layer_queries();
        Ok(group_slice_elements::<E, N>(&q).to_vec())
    }
}
