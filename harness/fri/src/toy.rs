//! C08 over toy fields: the scenario (evaluation vector, scripted alphas, positions) and everything
//! expected (number of layers, rows opened per folded position, remainder, verdict) come from TLC
//! (spec/fri/Fri.tla, GenFri.tla).  This engine runs the real FriProver / FriVerifier with the
//! scripted coin, reports the verdicts (honest proof, proof after a byte round trip) and compares the
//! transcript values with the specification's.  Also: folding::apply_drp, folding::fold_positions and
//! utils::map_positions_to_indexes on their own.
use std::collections::BTreeMap;

use serde_json::{json, Value};
use winter_crypto::{
    hashers::{Blake3_192, Blake3_256, Sha3_256},
    ElementHasher, MerkleTree,
};
use winter_fri::{
    folding::{apply_drp, fold_positions},
    utils::map_positions_to_indexes,
    FriProof,
};
use winter_math::{
    fields::{CubeExtension, QuadExtension},
    FieldElement, StarkField,
};
use winter_utils::{transpose_slice, Deserializable, Serializable};
use wfcommon::{
    toy::{F193, F257, F40961, F97},
    util::{catch, read_ndjson, usizes_of, Out},
};

use crate::{
    coin::{set_script, ScriptedCoin},
    common::*,
};

#[derive(Default)]
pub struct Stats {
    pub scenarios: usize,
    pub fri: usize,
    pub drp: usize,
    pub pos: usize,
    pub verifications: usize,
    pub values_compared: usize,
    pub mismatches: usize,
}

fn run_fri<B, E, H>(i: usize, sc: &Value, st: &mut Stats, out: &mut Out)
where
    B: StarkField,
    E: FieldElement<BaseField = B>,
    H: ElementHasher<BaseField = B>,
    <B as FieldElement>::PositiveInteger: TryInto<u64>,
{
    let n = sc["n"].as_u64().unwrap() as usize;
    let folding = sc["N"].as_u64().unwrap() as usize;
    let dmax = sc["dmax"].as_u64().unwrap() as usize;
    let options = fri_options(sc);
    let evals: Vec<E> = elems(&sc["evals"]);
    let pos = usizes_of(&sc["pos"]);
    let expected = sc["verdict"].as_str().unwrap_or("accept").to_string();
    st.fri += 1;
    let mut bad = |kind: &str, detail: Value| {
        st.mismatches += 1;
        out.emit(&mismatch(i, kind, detail));
    };

    set_script(alphas_of(&sc["alphas"]), pos.clone());
    let pr = match prove::<E, H, ScriptedCoin<B, H>>(&options, evals.clone(), pos.len(), n) {
        Ok(p) => p,
        Err(p) => {
            let loc = p.split(": ").next().unwrap_or("").replace("/repo/", "");
            bad("verdict", json!({"stage": "prove", "expected": expected, "got": format!("panic:{loc}"), "panic": p}));
            return;
        },
    };
    let qe: Vec<E> = pos.iter().map(|&p| evals[p]).collect();

    // 1. verdict of the real verifier on the honest proof
    let got = verify_strict::<E, H, ScriptedCoin<B, H>>(pr.proof.clone(), pr.commitments.clone(), &options, n, dmax, &qe, &pos);
    st.verifications += 1;
    if (expected == "accept") != is_accept(&got) {
        bad("verdict", json!({"stage": "verify", "expected": expected, "got": got}));
    }
    // 2. the proof survives serialization, and verifies again
    let bytes = pr.proof.to_bytes();
    match catch(|| FriProof::read_from_bytes(&bytes)) {
        Ok(Ok(p2)) => {
            if p2 != pr.proof || p2.to_bytes() != bytes {
                bad("roundtrip", json!({"stage": "roundtrip", "expected": "identical proof", "got": "different proof"}));
            }
            let got2 = verify_strict::<E, H, ScriptedCoin<B, H>>(p2, pr.commitments.clone(), &options, n, dmax, &qe, &pos);
            st.verifications += 1;
            if (expected == "accept") != is_accept(&got2) {
                bad("verdict", json!({"stage": "verify-after-roundtrip", "expected": expected, "got": got2}));
            }
        },
        Ok(Err(e)) => bad("roundtrip", json!({"stage": "roundtrip", "expected": "ok", "got": format!("error:{e:?}")})),
        Err(p) => bad("roundtrip", json!({"stage": "roundtrip", "expected": "ok", "got": "panic", "panic": p})),
    }

    // 3. transcript values against the specification (reported separately: kind = "values")
    let exp_l = sc["L"].as_u64().unwrap() as usize;
    if pr.num_layers != exp_l || pr.proof.num_layers() != exp_l {
        bad("values", json!({"what": "number of layers", "expected": exp_l, "got": pr.proof.num_layers()}));
        return;
    }
    match pr.proof.parse_remainder::<E>() {
        Ok(rem) => {
            st.values_compared += rem.len();
            let exp: Vec<E> = elems(&sc["rem"]);
            if rem != exp {
                bad("values", json!({"what": "remainder", "expected": sc["rem"], "got": coords_vec(&rem)}));
            }
        },
        Err(e) => bad("values", json!({"what": "remainder", "expected": sc["rem"], "got": format!("error:{e:?}")})),
    }
    match pr.proof.clone().parse_layers::<E, H, MerkleTree<H>>(n, folding) {
        Ok((queries, _proofs)) => {
            let mut cur = pos.clone();
            let mut size = n;
            for l in 0..exp_l {
                cur = fold_positions(&cur, size, folding);
                // the specification's rows, by folded position
                let spec_pos = usizes_of(&sc["folded"][l]);
                let mut want: BTreeMap<usize, Vec<E>> = BTreeMap::new();
                for (k, p) in spec_pos.iter().enumerate() {
                    want.insert(*p, elems(&sc["rows"][l][k]));
                }
                let mut have: BTreeMap<usize, Vec<E>> = BTreeMap::new();
                if queries[l].len() == cur.len() * folding {
                    for (k, p) in cur.iter().enumerate() {
                        have.insert(*p, queries[l][k * folding..(k + 1) * folding].to_vec());
                    }
                }
                st.values_compared += queries[l].len();
                if want != have {
                    let show = |m: &BTreeMap<usize, Vec<E>>| {
                        Value::Array(m.iter().map(|(p, r)| json!({"pos": p, "row": coords_vec(r)})).collect())
                    };
                    bad("values", json!({"what": "layer rows", "layer": l, "expected": show(&want), "got": show(&have)}));
                    break;
                }
                size /= folding;
            }
        },
        Err(e) => bad("values", json!({"what": "layers", "got": format!("error:{e:?}")})),
    }
}

fn run_drp<B, E>(i: usize, sc: &Value, st: &mut Stats, out: &mut Out)
where
    B: StarkField,
    E: FieldElement<BaseField = B>,
    <B as FieldElement>::PositiveInteger: TryInto<u64>,
{
    st.drp += 1;
    let folding = sc["N"].as_u64().unwrap() as usize;
    let evals: Vec<E> = elems(&sc["evals"]);
    let alpha: E = elem(&sc["alpha"]);
    let off = B::from(sc["off"].as_u64().unwrap() as u32);
    let exp: Vec<E> = elems(&sc["exp"]);
    let r = catch(|| match folding {
        2 => apply_drp(&transpose_slice::<E, 2>(&evals), off, alpha),
        4 => apply_drp(&transpose_slice::<E, 4>(&evals), off, alpha),
        8 => apply_drp(&transpose_slice::<E, 8>(&evals), off, alpha),
        16 => apply_drp(&transpose_slice::<E, 16>(&evals), off, alpha),
        _ => unreachable!(),
    });
    st.values_compared += exp.len();
    match r {
        Ok(got) if got == exp => {},
        Ok(got) => {
            st.mismatches += 1;
            out.emit(&mismatch(i, "drp", json!({"call": "folding::apply_drp", "expected": sc["exp"], "got": coords_vec(&got)})));
        },
        Err(p) => {
            st.mismatches += 1;
            out.emit(&mismatch(i, "drp", json!({"call": "folding::apply_drp", "expected": sc["exp"], "got": "panic", "panic": p})));
        },
    }
}

fn run_pos(i: usize, sc: &Value, st: &mut Stats, out: &mut Out) {
    st.pos += 1;
    let n = sc["n"].as_u64().unwrap() as usize;
    let folding = sc["N"].as_u64().unwrap() as usize;
    let parts = sc["parts"].as_u64().unwrap() as usize;
    let pos = usizes_of(&sc["pos"]);
    let exp_f = usizes_of(&sc["folded"]);
    let exp_i = usizes_of(&sc["idx"]);
    match catch(|| {
        let f = fold_positions(&pos, n, folding);
        // indexes are computed for the specification's folded sequence, so that the two functions
        // are judged independently
        let idx = map_positions_to_indexes(&exp_f, n, folding, parts);
        (f, idx)
    }) {
        Ok((f, idx)) => {
            // fold_positions: the SET of residues without repetition (the order is not part of the meaning)
            let mut a = f.clone();
            a.sort_unstable();
            let mut b = exp_f.clone();
            b.sort_unstable();
            if a != b || f.len() != exp_f.len() {
                st.mismatches += 1;
                out.emit(&mismatch(i, "pos", json!({"call": "folding::fold_positions", "expected": exp_f, "got": f})));
            }
            if idx != exp_i {
                st.mismatches += 1;
                out.emit(&mismatch(i, "pos", json!({"call": "utils::map_positions_to_indexes", "expected": exp_i, "got": idx})));
            }
        },
        Err(p) => {
            st.mismatches += 1;
            out.emit(&mismatch(i, "pos", json!({"call": "fold_positions/map_positions_to_indexes", "got": "panic", "panic": p})));
        },
    }
}

macro_rules! by_field {
    ($f:ident, $sc:expr, $i:expr, ($($arg:expr),*)) => {{
        let p = $sc["P"].as_u64().unwrap();
        let d = $sc["d"].as_u64().unwrap();
        // the hash function rotates with the scenario number (all three are generic over the field)
        macro_rules! with_ext {
            ($b:ty) => {
                match (d, $i % 3) {
                    (1, 0) => $f::<$b, $b, Blake3_256<$b>>($($arg),*),
                    (1, 1) => $f::<$b, $b, Sha3_256<$b>>($($arg),*),
                    (1, _) => $f::<$b, $b, Blake3_192<$b>>($($arg),*),
                    (2, 0) => $f::<$b, QuadExtension<$b>, Blake3_256<$b>>($($arg),*),
                    (2, 1) => $f::<$b, QuadExtension<$b>, Sha3_256<$b>>($($arg),*),
                    (2, _) => $f::<$b, QuadExtension<$b>, Blake3_192<$b>>($($arg),*),
                    (3, 0) => $f::<$b, CubeExtension<$b>, Blake3_256<$b>>($($arg),*),
                    (3, 1) => $f::<$b, CubeExtension<$b>, Sha3_256<$b>>($($arg),*),
                    (3, _) => $f::<$b, CubeExtension<$b>, Blake3_192<$b>>($($arg),*),
                    _ => panic!("unsupported extension degree {d}"),
                }
            };
        }
        match p {
            97 => with_ext!(F97),
            193 => with_ext!(F193),
            257 => with_ext!(F257),
            40961 => with_ext!(F40961),
            _ => panic!("unsupported toy modulus {p}"),
        }
    }};
}
pub(crate) use by_field;

fn drp_any<B, E, H>(i: usize, sc: &Value, st: &mut Stats, out: &mut Out)
where
    B: StarkField,
    E: FieldElement<BaseField = B>,
    H: ElementHasher<BaseField = B>,
    <B as FieldElement>::PositiveInteger: TryInto<u64>,
{
    run_drp::<B, E>(i, sc, st, out)
}

fn run_all(scenarios: &[Value], out: &mut Out) -> Stats {
    let mut st = Stats::default();
    for (i, sc) in scenarios.iter().enumerate() {
        st.scenarios += 1;
        let r = catch(|| match sc["op"].as_str().unwrap_or("") {
            "fri" => by_field!(run_fri, sc, i, (i, sc, &mut st, out)),
            "drp" => by_field!(drp_any, sc, i, (i, sc, &mut st, out)),
            "pos" => run_pos(i, sc, &mut st, out),
            other => {
                eprintln!("unknown op {other}");
                std::process::exit(2)
            },
        });
        // a panic of the engine itself (the code under test runs inside its own `catch`es) is
        // reported against the scenario instead of killing the run
        if let Err(p) = r {
            st.mismatches += 1;
            out.emit(&mismatch(i, "engine", json!({"what": "engine panicked", "panic": p})));
        }
    }
    st
}

pub fn main(args: &[String]) -> i32 {
    let scenarios = read_ndjson(&args[0]);
    let threads: usize = args.get(1).and_then(|s| s.parse().ok()).unwrap_or(0);
    let mut out = Out::new();
    #[cfg(feature = "concurrent")]
    let st = {
        let pool = winter_utils::rayon::ThreadPoolBuilder::new().num_threads(threads.max(1)).build().expect("pool");
        pool.install(|| run_all(&scenarios, &mut out))
    };
    #[cfg(not(feature = "concurrent"))]
    let st = {
        let _ = threads;
        run_all(&scenarios, &mut out)
    };
    out.emit(&json!({"summary": true, "scenarios": st.scenarios, "fri": st.fri, "drp": st.drp, "pos": st.pos,
        "verifications": st.verifications, "values_compared": st.values_compared, "mismatches": st.mismatches,
        "concurrent": cfg!(feature = "concurrent"), "threads": threads}));
    out.flush();
    0
}
