//! wf-fri — engines for the FRI low-degree test (C08, C09).
//!   toy   <scenarios.ndjson> [threads]   honest instances over toy fields, scripted coin (C08)
//!   real  <scenarios.ndjson> [threads]   honest instances over f64 / f62 / f128, real coin (C08)
//!   attack <scenarios.ndjson>            non-low-degree data and forged openings, toy fields (C09)
//!   realattack <scenarios.ndjson>        deterministic rejection classes over the real fields (C09)
#![allow(clippy::all)]
mod attack;
mod chan;
mod coin;
mod common;
mod real;
mod toy;

fn main() {
    let args: Vec<String> = std::env::args().collect();
    wfcommon::util::install_quiet_panic_hook();
    let code = match args.get(1).map(|s| s.as_str()) {
        Some("toy") => toy::main(&args[2..]),
        Some("real") => real::main(&args[2..]),
        Some("attack") => attack::main_toy(&args[2..]),
        Some("realattack") => attack::main_real(&args[2..]),
        _ => {
            eprintln!("usage: wf-fri <toy|real|attack|realattack> <scenarios.ndjson> [threads]");
            2
        },
    };
    std::process::exit(code);
}
