//! Helpers shared by the FRI engines: element <-> coordinate conversion, running the real prover and
//! the real verifier, verdict classes, byte surgery on a `FriProof`.
use serde_json::{json, Value};
use winter_crypto::{ElementHasher, MerkleTree, RandomCoin};
use winter_fri::{
    DefaultProverChannel, DefaultVerifierChannel, FriOptions, FriProof, FriProver, FriVerifier, VerifierChannel,
    VerifierError,
};
use winter_math::{FieldElement, StarkField};
use winter_utils::{Deserializable, Serializable, SliceReader, ByteReader};
use wfcommon::util::catch;

pub fn elem<E: FieldElement>(v: &Value) -> E {
    let base: Vec<E::BaseField> = v
        .as_array()
        .expect("element = array of base coordinates")
        .iter()
        .map(|c| E::BaseField::from(c.as_u64().expect("coordinate") as u32))
        .collect();
    assert_eq!(base.len(), E::EXTENSION_DEGREE, "coordinate count");
    E::slice_from_base_elements(&base)[0]
}
pub fn elems<E: FieldElement>(v: &Value) -> Vec<E> {
    v.as_array().map(|a| a.iter().map(elem::<E>).collect()).unwrap_or_default()
}
/// Coordinates of an element as JSON (toy fields: every coordinate fits a u32).
pub fn coords<E: FieldElement>(e: E) -> Value
where
    <E::BaseField as FieldElement>::PositiveInteger: TryInto<u64>,
{
    let b = E::slice_as_base_elements(std::slice::from_ref(&e));
    Value::Array(
        b.iter()
            .map(|x| {
                let v: u64 = x.as_int().try_into().ok().expect("toy coordinate fits u64");
                Value::from(v)
            })
            .collect(),
    )
}
pub fn coords_vec<E: FieldElement>(v: &[E]) -> Value
where
    <E::BaseField as FieldElement>::PositiveInteger: TryInto<u64>,
{
    Value::Array(v.iter().map(|e| coords(*e)).collect())
}
pub fn alphas_of(v: &Value) -> Vec<Vec<u32>> {
    v.as_array()
        .map(|a| {
            a.iter()
                .map(|e| e.as_array().unwrap().iter().map(|c| c.as_u64().unwrap() as u32).collect())
                .collect()
        })
        .unwrap_or_default()
}

/// Verdict class of a verification outcome: "accept", "reject:<VerifierError variant>",
/// "reject:parse" (the channel refused the proof), "panic:<location>".
pub fn verdict_of(r: Result<Result<(), VerifierError>, String>) -> String {
    match r {
        Ok(Ok(())) => "accept".to_string(),
        Ok(Err(e)) => {
            let s = format!("{e:?}");
            format!("reject:{}", s.split('(').next().unwrap_or(""))
        },
        Err(p) => format!("panic:{}", p.split(": ").next().unwrap_or("").replace("/repo/", "")),
    }
}
pub fn is_accept(v: &str) -> bool {
    v == "accept"
}
pub fn is_reject(v: &str) -> bool {
    v.starts_with("reject:")
}

pub struct Proved<E: FieldElement, H: ElementHasher<BaseField = E::BaseField>> {
    pub proof: FriProof,
    pub commitments: Vec<H::Digest>,
    pub positions: Vec<usize>,
    pub num_layers: usize,
    pub _e: std::marker::PhantomData<E>,
}

/// Runs the real prover: commit phase, query positions from the channel's coin, query phase.
/// `draw_domain`: the domain size handed to the prover channel (the range of the drawn positions).
pub fn prove<E, H, R>(options: &FriOptions, evals: Vec<E>, nq: usize, draw_domain: usize) -> Result<Proved<E, H>, String>
where
    E: FieldElement,
    H: ElementHasher<BaseField = E::BaseField>,
    R: RandomCoin<BaseField = E::BaseField, Hasher = H>,
{
    catch(|| {
        let mut channel = DefaultProverChannel::<E, H, R>::new(draw_domain, nq);
        let mut prover = FriProver::<E, _, H, MerkleTree<H>>::new(options.clone());
        prover.build_layers(&mut channel, evals);
        let num_layers = prover.num_layers();
        let positions = channel.draw_query_positions(0);
        let proof = prover.build_proof(&positions);
        Proved { proof, commitments: channel.layer_commitments().to_vec(), positions, num_layers, _e: std::marker::PhantomData }
    })
}

/// Runs the real verifier over `DefaultVerifierChannel` (openings checked against the commitments).
pub fn verify_strict<E, H, R>(
    proof: FriProof,
    commitments: Vec<H::Digest>,
    options: &FriOptions,
    domain_size: usize,
    max_degree: usize,
    qe: &[E],
    positions: &[usize],
) -> String
where
    E: FieldElement,
    H: ElementHasher<BaseField = E::BaseField>,
    R: RandomCoin<BaseField = E::BaseField, Hasher = H>,
{
    let r = catch(|| {
        let mut channel = match DefaultVerifierChannel::<E, H, MerkleTree<H>>::new(
            proof,
            commitments,
            domain_size,
            options.folding_factor(),
        ) {
            Ok(c) => c,
            Err(e) => return Err(format!("{e:?}")),
        };
        let mut coin = R::new(&[]);
        Ok(FriVerifier::<E, _, H, R, MerkleTree<H>>::new(&mut channel, &mut coin, options.clone(), max_degree)
            .and_then(|v| v.verify(&mut channel, qe, positions)))
    });
    match r {
        Ok(Ok(x)) => verdict_of(Ok(x)),
        Ok(Err(_parse)) => "reject:parse".to_string(),
        Err(p) => verdict_of(Err(p)),
    }
}

/// Runs the real verifier over an arbitrary channel.
pub fn verify_with<E, H, R, C>(mut channel: C, options: &FriOptions, max_degree: usize, qe: &[E], positions: &[usize]) -> String
where
    E: FieldElement,
    H: ElementHasher<BaseField = E::BaseField>,
    R: RandomCoin<BaseField = E::BaseField, Hasher = H>,
    C: VerifierChannel<E, Hasher = H, VectorCommitment = MerkleTree<H>>,
{
    verdict_of(catch(|| {
        let mut coin = R::new(&[]);
        FriVerifier::<E, C, H, R, MerkleTree<H>>::new(&mut channel, &mut coin, options.clone(), max_degree)
            .and_then(|v| v.verify(&mut channel, qe, positions))
    }))
}

// BYTE SURGERY
// ------------------------------------------------------------------------------------------------
/// FRI proof = u8 layer count, per layer (u32 len + values, u32 len + paths), u16 len + remainder, u8.
pub struct FriParts {
    pub layers: Vec<(Vec<u8>, Vec<u8>)>,
    pub remainder: Vec<u8>,
    pub parts: u8,
}
pub fn split_fri(p: &FriProof) -> FriParts {
    let b = p.to_bytes();
    let mut r = SliceReader::new(&b);
    let n = r.read_u8().unwrap() as usize;
    let mut layers = vec![];
    for _ in 0..n {
        let vl = r.read_u32().unwrap() as usize;
        let v = r.read_vec(vl).unwrap();
        let pl = r.read_u32().unwrap() as usize;
        let pth = r.read_vec(pl).unwrap();
        layers.push((v, pth));
    }
    let rl = r.read_u16().unwrap() as usize;
    let remainder = r.read_vec(rl).unwrap();
    let parts = r.read_u8().unwrap();
    FriParts { layers, remainder, parts }
}
pub fn join_fri(f: &FriParts) -> FriProof {
    let mut b = vec![f.layers.len() as u8];
    for (v, p) in &f.layers {
        b.extend_from_slice(&(v.len() as u32).to_le_bytes());
        b.extend_from_slice(v);
        b.extend_from_slice(&(p.len() as u32).to_le_bytes());
        b.extend_from_slice(p);
    }
    b.extend_from_slice(&(f.remainder.len() as u16).to_le_bytes());
    b.extend_from_slice(&f.remainder);
    b.push(f.parts);
    FriProof::read_from_bytes(&b).expect("fri proof re-encodes")
}
pub fn elems_to_bytes<E: FieldElement>(v: &[E]) -> Vec<u8> {
    let mut b = Vec::with_capacity(v.len() * E::ELEMENT_BYTES);
    for e in v {
        e.write_into(&mut b);
    }
    b
}
pub fn bytes_to_elems<E: FieldElement>(b: &[u8]) -> Vec<E> {
    let mut r = SliceReader::new(b);
    r.read_many(b.len() / E::ELEMENT_BYTES).expect("elements decode")
}

pub fn fri_options(sc: &Value) -> FriOptions {
    FriOptions::new(
        sc["B"].as_u64().unwrap() as usize,
        sc["N"].as_u64().unwrap() as usize,
        sc["R"].as_u64().unwrap() as usize,
    )
}

pub fn mismatch(i: usize, kind: &str, detail: Value) -> Value {
    json!({"i": i, "kind": kind, "detail": detail})
}
