//! C08 over the production fields: TLC enumerates supported parameter combinations (field, extension,
//! hash function, domain, blowup, folding factor, remainder degree, polynomial family, number of
//! queries); the polynomial's coefficients are drawn here from the scenario's seed, the coin is the
//! real `DefaultRandomCoin`, and only the verdict (accept, also after a byte round trip of the proof)
//! is compared with the specification's.
use serde_json::{json, Value};
use winter_crypto::{
    hashers::{Blake3_192, Blake3_256, Rp62_248, Rp64_256, RpJive64_256, Sha3_256},
    DefaultRandomCoin, ElementHasher,
};
use winter_fri::FriProof;
use winter_math::{
    fft,
    fields::{f128, f62, f64, CubeExtension, QuadExtension},
    FieldElement, StarkField,
};
use winter_rand_utils::prng_vector;
use winter_utils::{Deserializable, Serializable};
use wfcommon::util::{catch, read_ndjson, Out};

use crate::common::*;

pub fn seed32(seed: u64, salt: u64) -> [u8; 32] {
    let mut s = [0u8; 32];
    s[..8].copy_from_slice(&seed.to_le_bytes());
    s[8..16].copy_from_slice(&salt.to_le_bytes());
    s
}

/// Coefficients (constant term first, exactly `len` of them) of a polynomial of the given family.
pub fn poly_of_family<E: FieldElement>(fam: u64, seed: u64, len: usize) -> Vec<E> {
    let rnd: Vec<E> = prng_vector(seed32(seed, 1), len);
    let k = (seed as usize / 7) % len;
    let nz = |e: E| if e == E::ZERO { E::ONE } else { e };
    let mut p = vec![E::ZERO; len];
    match fam {
        0 => {},
        1 => p[0] = rnd[0],
        2 => p[k] = E::ONE,
        3 => p[len - 1] = nz(rnd[0]),
        4 => {
            p = rnd.clone();
            p[len - 1] = nz(p[len - 1]);
        },
        _ => p[..=k].copy_from_slice(&rnd[..=k]),
    }
    p
}

/// Evaluations of `poly` (a power-of-two number of coefficients) over GENERATOR * <w_n>.
pub fn evaluate<B: StarkField, E: FieldElement<BaseField = B>>(poly: &[E], n: usize) -> Vec<E> {
    if poly.len() == 1 {
        return vec![poly[0]; n];
    }
    let twiddles = fft::get_twiddles::<B>(poly.len());
    fft::evaluate_poly_with_offset(poly, &twiddles, B::GENERATOR, n / poly.len())
}

fn run_real<B, E, H>(i: usize, sc: &Value, out: &mut Out) -> usize
where
    B: StarkField,
    E: FieldElement<BaseField = B>,
    H: ElementHasher<BaseField = B>,
{
    let n = sc["n"].as_u64().unwrap() as usize;
    let blowup = sc["B"].as_u64().unwrap() as usize;
    let dmax = sc["dmax"].as_u64().unwrap() as usize;
    let nq = sc["nq"].as_u64().unwrap() as usize;
    let options = fri_options(sc);
    let expected = sc["verdict"].as_str().unwrap_or("accept").to_string();
    let mut bad = 0usize;
    let poly: Vec<E> = poly_of_family(sc["fam"].as_u64().unwrap(), sc["seed"].as_u64().unwrap(), n / blowup);
    let evals = match catch(|| evaluate::<B, E>(&poly, n)) {
        Ok(e) => e,
        Err(p) => {
            eprintln!("scenario {i}: evaluation of the polynomial failed: {p}");
            std::process::exit(2)
        },
    };
    let pr = match prove::<E, H, DefaultRandomCoin<H>>(&options, evals.clone(), nq, n) {
        Ok(p) => p,
        Err(p) => {
            let loc = p.split(": ").next().unwrap_or("").replace("/repo/", "");
            out.emit(&mismatch(i, "verdict", json!({"stage": "prove", "expected": expected, "got": format!("panic:{loc}"), "panic": p})));
            return 1;
        },
    };
    let pos = pr.positions.clone();
    let qe: Vec<E> = pos.iter().map(|&p| evals[p]).collect();
    let got = verify_strict::<E, H, DefaultRandomCoin<H>>(pr.proof.clone(), pr.commitments.clone(), &options, n, dmax, &qe, &pos);
    if (expected == "accept") != is_accept(&got) {
        bad += 1;
        out.emit(&mismatch(i, "verdict", json!({"stage": "verify", "expected": expected, "got": got, "positions": pos})));
    }
    let bytes = pr.proof.to_bytes();
    match catch(|| FriProof::read_from_bytes(&bytes)) {
        Ok(Ok(p2)) => {
            if p2 != pr.proof {
                bad += 1;
                out.emit(&mismatch(i, "roundtrip", json!({"stage": "roundtrip", "expected": "identical proof", "got": "different proof"})));
            }
            let got2 = verify_strict::<E, H, DefaultRandomCoin<H>>(p2, pr.commitments.clone(), &options, n, dmax, &qe, &pos);
            if (expected == "accept") != is_accept(&got2) {
                bad += 1;
                out.emit(&mismatch(i, "verdict", json!({"stage": "verify-after-roundtrip", "expected": expected, "got": got2})));
            }
        },
        Ok(Err(e)) => {
            bad += 1;
            out.emit(&mismatch(i, "roundtrip", json!({"stage": "roundtrip", "expected": "ok", "got": format!("error:{e:?}")})));
        },
        Err(p) => {
            bad += 1;
            out.emit(&mismatch(i, "roundtrip", json!({"stage": "roundtrip", "expected": "ok", "got": "panic", "panic": p})));
        },
    }
    bad
}

/// Dispatch on (field, extension degree, hash function) of a scenario.
macro_rules! by_real_field {
    ($f:ident, $sc:expr, ($($arg:expr),*)) => {{
        let field = $sc["field"].as_str().unwrap_or("");
        let ext = $sc["ext"].as_u64().unwrap_or(1);
        let hasher = $sc["hasher"].as_str().unwrap_or("");
        macro_rules! with_ext {
            ($b:ty, $h:ty) => {
                match ext {
                    1 => $f::<$b, $b, $h>($($arg),*),
                    2 => $f::<$b, QuadExtension<$b>, $h>($($arg),*),
                    3 => $f::<$b, CubeExtension<$b>, $h>($($arg),*),
                    _ => panic!("unsupported extension degree"),
                }
            };
        }
        macro_rules! with_ext12 {
            ($b:ty, $h:ty) => {
                match ext {
                    1 => $f::<$b, $b, $h>($($arg),*),
                    2 => $f::<$b, QuadExtension<$b>, $h>($($arg),*),
                    _ => panic!("unsupported extension degree"),
                }
            };
        }
        match (field, hasher) {
            ("f64", "blake3_256") => with_ext!(f64::BaseElement, Blake3_256<f64::BaseElement>),
            ("f64", "blake3_192") => with_ext!(f64::BaseElement, Blake3_192<f64::BaseElement>),
            ("f64", "sha3_256") => with_ext!(f64::BaseElement, Sha3_256<f64::BaseElement>),
            ("f64", "rp64_256") => with_ext!(f64::BaseElement, Rp64_256),
            ("f64", "rpjive64_256") => with_ext!(f64::BaseElement, RpJive64_256),
            ("f62", "blake3_256") => with_ext!(f62::BaseElement, Blake3_256<f62::BaseElement>),
            ("f62", "blake3_192") => with_ext!(f62::BaseElement, Blake3_192<f62::BaseElement>),
            ("f62", "sha3_256") => with_ext!(f62::BaseElement, Sha3_256<f62::BaseElement>),
            ("f62", "rp62_248") => with_ext!(f62::BaseElement, Rp62_248),
            ("f128", "blake3_256") => with_ext12!(f128::BaseElement, Blake3_256<f128::BaseElement>),
            ("f128", "blake3_192") => with_ext12!(f128::BaseElement, Blake3_192<f128::BaseElement>),
            ("f128", "sha3_256") => with_ext12!(f128::BaseElement, Sha3_256<f128::BaseElement>),
            _ => panic!("unsupported field / hash function {field} {hasher}"),
        }
    }};
}
pub(crate) use by_real_field;

fn run_all(scenarios: &[Value], out: &mut Out) -> (usize, usize) {
    let mut bad = 0;
    for (i, sc) in scenarios.iter().enumerate() {
        bad += by_real_field!(run_real, sc, (i, sc, out));
    }
    (scenarios.len(), bad)
}

pub fn main(args: &[String]) -> i32 {
    let scenarios = read_ndjson(&args[0]);
    let threads: usize = args.get(1).and_then(|s| s.parse().ok()).unwrap_or(0);
    let mut out = Out::new();
    #[cfg(feature = "concurrent")]
    let (n, bad) = {
        let pool = winter_utils::rayon::ThreadPoolBuilder::new().num_threads(threads.max(1)).build().expect("pool");
        pool.install(|| run_all(&scenarios, &mut out))
    };
    #[cfg(not(feature = "concurrent"))]
    let (n, bad) = {
        let _ = threads;
        run_all(&scenarios, &mut out)
    };
    out.emit(&json!({"summary": true, "scenarios": n, "verifications": 2 * n, "mismatches": bad,
        "concurrent": cfg!(feature = "concurrent"), "threads": threads}));
    out.flush();
    0
}
