//! C09: non-low-degree data and substituted openings.
//!
//! Toy fields (`attack`): the scenario carries the evaluation vector, the scripted challenges, the
//! positions AND the substituted values (forged rows of a layer, forged remainder, changed query
//! evaluation), all computed by TLC (spec/fri/GenFriAttack.tla) together with the two verdicts of
//! Fri.tla's verifier: `strict` (commitments compared) and `perm` (nothing compared).  This engine
//! runs the honest prover, writes the substituted values into the proof, and runs the REAL
//! FriVerifier twice: over DefaultVerifierChannel (must give the strict verdict) and over the
//! permissive channel of chan.rs (must give the perm verdict — for the crafted forgeries this is the
//! vacuity guard: they pass every algebraic check, so only the commitments can reject them).
//!
//! Production fields (`realattack`): the same classes, restricted to those whose rejection does not
//! depend on chance; values above 31 bits cannot come from TLC, so the substitutions are manufactured
//! here from the recorded challenges (TapCoin), guarded by the permissive run in the same way.
use std::collections::BTreeMap;

use serde_json::{json, Value};
use winter_crypto::{
    hashers::{Blake3_192, Blake3_256, Rp62_248, Rp64_256, RpJive64_256, Sha3_256},
    DefaultRandomCoin, ElementHasher, MerkleTree,
};
use winter_fri::{folding::fold_positions, FriOptions, FriProof};
use winter_math::{
    fields::{f128, f62, f64, CubeExtension, QuadExtension},
    polynom, FieldElement, StarkField,
};
use wfcommon::{
    toy::{F193, F257, F40961, F97},
    util::{read_ndjson, usizes_of, Out},
};

use crate::{
    chan::PermissiveChannel,
    coin::{events_take, set_script, tap_clear, tap_take, ScriptedCoin, TapCoin},
    common::*,
    real::{by_real_field, evaluate, poly_of_family},
    toy::by_field,
};

#[derive(Default)]
struct Stats {
    scenarios: usize,
    strict_runs: usize,
    perm_runs: usize,
    skipped: usize,
    mismatches: usize,
}

/// Compares the two real verdicts with the expected ones and emits mismatches:
///   kind "strict"     expected reject, the real verifier did not reject (accept or panic)   [gating]
///   kind "overreject" expected accept, the real verifier rejected                            [information]
///   kind "guard"      a crafted forgery does not pass the algebraic checks (perm expected accept) [tool error]
///   kind "perm"       any other difference on the permissive channel                         [information]
///   kind "errname"    rejected as expected, but by another check than Fri.tla's transcription   [information]
fn judge(i: usize, sc: &Value, strict: &str, perm: Option<&str>, st: &mut Stats, out: &mut Out) {
    let exp_s = sc["strict"].as_str().unwrap_or("");
    let exp_p = sc["perm"].as_str().unwrap_or("");
    let crafted = matches!(sc["cls"].as_str().unwrap_or(""), "kernel" | "remcraft");
    if let Some(p) = perm {
        let exp_acc = exp_p == "accept";
        if exp_p != "oob" && exp_p != "any" && exp_acc != is_accept(p) {
            st.mismatches += 1;
            let kind = if crafted && exp_acc { "guard" } else { "perm" };
            out.emit(&mismatch(i, kind, json!({"channel": "permissive", "expected": exp_p, "got": p})));
            if kind == "guard" {
                return;
            }
        }
    }
    let exp_acc = exp_s == "accept";
    if exp_acc {
        if !is_accept(strict) {
            st.mismatches += 1;
            out.emit(&mismatch(i, "overreject", json!({"channel": "default", "expected": exp_s, "got": strict})));
        }
    } else if !is_reject(strict) {
        st.mismatches += 1;
        out.emit(&mismatch(i, "strict", json!({"channel": "default", "expected": exp_s, "got": strict})));
    } else if exp_s != "reject" && strict != format!("reject:{exp_s}") {
        // same verdict, another check fired first than in Fri.tla's transcription (information)
        out.emit(&mismatch(i, "errname", json!({"channel": "default", "expected": exp_s, "got": strict})));
    }
}

/// Positions queried in every layer (real `fold_positions`), layer 0 first.
fn folded_all(pos: &[usize], n: usize, folding: usize, layers: usize) -> Vec<Vec<usize>> {
    let mut cur = pos.to_vec();
    let mut size = n;
    let mut out = vec![];
    for _ in 0..layers {
        cur = fold_positions(&cur, size, folding);
        out.push(cur.clone());
        size /= folding;
    }
    out
}

fn layer_values<E: FieldElement>(proof: &FriProof) -> (Vec<Vec<E>>, Vec<E>) {
    let parts = split_fri(proof);
    (parts.layers.iter().map(|(v, _)| bytes_to_elems::<E>(v)).collect(), bytes_to_elems::<E>(&parts.remainder))
}

fn with_values<E: FieldElement>(proof: &FriProof, layers: &[Vec<E>], rem: &[E]) -> FriProof {
    let mut parts = split_fri(proof);
    for (l, vals) in layers.iter().enumerate() {
        parts.layers[l].0 = elems_to_bytes(vals);
    }
    parts.remainder = elems_to_bytes(rem);
    join_fri(&parts)
}

// TOY FIELDS
// ------------------------------------------------------------------------------------------------
fn run_toy<B, E, H>(i: usize, sc: &Value, st: &mut Stats, out: &mut Out)
where
    B: StarkField,
    E: FieldElement<BaseField = B>,
    H: ElementHasher<BaseField = B>,
    <B as FieldElement>::PositiveInteger: TryInto<u64>,
{
    let n = sc["n"].as_u64().unwrap() as usize;
    let folding = sc["N"].as_u64().unwrap() as usize;
    let dmax = sc["dmax"].as_u64().unwrap() as usize;
    let options = fri_options(sc);
    let evals: Vec<E> = elems(&sc["evals"]);
    let pos = usizes_of(&sc["pos"]);
    set_script(alphas_of(&sc["alphas"]), pos.clone());
    // a cheating prover may run the honest algorithm under options of its own (pB / pR: e.g. half the blowup
    // and a correspondingly larger remainder over the same domain); the verifier always uses B / R
    let prover_options = match (sc["pB"].as_u64(), sc["pR"].as_u64()) {
        (Some(b), Some(r)) => winter_fri::FriOptions::new(b as usize, folding, r as usize),
        _ => options.clone(),
    };
    let pr = match prove::<E, H, ScriptedCoin<B, H>>(&prover_options, evals.clone(), pos.len(), n) {
        Ok(p) => p,
        Err(p) => {
            // the honest prover is not what C09 is about: report as a skipped scenario
            st.skipped += 1;
            out.emit(&mismatch(i, "skip", json!({"why": "prover panicked", "panic": p})));
            return;
        },
    };
    let (mut layers, mut rem) = layer_values::<E>(&pr.proof);
    let real_folded = folded_all(&pos, n, folding, layers.len());
    if layers.len() != sc["L"].as_u64().unwrap() as usize {
        st.skipped += 1;
        out.emit(&mismatch(i, "skip", json!({"why": "the real prover built another number of layers than the specification"})));
        return;
    }
    if sc["cls"].as_str() == Some("each") {
        // every revealed value changed, one substitution at a time; each must be rejected
        let qe: Vec<E> = pos.iter().map(|&p| evals[p]).collect();
        let delta: E = elem(&sc["delta"]);
        for sub in sc["subs"].as_array().unwrap() {
            let l = sub["l"].as_u64().unwrap() as usize;
            let p = sub["pos"].as_u64().unwrap() as usize;
            let col = sub["col"].as_u64().unwrap() as usize;
            let (mut ls, mut r) = (layers.clone(), rem.clone());
            if l == 0 {
                r[p] += delta;
            } else {
                match real_folded[l - 1].iter().position(|&q| q == p) {
                    Some(k) => ls[l - 1][k * folding + col] += delta,
                    None => {
                        st.skipped += 1;
                        out.emit(&mismatch(i, "skip", json!({"why": "folded positions differ from the specification's"})));
                        return;
                    },
                }
            }
            let forged = with_values(&pr.proof, &ls, &r);
            let strict = verify_strict::<E, H, ScriptedCoin<B, H>>(forged, pr.commitments.clone(), &options, n, dmax, &qe, &pos);
            st.strict_runs += 1;
            let exp = sub["strict"].as_str().unwrap_or("");
            if exp != "accept" && !is_reject(&strict) {
                st.mismatches += 1;
                out.emit(&mismatch(i, "strict", json!({"channel": "default", "expected": exp, "got": strict, "substitution": sub})));
                return;
            }
        }
        return;
    }
    // forged rows: the specification's rows by folded position, written in the real row order
    if let Some(frows) = sc["frows"].as_array().filter(|a| !a.is_empty()) {
        for (l, rows) in frows.iter().enumerate() {
            if l >= layers.len() {
                break;
            }
            let spec_pos = usizes_of(&sc["folded"][l]);
            let mut want: BTreeMap<usize, Vec<E>> = BTreeMap::new();
            for (k, p) in spec_pos.iter().enumerate() {
                want.insert(*p, elems(&rows[k]));
            }
            let mut flat = Vec::with_capacity(layers[l].len());
            for p in real_folded[l].iter() {
                match want.get(p) {
                    Some(r) => flat.extend_from_slice(r),
                    None => {
                        st.skipped += 1;
                        out.emit(&mismatch(i, "skip", json!({"why": "folded positions differ from the specification's"})));
                        return;
                    },
                }
            }
            layers[l] = flat;
        }
    }
    if sc["frem"].as_array().map(|a| !a.is_empty()).unwrap_or(false) {
        rem = elems(&sc["frem"]);
    }
    let qe: Vec<E> = if sc["fqe"].as_array().map(|a| !a.is_empty()).unwrap_or(false) {
        elems(&sc["fqe"])
    } else {
        pos.iter().map(|&p| evals[p]).collect()
    };
    let forged = with_values(&pr.proof, &layers, &rem);
    let strict = verify_strict::<E, H, ScriptedCoin<B, H>>(forged, pr.commitments.clone(), &options, n, dmax, &qe, &pos);
    st.strict_runs += 1;
    let perm = if sc["perm"].as_str() == Some("oob") {
        None
    } else {
        st.perm_runs += 1;
        let ch = PermissiveChannel::<E, H>::new(pr.commitments.clone(), layers.clone(), rem.clone());
        Some(verify_with::<E, H, ScriptedCoin<B, H>, _>(ch, &options, dmax, &qe, &pos))
    };
    judge(i, sc, &strict, perm.as_deref(), st, out);
}

// PRODUCTION FIELDS
// ------------------------------------------------------------------------------------------------
fn decode<E: FieldElement>(b: &[u8]) -> E {
    bytes_to_elems::<E>(b)[0]
}

fn run_real<B, E, H>(i: usize, sc: &Value, st: &mut Stats, out: &mut Out)
where
    B: StarkField,
    E: FieldElement<BaseField = B>,
    H: ElementHasher<BaseField = B>,
{
    let n = sc["n"].as_u64().unwrap() as usize;
    let blowup = sc["B"].as_u64().unwrap() as usize;
    let folding = sc["N"].as_u64().unwrap() as usize;
    let dmax = sc["dmax"].as_u64().unwrap() as usize;
    let true_bound = sc["bound"].as_u64().unwrap() as usize;
    let nq = sc["nq"].as_u64().unwrap() as usize;
    let seed = sc["seed"].as_u64().unwrap();
    let draw_domain = sc["drawdomain"].as_u64().unwrap() as usize;
    let cls = sc["cls"].as_str().unwrap_or("");
    let options: FriOptions = fri_options(sc);
    let poly: Vec<E> = poly_of_family(4, seed, n / blowup);
    let evals = evaluate::<B, E>(&poly, n);
    // (the recording coin is the real DefaultRandomCoin plus an event log: same values)
    let _ = events_take();
    let pr = match prove::<E, H, TapCoin<H>>(&options, evals.clone(), nq, draw_domain) {
        Ok(p) => p,
        Err(p) => {
            st.skipped += 1;
            out.emit(&mismatch(i, "skip", json!({"why": "prover panicked", "panic": p})));
            return;
        },
    };
    let pos = pr.positions.clone();
    let mut qe: Vec<E> = pos.iter().map(|&p| evals[p]).collect();
    // the honest proof must verify under the true bound (otherwise nothing below means anything), and
    // the verifier's coin tells the challenges
    tap_clear();
    let honest = verify_strict::<E, H, TapCoin<H>>(pr.proof.clone(), pr.commitments.clone(), &options, n, true_bound, &qe, &pos);
    let alphas: Vec<E> = tap_take().iter().map(|b| decode::<E>(b)).collect();
    // public-coin schedule of the honest run (prover events up to the first verifier "new"), validated by
    // spec/fri/FriSchedule.tla: every layer commitment is absorbed before its folding challenge is drawn
    {
        let ev = events_take();
        let split = ev.iter().enumerate().filter(|(_, e)| e.0 == "new").map(|(k, _)| k).nth(1).unwrap_or(ev.len());
        let js = |s: &[(String, String)]| -> Vec<Value> { s.iter().map(|(e, d)| json!({"e": e, "d": d})).collect() };
        let coms: Vec<String> = pr.commitments.iter().map(|c| winter_utils::Serializable::to_bytes(c).iter().map(|x| format!("{x:02x}")).collect()).collect();
        out.emit(&mismatch(i, "schedule", json!({"layers": pr.num_layers, "commitments": coms,
            "prover": js(&ev[..split]), "verifier": js(&ev[split..])})));
    }
    if !is_accept(&honest) {
        st.skipped += 1;
        out.emit(&mismatch(i, "skip", json!({"why": "honest proof not accepted", "got": honest})));
        return;
    }
    let (mut layers, mut rem) = layer_values::<E>(&pr.proof);
    let num_layers = layers.len();
    let folded = folded_all(&pos, n, folding, num_layers);
    let pick = |m: usize, salt: u64| ((seed / 3 + salt * 7919) as usize) % m.max(1);
    let skip = |st: &mut Stats, out: &mut Out, why: &str| {
        st.skipped += 1;
        out.emit(&mismatch(i, "skip", json!({"why": why})));
    };
    match cls {
        "layer" => {
            let l = pick(num_layers, 1);
            let k = pick(layers[l].len(), 2);
            layers[l][k] += E::ONE;
        },
        "rem" => {
            let k = pick(rem.len(), 3);
            rem[k] += E::ONE;
        },
        "evalchg" => {
            let k = pick(qe.len(), 4);
            qe[k] += E::ONE;
        },
        "under" | "under2" => {},
        "each" => {
            // every revealed value changed (+1), one at a time (at most 400 substitutions per scenario)
            let mut cells: Vec<(usize, usize)> = vec![];
            for (l, v) in layers.iter().enumerate() {
                cells.extend((0..v.len()).map(|k| (l + 1, k)));
            }
            cells.extend((0..rem.len()).map(|k| (0, k)));
            let step = cells.len() / 400 + 1;
            for (l, k) in cells.into_iter().step_by(step) {
                let (mut ls, mut r) = (layers.clone(), rem.clone());
                if l == 0 {
                    r[k] += E::ONE;
                } else {
                    ls[l - 1][k] += E::ONE;
                }
                let forged = with_values(&pr.proof, &ls, &r);
                let strict = verify_strict::<E, H, DefaultRandomCoin<H>>(forged, pr.commitments.clone(), &options, n, dmax, &qe, &pos);
                st.strict_runs += 1;
                if !is_reject(&strict) {
                    st.mismatches += 1;
                    out.emit(&mismatch(i, "strict", json!({"channel": "default", "expected": "reject", "got": strict,
                        "substitution": {"l": l, "index": k}})));
                    return;
                }
            }
            return;
        },
        "kernel" => {
            let l = pick(num_layers, 1);
            let size = n / folding.pow(l as u32);
            let m = size / folding;
            let k = pick(folded[l].len(), 2);
            let p = folded[l][k];
            let into: &[usize] = if l == 0 { &pos } else { &folded[l - 1] };
            let pinned: Vec<usize> = into.iter().filter(|&&q| q % m == p).map(|&q| q / m).collect();
            let free: Vec<usize> = (0..folding).filter(|c| !pinned.contains(c)).collect();
            if free.len() < 2 || l >= alphas.len() {
                return skip(st, out, "fewer than two un-pinned values in the chosen coset");
            }
            let g = B::get_root_of_unity(n.ilog2()).exp_vartime(((folding.pow(l as u32)) as u64).into());
            let zeta = g.exp_vartime((m as u64).into());
            let x0 = B::GENERATOR * g.exp_vartime((p as u64).into());
            let xs: Vec<E> = (0..folding).map(|c| E::from(x0 * zeta.exp_vartime((c as u64).into()))).collect();
            let basis = |c: usize| {
                let mut ys = vec![E::ZERO; folding];
                ys[c] = E::ONE;
                polynom::eval(&polynom::interpolate(&xs, &ys, false), alphas[l])
            };
            let (j1, j2) = (free[0], free[1]);
            let (l1, l2) = (basis(j1), basis(j2));
            let c = E::from(7u32);
            let (d1, d2) = if l1 == E::ZERO && l2 == E::ZERO { (c, c) } else { (l2 * c, -(l1 * c)) };
            layers[l][k * folding + j1] += d1;
            layers[l][k * folding + j2] += d2;
        },
        "remcraft" => {
            let last: Vec<usize> = if num_layers == 0 {
                let mut v = vec![];
                for p in &pos {
                    if !v.contains(p) {
                        v.push(*p);
                    }
                }
                v
            } else {
                folded[num_layers - 1].clone()
            };
            if last.len() + 1 > rem.len() {
                return skip(st, out, "remainder too short for the number of last-layer points");
            }
            let g = B::get_root_of_unity(n.ilog2()).exp_vartime(((folding.pow(num_layers as u32)) as u64).into());
            let xs: Vec<E> = last.iter().map(|&p| E::from(B::GENERATOR * g.exp_vartime((p as u64).into()))).collect();
            let mpoly = polynom::poly_from_roots(&xs); // constant term first
            let len = rem.len();
            for (e, c) in mpoly.iter().enumerate() {
                rem[len - 1 - e] += *c * E::from(7u32); // the remainder is sent highest degree first
            }
        },
        _ => return skip(st, out, "unknown class"),
    }
    let forged = with_values(&pr.proof, &layers, &rem);
    let perm = if matches!(cls, "kernel" | "remcraft") {
        st.perm_runs += 1;
        let ch = PermissiveChannel::<E, H>::new(pr.commitments.clone(), layers.clone(), rem.clone());
        Some(verify_with::<E, H, DefaultRandomCoin<H>, _>(ch, &options, dmax, &qe, &pos))
    } else {
        None
    };
    let strict = verify_strict::<E, H, DefaultRandomCoin<H>>(forged, pr.commitments.clone(), &options, n, dmax, &qe, &pos);
    st.strict_runs += 1;
    judge(i, sc, &strict, perm.as_deref(), st, out);
}

fn summary(st: &Stats, out: &mut Out) {
    out.emit(&json!({"summary": true, "scenarios": st.scenarios, "strict_runs": st.strict_runs, "perm_runs": st.perm_runs,
        "skipped": st.skipped, "mismatches": st.mismatches}));
    out.flush();
}

pub fn main_toy(args: &[String]) -> i32 {
    let scenarios = read_ndjson(&args[0]);
    let mut out = Out::new();
    let mut st = Stats::default();
    for (i, sc) in scenarios.iter().enumerate() {
        st.scenarios += 1;
        // a panic of the engine itself (e.g. the real transcript has another shape than the
        // specification's) must not kill the run: the scenario is reported as skipped
        if let Err(p) = wfcommon::util::catch(|| by_field!(run_toy, sc, i, (i, sc, &mut st, &mut out))) {
            st.skipped += 1;
            out.emit(&mismatch(i, "skip", json!({"why": "engine panicked", "panic": p})));
        }
    }
    summary(&st, &mut out);
    0
}

pub fn main_real(args: &[String]) -> i32 {
    let scenarios = read_ndjson(&args[0]);
    let mut out = Out::new();
    let mut st = Stats::default();
    for (i, sc) in scenarios.iter().enumerate() {
        st.scenarios += 1;
        if let Err(p) = wfcommon::util::catch(|| by_real_field!(run_real, sc, (i, sc, &mut st, &mut out))) {
            st.skipped += 1;
            out.emit(&mismatch(i, "skip", json!({"why": "engine panicked", "panic": p})));
        }
    }
    summary(&st, &mut out);
    0
}
