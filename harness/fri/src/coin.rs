//! Random coins used by the FRI engines.
//!
//! `ScriptedCoin`: the folding challenges and the query positions are CHOSEN BY TLC (they are part of
//! the scenario); `draw` returns the next scripted alpha, `draw_integers` the scripted positions.
//! (`DefaultRandomCoin` cannot draw extension elements of the toy fields and uses 16 bits only for
//! their base elements.)  The script lives in a process-wide slot because `DefaultProverChannel::new`
//! builds its coin itself (`RandomCoin::new(&[])`); every coin instance keeps its own cursor, so the
//! prover's coin and the verifier's coin both start from the first alpha.
//!
//! `TapCoin`: the real `DefaultRandomCoin`, with every drawn element logged (as bytes), so that an
//! attack engine learns the challenges of a real-field transcript.
use std::{marker::PhantomData, sync::Mutex};

use winter_crypto::{DefaultRandomCoin, ElementHasher, Hasher, RandomCoin, RandomCoinError};
use winter_math::{FieldElement, StarkField};
use winter_utils::Serializable;

pub struct Script {
    pub alphas: Vec<Vec<u32>>,
    pub positions: Vec<usize>,
}

static SCRIPT: Mutex<Script> = Mutex::new(Script { alphas: Vec::new(), positions: Vec::new() });

pub fn set_script(alphas: Vec<Vec<u32>>, positions: Vec<usize>) {
    let mut s = SCRIPT.lock().unwrap_or_else(|e| e.into_inner());
    s.alphas = alphas;
    s.positions = positions;
}

pub struct ScriptedCoin<B, H> {
    next: usize,
    _p: PhantomData<fn() -> (B, H)>,
}

impl<B: StarkField, H: ElementHasher<BaseField = B>> RandomCoin for ScriptedCoin<B, H> {
    type BaseField = B;
    type Hasher = H;

    fn new(_seed: &[B]) -> Self {
        ScriptedCoin { next: 0, _p: PhantomData }
    }
    fn reseed(&mut self, _data: H::Digest) {}
    fn check_leading_zeros(&self, _value: u64) -> u32 {
        0
    }
    fn draw<E: FieldElement<BaseField = B>>(&mut self) -> Result<E, RandomCoinError> {
        let s = SCRIPT.lock().unwrap_or_else(|e| e.into_inner());
        let coords = match s.alphas.get(self.next) {
            Some(c) => c,
            None => return Err(RandomCoinError::FailedToDrawFieldElement(self.next)),
        };
        self.next += 1;
        if coords.len() != E::EXTENSION_DEGREE {
            return Err(RandomCoinError::FailedToDrawFieldElement(0));
        }
        let base: Vec<B> = coords.iter().map(|&c| B::from(c)).collect();
        Ok(E::slice_from_base_elements(&base)[0])
    }
    fn draw_integers(&mut self, _num_values: usize, _domain_size: usize, _nonce: u64) -> Result<Vec<usize>, RandomCoinError> {
        let s = SCRIPT.lock().unwrap_or_else(|e| e.into_inner());
        Ok(s.positions.clone())
    }
}

static TAP: Mutex<Vec<Vec<u8>>> = Mutex::new(Vec::new());
/// abstract coin events of TapCoin instances: ("new", ""), ("reseed", hex digest), ("draw", ""), ("ints", "")
static EVENTS: Mutex<Vec<(String, String)>> = Mutex::new(Vec::new());

pub fn events_take() -> Vec<(String, String)> {
    std::mem::take(&mut *EVENTS.lock().unwrap_or_else(|e| e.into_inner()))
}
fn event(e: &str, d: String) {
    EVENTS.lock().unwrap_or_else(|e| e.into_inner()).push((e.to_string(), d));
}
fn hex(b: &[u8]) -> String {
    b.iter().map(|x| format!("{x:02x}")).collect()
}

pub fn tap_clear() {
    TAP.lock().unwrap_or_else(|e| e.into_inner()).clear();
}
pub fn tap_take() -> Vec<Vec<u8>> {
    std::mem::take(&mut *TAP.lock().unwrap_or_else(|e| e.into_inner()))
}

pub struct TapCoin<H: ElementHasher>(DefaultRandomCoin<H>);

impl<B: StarkField, H: ElementHasher<BaseField = B>> RandomCoin for TapCoin<H> {
    type BaseField = B;
    type Hasher = H;

    fn new(seed: &[B]) -> Self {
        event("new", String::new());
        TapCoin(DefaultRandomCoin::new(seed))
    }
    fn reseed(&mut self, data: <H as Hasher>::Digest) {
        event("reseed", hex(&data.to_bytes()));
        self.0.reseed(data)
    }
    fn check_leading_zeros(&self, value: u64) -> u32 {
        self.0.check_leading_zeros(value)
    }
    fn draw<E: FieldElement<BaseField = B>>(&mut self) -> Result<E, RandomCoinError> {
        event("draw", String::new());
        let r = self.0.draw::<E>()?;
        TAP.lock().unwrap_or_else(|e| e.into_inner()).push(r.to_bytes());
        Ok(r)
    }
    fn draw_integers(&mut self, num_values: usize, domain_size: usize, nonce: u64) -> Result<Vec<usize>, RandomCoinError> {
        event("ints", String::new());
        self.0.draw_integers(num_values, domain_size, nonce)
    }
}
