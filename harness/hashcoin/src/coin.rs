//! C20 recorder: runs call histories on the real `DefaultRandomCoin<LoggedHasher<H>>` and writes
//! one ndjson event per public coin call at its return.  `LoggedHasher<H>` implements
//! `Hasher`/`ElementHasher` by delegation to H and records every call the coin makes as a fact
//! {fn, inputs, out}; digests are interned to small ids (same bytes <=> same id, for the whole
//! process).  Nothing here decides anything: spec/coin/TraceCoin.tla validates the events.
//!
//! usage: wf-hashcoin coin <histories.ndjson> <events.ndjson>
//! Every history is run three times: "A", "A2" (the same calls again) and "B" (the digest of the
//! reseed call number `div` replaced by another one).
use std::{cell::RefCell, collections::HashMap, io::Write, marker::PhantomData};

use serde_json::{json, Value};
use wfcommon::toy::{F257, F257R, F40961, F40961R, F97};
use wfcommon::util::{bytes_of, catch, json_bytes, read_ndjson};
use winter_crypto::{
    hashers::{Blake3_192, Blake3_256, Rp62_248, Rp64_256, RpJive64_256, Sha3_256},
    DefaultRandomCoin, Digest, ElementHasher, Hasher, RandomCoin, RandomCoinError,
};
use winter_math::{
    fields::{f128, f62, f64, CubeExtension, QuadExtension},
    FieldElement, StarkField,
};
use winter_utils::{ByteReader, ByteWriter, Deserializable, DeserializationError, Serializable};

use crate::fields::TField;

// LOGGING HASHER
// ------------------------------------------------------------------------------------------------
thread_local! {
    static FACTS: RefCell<Vec<Value>> = const { RefCell::new(Vec::new()) };
    static IDS: RefCell<HashMap<Vec<u8>, u64>> = RefCell::new(HashMap::new());
}

/// id of a digest: the full serialisation and the 32 `as_bytes` together are the key
fn id_of<D: Digest>(d: &D) -> u64 {
    let mut key = d.to_bytes();
    key.extend_from_slice(&d.as_bytes());
    IDS.with(|m| {
        let mut m = m.borrow_mut();
        let n = m.len() as u64;
        *m.entry(key).or_insert(n)
    })
}

fn fact(fn_: &str, a: i64, b: i64, n: &[u8], el: Value, o: u64, ob: &[u8]) {
    FACTS.with(|f| {
        f.borrow_mut().push(json!({"fn": fn_, "a": a, "b": b, "n": json_bytes(n), "el": el, "o": o, "ob": json_bytes(ob)}))
    });
}
fn take_facts() -> Vec<Value> {
    FACTS.with(|f| std::mem::take(&mut *f.borrow_mut()))
}

pub struct LoggedHasher<H>(PhantomData<H>);

impl<H: Hasher> Hasher for LoggedHasher<H> {
    type Digest = H::Digest;
    const COLLISION_RESISTANCE: u32 = H::COLLISION_RESISTANCE;

    fn hash(bytes: &[u8]) -> Self::Digest {
        let o = H::hash(bytes);
        fact("h", -1, -1, &[], json!([json_bytes(bytes)]), id_of(&o), &[]);
        o
    }
    fn merge(values: &[Self::Digest; 2]) -> Self::Digest {
        let o = H::merge(values);
        fact("m", id_of(&values[0]) as i64, id_of(&values[1]) as i64, &[], json!([]), id_of(&o), &[]);
        o
    }
    fn merge_many(values: &[Self::Digest]) -> Self::Digest {
        let o = H::merge_many(values);
        let ids: Vec<u64> = values.iter().map(id_of).collect();
        fact("mm", -1, -1, &[], json!([ids]), id_of(&o), &[]);
        o
    }
    fn merge_with_int(seed: Self::Digest, value: u64) -> Self::Digest {
        let o = H::merge_with_int(seed, value);
        fact("mi", id_of(&seed) as i64, -1, &value.to_le_bytes(), json!([]), id_of(&o), &o.as_bytes());
        o
    }
}

impl<H: ElementHasher> ElementHasher for LoggedHasher<H> {
    type BaseField = H::BaseField;
    fn hash_elements<E: FieldElement<BaseField = Self::BaseField>>(elements: &[E]) -> Self::Digest {
        let o = H::hash_elements(elements);
        let el: Vec<Value> = elements.iter().map(|e| json_bytes(&e.to_bytes())).collect();
        fact("he", -1, -1, &[], Value::Array(el), id_of(&o), &[]);
        o
    }
}

// TRANSPARENT-HEAD HASHER
// ------------------------------------------------------------------------------------------------
/// A harness-defined hasher for the generic `DefaultRandomCoin<H>`: `merge_with_int(seed, value)` returns a
/// digest whose first 8 bytes are `value * HEAD_K mod 2^64` (little-endian) — an invertible map that keeps
/// the number of trailing zero bits and sets high bits even for small counters; the other 24 bytes, and every other method, are
/// BLAKE3 of a tagged encoding of the inputs (so distinct inputs still give distinct digests).  With real
/// hashers a digest head with more than ~30 trailing zero bits never occurs; with this one the driver picks
/// the head, so check_leading_zeros is exercised on every count 0..64, draws decode chosen bytes, etc.
/// It is an INPUT of the experiment (the coin is generic over H); the specification never knows which hasher
/// produced the logged facts.
#[derive(Debug, Default, Copy, Clone, Eq, PartialEq)]
pub struct TDigest([u8; 32]);
impl Digest for TDigest {
    fn as_bytes(&self) -> [u8; 32] {
        self.0
    }
}
impl Serializable for TDigest {
    fn write_into<W: ByteWriter>(&self, target: &mut W) {
        target.write_bytes(&self.0);
    }
}
impl Deserializable for TDigest {
    fn read_from<R: ByteReader>(source: &mut R) -> Result<Self, DeserializationError> {
        Ok(TDigest(source.read_array()?))
    }
}
pub struct TransparentHead<B>(PhantomData<B>);
/// odd, top bit set
const HEAD_K: u64 = 0x9E37_79B9_7F4A_7C15;
fn tagged(tag: u8, parts: &[&[u8]]) -> [u8; 32] {
    let mut h = blake3::Hasher::new();
    h.update(&[tag]);
    for p in parts {
        h.update(&(p.len() as u64).to_le_bytes());
        h.update(p);
    }
    *h.finalize().as_bytes()
}
impl<B: StarkField> Hasher for TransparentHead<B> {
    type Digest = TDigest;
    const COLLISION_RESISTANCE: u32 = 96;
    fn hash(bytes: &[u8]) -> TDigest {
        TDigest(tagged(b'h', &[bytes]))
    }
    fn merge(values: &[TDigest; 2]) -> TDigest {
        TDigest(tagged(b'm', &[&values[0].0, &values[1].0]))
    }
    fn merge_many(values: &[TDigest]) -> TDigest {
        let parts: Vec<&[u8]> = values.iter().map(|d| &d.0[..]).collect();
        TDigest(tagged(b'M', &parts))
    }
    fn merge_with_int(seed: TDigest, value: u64) -> TDigest {
        let mut out = tagged(b'i', &[&seed.0, &value.to_le_bytes()]);
        out.copy_within(0..24, 8);
        out[..8].copy_from_slice(&value.wrapping_mul(HEAD_K).to_le_bytes());
        TDigest(out)
    }
}
impl<B: StarkField> ElementHasher for TransparentHead<B> {
    type BaseField = B;
    fn hash_elements<E: FieldElement<BaseField = B>>(elements: &[E]) -> TDigest {
        let enc: Vec<Vec<u8>> = elements.iter().map(|e| e.to_bytes()).collect();
        let parts: Vec<&[u8]> = enc.iter().map(|v| &v[..]).collect();
        TDigest(tagged(b'e', &parts))
    }
}

// DRIVER
// ------------------------------------------------------------------------------------------------
fn res_ok(v: Value) -> Value {
    json!({"t": "ok", "v": v})
}
fn res_err(e: RandomCoinError) -> Value {
    match e {
        RandomCoinError::FailedToDrawFieldElement(k) => json!({"t": "err", "v": [k]}),
        RandomCoinError::FailedToDrawIntegers(_, _, k) => json!({"t": "err", "v": [k]}),
    }
}
fn res_panic(msg: String) -> Value {
    json!({"t": "panic", "v": [], "msg": msg})
}

fn event(e: &str, run: &str, hid: u64) -> Value {
    json!({"e": e, "run": run, "hid": hid, "f": "", "h": "", "seed": [], "d": -1, "deg": 0, "n": 0, "size": [],
           "nonce": [], "div": 0, "oracle": 1, "hf": [], "r": {"t": "ok", "v": []}})
}

fn u64_of(v: &Value) -> u64 {
    u64::from_le_bytes(bytes_of(v).try_into().expect("nonce must have 8 bytes"))
}

fn run_once<B: TField, H: ElementHasher<BaseField = B>>(h: &Value, run: &str, out: &mut Vec<Value>) {
    type Coin<H> = DefaultRandomCoin<LoggedHasher<H>>;
    let hid = h["hid"].as_u64().unwrap_or(0);
    let div = h["div"].as_u64().unwrap_or(0) as usize; // 1-based event number of the altered reseed (new = 1)
    let mut ev = event("begin", run, hid);
    ev["f"] = json!(B::NAME);
    ev["h"] = h["h"].clone();
    out.push(ev);
    take_facts();

    // new
    let seed_bytes: Vec<Vec<u8>> = h["seed"].as_array().map(|a| a.iter().map(bytes_of).collect()).unwrap_or_default();
    let seed: Vec<B> = seed_bytes.iter().map(|b| B::from_le(b)).collect();
    let mut ev = event("new", run, hid);
    ev["seed"] = Value::Array(seed_bytes.iter().map(|b| json_bytes(b)).collect());
    let mut coin = match catch(|| Coin::<H>::new(&seed)) {
        Ok(c) => c,
        Err(p) => {
            ev["r"] = res_panic(p);
            ev["hf"] = Value::Array(take_facts());
            out.push(ev);
            out.push(event("end", run, hid));
            return;
        },
    };
    ev["hf"] = Value::Array(take_facts());
    out.push(ev);

    for (k, op) in h["ops"].as_array().cloned().unwrap_or_default().iter().enumerate() {
        let name = op["op"].as_str().unwrap_or("");
        let mut ev = event(name, run, hid);
        match name {
            "reseed" => {
                let data = if run == "B" && k + 2 == div { bytes_of(&h["alt"]) } else { bytes_of(&op["data"]) };
                let d = H::hash(&data); // not logged: the digest is an input of the history
                ev["d"] = json!(id_of(&d));
                ev["r"] = match catch(|| coin.reseed(d)) {
                    Ok(()) => res_ok(json!([])),
                    Err(p) => res_panic(p),
                };
            },
            "draw" => {
                let deg = op["deg"].as_u64().unwrap_or(1);
                ev["deg"] = json!(deg);
                let r = match deg {
                    1 => catch(|| coin.draw::<B>().map(|e| e.to_bytes())),
                    2 => catch(|| coin.draw::<QuadExtension<B>>().map(|e| e.to_bytes())),
                    3 if B::MAX_DEG >= 3 => catch(|| coin.draw::<CubeExtension<B>>().map(|e| e.to_bytes())),
                    _ => {
                        eprintln!("history {hid}: unsupported degree {deg}");
                        std::process::exit(2)
                    },
                };
                ev["r"] = match r {
                    Ok(Ok(b)) => res_ok(json_bytes(&b)),
                    Ok(Err(e)) => res_err(e),
                    Err(p) => res_panic(p),
                };
            },
            "ints" => {
                let n = op["n"].as_u64().unwrap_or(0) as usize;
                // domain size and drawn integers travel as 8 little-endian bytes (they exceed 2^31)
                let size = u64_of(&op["size"]) as usize;
                ev["n"] = json!(n);
                ev["size"] = op["size"].clone();
                ev["nonce"] = op["nonce"].clone();
                let nonce = u64_of(&op["nonce"]);
                ev["r"] = match catch(|| coin.draw_integers(n, size, nonce)) {
                    Ok(Ok(v)) => res_ok(Value::Array(v.iter().map(|x| json_bytes(&(*x as u64).to_le_bytes())).collect())),
                    Ok(Err(e)) => res_err(e),
                    Err(p) => res_panic(p),
                };
            },
            "lz" => {
                ev["nonce"] = op["nonce"].clone();
                let nonce = u64_of(&op["nonce"]);
                ev["r"] = match catch(|| coin.check_leading_zeros(nonce)) {
                    Ok(z) => res_ok(json!([z])),
                    Err(p) => res_panic(p),
                };
            },
            _ => {
                eprintln!("history {hid}: unknown operation {name}");
                std::process::exit(2)
            },
        }
        ev["hf"] = Value::Array(take_facts());
        out.push(ev);
    }
    let mut ev = event("end", run, hid);
    ev["div"] = json!(div);
    // declared by the history: 1 when H is a real hash function (its outputs behave like random bytes),
    // 0 for the transparent-head hasher, whose digest heads are chosen by the driver
    ev["oracle"] = json!(h["oracle"].as_u64().unwrap_or(1));
    out.push(ev);
}

fn run_history<B: TField, H: ElementHasher<BaseField = B>>(h: &Value, out: &mut Vec<Value>) {
    for run in ["A", "A2", "B"] {
        run_once::<B, H>(h, run, out);
    }
}

pub fn main(args: &[String]) -> i32 {
    if args.len() < 2 {
        eprintln!("usage: wf-hashcoin coin <histories.ndjson> <events.ndjson>");
        return 2;
    }
    let hists = read_ndjson(&args[0]);
    let f = std::fs::File::create(&args[1]).expect("create events file");
    let mut w = std::io::BufWriter::new(f);
    let (mut nev, mut nfacts) = (0usize, 0usize);
    for h in &hists {
        let mut out = vec![];
        let key = (h["h"].as_str().unwrap_or(""), h["f"].as_str().unwrap_or(""));
        match key {
            ("b256", "f128") => run_history::<f128::BaseElement, Blake3_256<f128::BaseElement>>(h, &mut out),
            ("b256", "f64") => run_history::<f64::BaseElement, Blake3_256<f64::BaseElement>>(h, &mut out),
            ("b256", "f62") => run_history::<f62::BaseElement, Blake3_256<f62::BaseElement>>(h, &mut out),
            ("b192", "f128") => run_history::<f128::BaseElement, Blake3_192<f128::BaseElement>>(h, &mut out),
            ("b192", "f64") => run_history::<f64::BaseElement, Blake3_192<f64::BaseElement>>(h, &mut out),
            ("b192", "f62") => run_history::<f62::BaseElement, Blake3_192<f62::BaseElement>>(h, &mut out),
            ("sha3", "f128") => run_history::<f128::BaseElement, Sha3_256<f128::BaseElement>>(h, &mut out),
            ("sha3", "f64") => run_history::<f64::BaseElement, Sha3_256<f64::BaseElement>>(h, &mut out),
            ("sha3", "f62") => run_history::<f62::BaseElement, Sha3_256<f62::BaseElement>>(h, &mut out),
            ("rp64", "f64") => run_history::<f64::BaseElement, Rp64_256>(h, &mut out),
            ("rpj64", "f64") => run_history::<f64::BaseElement, RpJive64_256>(h, &mut out),
            ("rp62", "f62") => run_history::<f62::BaseElement, Rp62_248>(h, &mut out),
            ("thead", "f64") => run_history::<f64::BaseElement, TransparentHead<f64::BaseElement>>(h, &mut out),
            ("thead", "f62") => run_history::<f62::BaseElement, TransparentHead<f62::BaseElement>>(h, &mut out),
            ("thead", "f128") => run_history::<f128::BaseElement, TransparentHead<f128::BaseElement>>(h, &mut out),
            ("thead", "t40961") => run_history::<F40961, TransparentHead<F40961>>(h, &mut out),
            ("b256", "t97") => run_history::<F97, Blake3_256<F97>>(h, &mut out),
            ("b256", "t257") => run_history::<F257, Blake3_256<F257>>(h, &mut out),
            ("sha3", "t257r") => run_history::<F257R, Sha3_256<F257R>>(h, &mut out),
            ("b192", "t97") => run_history::<F97, Blake3_192<F97>>(h, &mut out),
            ("b256", "t40961") => run_history::<F40961, Blake3_256<F40961>>(h, &mut out),
            ("b192", "t40961") => run_history::<F40961, Blake3_192<F40961>>(h, &mut out),
            ("sha3", "t40961r") => run_history::<F40961R, Sha3_256<F40961R>>(h, &mut out),
            _ => {
                eprintln!("unknown hasher/field combination {key:?}");
                return 2;
            },
        }
        for ev in &out {
            nev += 1;
            nfacts += ev["hf"].as_array().map(|a| a.len()).unwrap_or(0);
            serde_json::to_writer(&mut w, ev).unwrap();
            w.write_all(b"\n").unwrap();
        }
    }
    w.flush().unwrap();
    println!("{}", json!({"summary": true, "histories": hists.len(), "events": nev, "hash_facts": nfacts}));
    0
}
