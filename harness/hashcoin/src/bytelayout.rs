//! C15: replay the cases generated from spec/hash/ByteLayout.tla on the real hashers.
//! A case carries the arguments and the expected digest as a TERM {prim, bytes, out}: the named
//! primitive applied to the layout bytes the specification computed, truncated to `out` bytes.
//! The term is evaluated here by calling the `blake3` / `sha3` crates directly; the result is
//! compared (plain equality) with what Blake3_256 / Blake3_192 / Sha3_256 returned.
use std::collections::BTreeMap;

use serde_json::{json, Value};
use sha3::Digest as _;
use wfcommon::toy::{F257, F257R, F40961R};
use wfcommon::util::{bytes_of, catch, json_bytes, read_ndjson, Out};
use winter_crypto::{
    hashers::{Blake3_192, Blake3_256, Sha3_256},
    Digest, ElementHasher, Hasher,
};
use winter_math::fields::{f128, f62, f64, CubeExtension, QuadExtension};
use winter_utils::{Deserializable, Serializable};

use crate::fields::{build, TField};

/// evaluates the expected term with the primitive itself
fn eval_term(exp: &Value) -> Result<Vec<u8>, String> {
    let bytes = bytes_of(&exp["bytes"]);
    let out = exp["out"].as_u64().unwrap_or(0) as usize;
    let full: [u8; 32] = match exp["prim"].as_str() {
        Some("blake3") => *blake3::hash(&bytes).as_bytes(),
        Some("sha3_256") => sha3::Sha3_256::digest(&bytes).into(),
        p => return Err(format!("unknown primitive {p:?}")),
    };
    if out == 0 || out > 32 {
        return Err(format!("bad output length {out}"));
    }
    Ok(full[..out].to_vec())
}

struct Obs {
    to_bytes: Vec<u8>,
    as_bytes: [u8; 32],
    classes: Vec<&'static str>,
}

fn digest_arg<H: Hasher>(b: &[u8]) -> Result<H::Digest, String> {
    H::Digest::read_from_bytes(b).map_err(|e| format!("cannot build digest argument: {e}"))
}

fn apply<B: TField, H: ElementHasher<BaseField = B>>(sc: &Value) -> Result<Obs, String> {
    let op = sc["op"].as_str().unwrap_or("");
    let ds: Vec<H::Digest> = sc["ds"]
        .as_array()
        .map(|a| a.iter().map(|d| digest_arg::<H>(&bytes_of(d))).collect::<Result<_, _>>())
        .unwrap_or(Ok(vec![]))?;
    let mut classes = vec![];
    let d = match op {
        "hash" => H::hash(&bytes_of(&sc["bytes"])),
        "merge" => H::merge(&[ds[0], ds[1]]),
        "merge_many" => H::merge_many(&ds),
        "merge_with_int" => {
            let n = u64::from_le_bytes(bytes_of(&sc["int"]).try_into().map_err(|_| "int must have 8 bytes")?);
            H::merge_with_int(ds[0], n)
        },
        "hash_elements" => {
            let deg = sc["deg"].as_u64().unwrap_or(0) as usize;
            let mut coords: Vec<Vec<B>> = vec![];
            for e in sc["elems"].as_array().ok_or("elems")? {
                let cs = e.as_array().ok_or("element")?.iter().map(build::<B>).collect::<Result<Vec<B>, _>>()?;
                if cs.len() != deg {
                    return Err("element with a wrong number of coordinates".into());
                }
                for c in &cs {
                    classes.push(c.class());
                }
                coords.push(cs);
            }
            match deg {
                1 => H::hash_elements::<B>(&coords.iter().map(|c| c[0]).collect::<Vec<_>>()),
                2 => H::hash_elements(
                    &coords.iter().map(|c| QuadExtension::<B>::new(c[0], c[1])).collect::<Vec<_>>(),
                ),
                3 if B::MAX_DEG >= 3 => H::hash_elements(
                    &coords.iter().map(|c| CubeExtension::<B>::new(c[0], c[1], c[2])).collect::<Vec<_>>(),
                ),
                _ => return Err(format!("unsupported extension degree {deg}")),
            }
        },
        _ => return Err(format!("unknown operation {op}")),
    };
    Ok(Obs { to_bytes: d.to_bytes(), as_bytes: d.as_bytes(), classes })
}

/// SENSITIVITY MUTANT (never part of a verdict): a hasher whose hash_elements hashes the elements'
/// raw memory whatever the representation, i.e. the IS_CANONICAL shortcut taken unconditionally.
/// The check runs it to show that the generated cases do tell representations apart.
struct RawMem<H>(core::marker::PhantomData<H>);
impl<H: Hasher> Hasher for RawMem<H> {
    type Digest = H::Digest;
    const COLLISION_RESISTANCE: u32 = H::COLLISION_RESISTANCE;
    fn hash(bytes: &[u8]) -> Self::Digest {
        H::hash(bytes)
    }
    fn merge(values: &[Self::Digest; 2]) -> Self::Digest {
        H::merge(values)
    }
    fn merge_many(values: &[Self::Digest]) -> Self::Digest {
        H::merge_many(values)
    }
    fn merge_with_int(seed: Self::Digest, value: u64) -> Self::Digest {
        H::merge_with_int(seed, value)
    }
}
impl<H: ElementHasher> ElementHasher for RawMem<H> {
    type BaseField = H::BaseField;
    fn hash_elements<E: winter_math::FieldElement<BaseField = Self::BaseField>>(elements: &[E]) -> Self::Digest {
        H::hash(E::elements_as_bytes(elements))
    }
}

fn apply_h<B: TField>(h: &str, sc: &Value) -> Result<(String, Obs), String> {
    match h {
        "b256!rawmem" => apply::<B, RawMem<Blake3_256<B>>>(sc).map(|o| (format!("RawMem<Blake3_256<{}>>", B::NAME), o)),
        "b256" => apply::<B, Blake3_256<B>>(sc).map(|o| (format!("Blake3_256<{}>", B::NAME), o)),
        "b192" => apply::<B, Blake3_192<B>>(sc).map(|o| (format!("Blake3_192<{}>", B::NAME), o)),
        "sha3" => apply::<B, Sha3_256<B>>(sc).map(|o| (format!("Sha3_256<{}>", B::NAME), o)),
        _ => Err(format!("unknown hasher {h}")),
    }
}

type Runner = fn(&str, &Value) -> Result<(String, Obs), String>;

fn runners(f: &str) -> Vec<Runner> {
    match f {
        "f64" => vec![apply_h::<f64::BaseElement>],
        "f62" => vec![apply_h::<f62::BaseElement>],
        "f128" => vec![apply_h::<f128::BaseElement>],
        "t257" => vec![apply_h::<F257>],
        "t257r" => vec![apply_h::<F257R>],
        "t40961r" => vec![apply_h::<F40961R>],
        // operations that do not involve elements: every base-field instantiation of the hasher
        "-" => vec![
            apply_h::<f64::BaseElement>,
            apply_h::<f62::BaseElement>,
            apply_h::<f128::BaseElement>,
            apply_h::<F257R>,
        ],
        _ => vec![],
    }
}

pub fn main(args: &[String]) -> i32 {
    let scenarios = read_ndjson(&args[0]);
    let mut out = Out::new();
    let (mut bad, mut evals) = (0usize, 0usize);
    let mut class_counts: BTreeMap<String, usize> = BTreeMap::new();
    let mut op_counts: BTreeMap<String, usize> = BTreeMap::new();
    for (i, sc) in scenarios.iter().enumerate() {
        let h = sc["h"].as_str().unwrap_or("");
        let f = sc["f"].as_str().unwrap_or("");
        let op = sc["op"].as_str().unwrap_or("");
        let expected = match eval_term(&sc["exp"]) {
            Ok(e) => e,
            Err(e) => {
                eprintln!("scenario {i}: {e}");
                return 2;
            },
        };
        let rs = runners(f);
        if rs.is_empty() {
            eprintln!("scenario {i}: unknown field {f}");
            return 2;
        }
        for run in rs {
            evals += 1;
            *op_counts.entry(op.to_string()).or_default() += 1;
            let detail = match catch(|| run(h, sc)) {
                Err(p) => Some(json!({"hasher": h, "field": f, "op": op, "outcome": "panic", "panic": p, "classes": []})),
                Ok(Err(e)) => {
                    // the scenario itself is malformed: a tool error, not a verdict
                    eprintln!("scenario {i}: {e}");
                    return 2;
                },
                Ok(Ok((name, o))) => {
                    for c in &o.classes {
                        *class_counts.entry(format!("{f}:{c}")).or_default() += 1;
                    }
                    let n = expected.len();
                    let same = o.to_bytes == expected && o.as_bytes[..n] == expected[..] && o.as_bytes[n..].iter().all(|b| *b == 0);
                    if same {
                        None
                    } else {
                        let mut cl: Vec<&str> = o.classes.clone();
                        cl.sort();
                        cl.dedup();
                        Some(json!({"hasher": name, "field": f, "op": op, "outcome": "mismatch", "classes": cl,
                            "expected": json_bytes(&expected), "got": json_bytes(&o.to_bytes),
                            "got_as_bytes": json_bytes(&o.as_bytes)}))
                    }
                },
            };
            if let Some(d) = detail {
                bad += 1;
                out.emit(&json!({"i": i, "ok": false, "detail": d}));
            }
        }
    }
    out.emit(&json!({"summary": true, "scenarios": scenarios.len(), "evaluations": evals, "mismatches": bad,
        "classes": class_counts, "ops": op_counts}));
    out.flush();
    0
}
