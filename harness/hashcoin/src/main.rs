//! wf-hashcoin — engines for the byte-oriented hashers (C15) and the public coin (C20).
#![allow(clippy::all)]
mod bytelayout;
mod coin;
mod fields;

fn main() {
    let args: Vec<String> = std::env::args().collect();
    wfcommon::util::install_quiet_panic_hook();
    let code = match args.get(1).map(|s| s.as_str()) {
        Some("bytelayout") => bytelayout::main(&args[2..]),
        Some("coin") => coin::main(&args[2..]),
        _ => {
            eprintln!("usage: wf-hashcoin <bytelayout scenarios.ndjson | coin histories.ndjson out.ndjson>");
            2
        },
    };
    std::process::exit(code);
}
