//! The base fields the hashcoin engines run over, behind one small trait: construction from
//! canonical little-endian bytes, the field-specific operations the C15 recipes use, and the
//! classification of the INTERNAL representation of an element (coverage bookkeeping only — the
//! class never takes part in a verdict).
use serde_json::Value;
use wfcommon::toy::{Toy, F257, F257R, F40961, F40961R, F97};
use wfcommon::util::bytes_of;
use winter_math::{
    fields::{f128, f62, f64},
    ExtensibleField, StarkField,
};
use winter_utils::AsBytes;

pub trait TField: StarkField + ExtensibleField<2> + ExtensibleField<3> {
    const NAME: &'static str;
    /// largest supported extension degree
    const MAX_DEG: usize;
    /// `Self::new(v)` for the value encoded by `bytes` (little-endian, any length up to the width)
    fn from_le(bytes: &[u8]) -> Self;
    /// 64-bit field only
    fn mul_small_(self, _c: u32) -> Option<Self> {
        None
    }
    /// redundant toy fields only: value v stored as v (hi = false) or v + P (hi = true)
    fn from_raw_(_v: u32, _hi: bool) -> Option<Self> {
        None
    }
    /// class of the stored word: "canon" (the canonical word of the value) or a field-specific name
    /// of a redundant form
    fn class(&self) -> &'static str;
}

fn le_u64(b: &[u8]) -> u64 {
    let mut a = [0u8; 8];
    assert!(b.len() <= 8 || b[8..].iter().all(|x| *x == 0), "operand too wide");
    let n = b.len().min(8);
    a[..n].copy_from_slice(&b[..n]);
    u64::from_le_bytes(a)
}
fn le_u128(b: &[u8]) -> u128 {
    let mut a = [0u8; 16];
    assert!(b.len() <= 16, "operand too wide");
    a[..b.len()].copy_from_slice(b);
    u128::from_le_bytes(a)
}

const M62: u64 = 4611624995532046337;
const M64: u64 = 0xFFFF_FFFF_0000_0001;

impl TField for f62::BaseElement {
    const NAME: &'static str = "f62";
    const MAX_DEG: usize = 3;
    fn from_le(b: &[u8]) -> Self {
        Self::new(le_u64(b))
    }
    fn class(&self) -> &'static str {
        // the stored Montgomery word lives in [0, 2M); AsBytes exposes it
        let w = u64::from_le_bytes(self.as_bytes().try_into().unwrap());
        if w >= M62 {
            "upper"
        } else {
            "canon"
        }
    }
}

impl TField for f64::BaseElement {
    const NAME: &'static str = "f64";
    const MAX_DEG: usize = 3;
    fn from_le(b: &[u8]) -> Self {
        Self::new(le_u64(b))
    }
    fn mul_small_(self, c: u32) -> Option<Self> {
        Some(self.mul_small(c))
    }
    fn class(&self) -> &'static str {
        if self.inner() >= M64 {
            "noncanon"
        } else {
            "canon"
        }
    }
}

impl TField for f128::BaseElement {
    const NAME: &'static str = "f128";
    const MAX_DEG: usize = 2;
    fn from_le(b: &[u8]) -> Self {
        Self::new(le_u128(b))
    }
    fn class(&self) -> &'static str {
        "canon"
    }
}

macro_rules! toy_impl {
    ($t:ty, $name:literal, $p:literal, $red:literal) => {
        impl TField for $t {
            const NAME: &'static str = $name;
            const MAX_DEG: usize = 3;
            fn from_le(b: &[u8]) -> Self {
                Self::new(le_u64(b) as u32)
            }
            fn from_raw_(v: u32, hi: bool) -> Option<Self> {
                if $red {
                    Some(Toy::<$p, $red>::from_raw(v + if hi { $p } else { 0 }))
                } else {
                    None
                }
            }
            fn class(&self) -> &'static str {
                if self.raw() >= $p {
                    "upper"
                } else {
                    "canon"
                }
            }
        }
    };
}
toy_impl!(F97, "t97", 97, false);
toy_impl!(F257, "t257", 257, false);
toy_impl!(F257R, "t257r", 257, true);
toy_impl!(F40961, "t40961", 40961, false);
toy_impl!(F40961R, "t40961r", 40961, true);

/// Evaluates a C15 recipe (`["sub", a, b]`, ...) with the real field operations.
pub fn build<B: TField>(r: &Value) -> Result<B, String> {
    let op = r[0].as_str().ok_or("recipe without operator")?;
    let a = bytes_of(&r[1]);
    let x = || B::from_le(&a);
    let y = || B::from_le(&bytes_of(&r[2]));
    let k = || r[2].as_u64().unwrap_or(0);
    Ok(match op {
        "new" => x(),
        "neg" => -x(),
        "sub" => x() - y(),
        "add" => x() + y(),
        "addneg" => x() + (-x()),
        "mul" => x() * y(),
        "dbl" => {
            let mut e = x();
            for _ in 0..k() {
                e = e.double();
            }
            e
        },
        "muls" => x().mul_small_(k() as u32).ok_or("mul_small is not available for this field")?,
        "raw" => B::from_raw_(le_u64(&a) as u32, k() == 1).ok_or("raw form is not available for this field")?,
        _ => return Err(format!("unknown recipe operator {op}")),
    })
}
