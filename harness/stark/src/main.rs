//! wf-stark — engines for the end-to-end STARK properties (C01, C02, C03, C06, C28, C29).
#![allow(clippy::all)]
mod genair;
mod run;

use serde_json::json;
use wfcommon::util::{read_ndjson, Out};

fn pipeline(args: &[String]) -> i32 {
    let cases = read_ndjson(&args[0]);
    let mut out = Out::new();
    for (i, c) in cases.iter().enumerate() {
        let case: run::Case = match serde_json::from_value(c.clone()) {
            Ok(c) => c,
            Err(e) => {
                eprintln!("bad case {i}: {e}");
                return 2;
            },
        };
        // anything that panics outside the pipeline's own guarded calls (building the options,
        // the AIR or the trace) is reported as data too
        let mut r = match wfcommon::util::catch(|| run::dispatch(&case)) {
            Ok(v) => v,
            Err(p) => json!({"verdict": "setup_panic", "detail": p}),
        };
        r["i"] = json!(i);
        out.emit(&r);
        out.flush();
    }
    0
}

fn main() {
    let args: Vec<String> = std::env::args().collect();
    wfcommon::util::install_quiet_panic_hook();
    let code = match args.get(1).map(|s| s.as_str()) {
        Some("pipeline") => pipeline(&args[2..]),
        _ => {
            eprintln!("usage: wf-stark <pipeline> ...");
            2
        },
    };
    std::process::exit(code);
}
