//! wf-stark — engines for the end-to-end STARK properties (C01, C02, C03, C06, C28, C29).
#![allow(clippy::all)]
mod attack;
mod coeffs;
#[cfg(feature = "examples")]
mod examples;
mod genair;
mod run;
mod validate;

use serde_json::json;
use wfcommon::util::{read_ndjson, Out};

fn pipeline(args: &[String]) -> i32 {
    let cases = read_ndjson(&args[0]);
    let mut out = Out::new();
    for (i, c) in cases.iter().enumerate() {
        let case: run::Case = match serde_json::from_value(c.clone()) {
            Ok(c) => c,
            Err(e) => {
                eprintln!("bad case {i}: {e}");
                return 2;
            },
        };
        // anything that panics outside the pipeline's own guarded calls (building the options,
        // the AIR or the trace) is reported as data too
        let mut r = match wfcommon::util::catch(|| run::dispatch(&case)) {
            Ok(v) => v,
            Err(p) => json!({"verdict": "setup_panic", "detail": p}),
        };
        r["i"] = json!(i);
        out.emit(&r);
        out.flush();
    }
    0
}

fn digests_engine(args: &[String]) -> i32 {
    let cases = read_ndjson(&args[0]);
    let threads: usize = std::env::var("WF_THREADS").ok().and_then(|s| s.parse().ok()).unwrap_or(1);
    let pool = rayon::ThreadPoolBuilder::new().num_threads(threads).build().unwrap();
    let mut out = Out::new();
    for (i, c) in cases.iter().enumerate() {
        let case: run::Case = match serde_json::from_value(c.clone()) {
            Ok(c) => c,
            Err(e) => {
                eprintln!("bad case {i}: {e}");
                return 2;
            },
        };
        let mut r = pool.install(|| match wfcommon::util::catch(|| run::dispatch_digests(&case)) {
            Ok(v) => v,
            Err(p) => json!({"verdict": "setup_panic", "detail": p}),
        });
        r["i"] = json!(i);
        out.emit(&r);
        out.flush();
    }
    0
}

fn attack_engine(args: &[String]) -> i32 {
    use winterfell::{
        crypto::hashers::{Blake3_256, Rp64_256},
        math::fields::{f128, f64, CubeExtension, QuadExtension},
    };
    let cases = read_ndjson(&args[0]);
    let mut out = Out::new();
    for (i, c) in cases.iter().enumerate() {
        let kind = c["kind"].as_str().unwrap_or("honest").to_string();
        let variant = c["variant"].as_u64().unwrap_or(0) as usize;
        let case: run::Case = match serde_json::from_value(c.clone()) {
            Ok(c) => c,
            Err(e) => {
                eprintln!("bad case {i}: {e}");
                return 2;
            },
        };
        type B64 = f64::BaseElement;
        type B128 = f128::BaseElement;
        let r = wfcommon::util::catch(|| match (case.field.as_str(), case.hash.as_str(), case.opts.ext) {
            ("f64", "blake3_256", 1) => attack::attack::<B64, Blake3_256<B64>, B64>(&case, &kind, variant),
            ("f64", "blake3_256", 2) => attack::attack::<B64, Blake3_256<B64>, QuadExtension<B64>>(&case, &kind, variant),
            ("f64", "blake3_256", 3) => attack::attack::<B64, Blake3_256<B64>, CubeExtension<B64>>(&case, &kind, variant),
            ("f64", "rp64_256", 1) => attack::attack::<B64, Rp64_256, B64>(&case, &kind, variant),
            ("f64", "rp64_256", 2) => attack::attack::<B64, Rp64_256, QuadExtension<B64>>(&case, &kind, variant),
            ("f128", "blake3_256", 1) => attack::attack::<B128, Blake3_256<B128>, B128>(&case, &kind, variant),
            ("f128", "blake3_256", 2) => attack::attack::<B128, Blake3_256<B128>, QuadExtension<B128>>(&case, &kind, variant),
            _ => json!({"honest": "unsupported_combo"}),
        });
        let mut r = match r {
            Ok(v) => v,
            Err(p) => json!({"honest": "setup_panic", "detail": p}),
        };
        if kind == "transcript" {
            r = wfcommon::util::catch(|| match (case.field.as_str(), case.hash.as_str()) {
                ("f64", "blake3_256") => attack::transcript::<B64, Blake3_256<B64>, B64>(&case),
                ("f64", "rp64_256") => attack::transcript::<B64, Rp64_256, B64>(&case),
                ("f128", "blake3_256") => attack::transcript::<B128, Blake3_256<B128>, B128>(&case),
                _ => json!({"verdict": "unsupported_combo"}),
            })
            .unwrap_or_else(|p| json!({"verdict": "setup_panic", "detail": p}));
        }
        r["i"] = json!(i);
        r["kind"] = json!(kind);
        out.emit(&r);
        out.flush();
    }
    0
}

#[cfg(feature = "examples")]
fn examples_engine(args: &[String]) -> i32 {
    let cases = read_ndjson(&args[0]);
    let mut out = Out::new();
    for (i, c) in cases.iter().enumerate() {
        let mut r = wfcommon::util::catch(|| examples::run(c)).unwrap_or_else(|p| json!({"verdict": "setup_panic", "detail": p}));
        r["i"] = json!(i);
        out.emit(&r);
        out.flush();
    }
    0
}
#[cfg(not(feature = "examples"))]
fn examples_engine(_args: &[String]) -> i32 {
    eprintln!("built without the examples crate");
    2
}

fn coeffs_engine(args: &[String]) -> i32 {
    let cases = read_ndjson(&args[0]);
    let mut out = Out::new();
    for (i, c) in cases.iter().enumerate() {
        let cc: coeffs::CCase = match serde_json::from_value(c.clone()) {
            Ok(c) => c,
            Err(e) => {
                eprintln!("bad case {i}: {e}");
                return 2;
            },
        };
        let mut r = wfcommon::util::catch(|| coeffs::run(&cc)).unwrap_or_else(|p| json!({"error": "panic", "detail": p}));
        r["i"] = json!(i);
        out.emit(&r);
        out.flush();
    }
    0
}

fn validate_engine(args: &[String]) -> i32 {
    let cases = read_ndjson(&args[0]);
    let mut out = Out::new();
    let mut bad = 0;
    for (i, c) in cases.iter().enumerate() {
        let vc: validate::VCase = match serde_json::from_value(c.clone()) {
            Ok(c) => c,
            Err(e) => {
                eprintln!("bad case {i}: {e}");
                return 2;
            },
        };
        let r = validate::validate(&vc);
        if r["valid"] != json!(vc.expect_valid) {
            bad += 1;
            out.emit(&json!({"i": i, "ok": false, "got": r, "expected_valid": vc.expect_valid}));
        }
    }
    out.emit(&json!({"summary": true, "cases": cases.len(), "mismatches": bad}));
    out.flush();
    0
}

fn tables_engine(args: &[String]) -> i32 {
    use winterfell::math::fields::{f128, f64};
    let cases = read_ndjson(&args[0]);
    let threads: usize = std::env::var("WF_THREADS").ok().and_then(|s| s.parse().ok()).unwrap_or(1);
    let pool = rayon::ThreadPoolBuilder::new().num_threads(threads).build().unwrap();
    let mut out = Out::new();
    for (i, c) in cases.iter().enumerate() {
        let w = c["width"].as_u64().unwrap() as usize;
        let l = c["log_len"].as_u64().unwrap() as u32;
        let seed = c["seed"].as_u64().unwrap_or(1);
        let mut r = pool.install(|| match c["field"].as_str().unwrap_or("f64") {
            "f128" => validate::tables::<f128::BaseElement>(w, l, seed),
            "t40961" => validate::tables::<wfcommon::toy::F40961>(w, l, seed),
            _ => validate::tables::<f64::BaseElement>(w, l, seed),
        });
        r["i"] = json!(i);
        out.emit(&r);
    }
    out.flush();
    0
}

fn main() {
    let args: Vec<String> = std::env::args().collect();
    wfcommon::util::install_quiet_panic_hook();
    let code = match args.get(1).map(|s| s.as_str()) {
        Some("pipeline") => pipeline(&args[2..]),
        Some("validate") => validate_engine(&args[2..]),
        Some("coeffs") => coeffs_engine(&args[2..]),
        Some("digests") => digests_engine(&args[2..]),
        Some("attack") => attack_engine(&args[2..]),
        Some("examples") => examples_engine(&args[2..]),
        Some("tables") => tables_engine(&args[2..]),
        _ => {
            eprintln!("usage: wf-stark <pipeline> ...");
            2
        },
    };
    std::process::exit(code);
}
