//! Random-linear-combination coefficients (spec/stark/Coeffs.tla): the real
//! `Air::get_constraint_composition_coefficients` / `get_deep_composition_coefficients` are run on an
//! AIR description over the toy field F_40961 (and its extensions) with a coin whose draws are
//! scripted by the specification; the coefficient vectors and the number of draws consumed are
//! reported for comparison with the vectors TLC computed.
use std::{marker::PhantomData, sync::Arc};

use serde::Deserialize;
use serde_json::{json, Value};
use winterfell::{
    crypto::{hashers::Blake3_256, ElementHasher, RandomCoin, RandomCoinError},
    math::{
        fields::{CubeExtension, QuadExtension},
        FieldElement, StarkField,
    },
    Air, BatchingMethod, FieldExtension, ProofOptions,
};
use wfcommon::toy::F40961;

use crate::genair::{AirDesc, GenAir, GenPub};

#[derive(Deserialize, Debug, Clone)]
pub struct CCase {
    pub desc: AirDesc,
    pub field: u32,
    pub ext: usize,
    pub cbatch: usize,
    pub dbatch: usize,
    pub blowup: usize,
    pub cc_draws: Vec<Vec<u32>>,
    pub deep_draws: Vec<Vec<u32>>,
    #[serde(default)]
    pub aux_draws: Vec<Vec<u32>>,
}

/// A coin that hands out the scripted elements in order; running out of script is an error.
pub struct ScriptCoin<B, H> {
    script: Vec<Vec<u32>>,
    next: usize,
    _p: PhantomData<fn() -> (B, H)>,
}

impl<B: StarkField, H: ElementHasher<BaseField = B>> ScriptCoin<B, H> {
    fn with(script: Vec<Vec<u32>>) -> Self {
        ScriptCoin { script, next: 0, _p: PhantomData }
    }
}

impl<B: StarkField, H: ElementHasher<BaseField = B>> RandomCoin for ScriptCoin<B, H> {
    type BaseField = B;
    type Hasher = H;

    fn new(_seed: &[B]) -> Self {
        ScriptCoin::with(vec![])
    }
    fn reseed(&mut self, _data: H::Digest) {}
    fn check_leading_zeros(&self, _value: u64) -> u32 {
        0
    }
    fn draw<E: FieldElement<BaseField = B>>(&mut self) -> Result<E, RandomCoinError> {
        // a draw beyond the script is still counted (so the consumer's draw count is observable) and
        // answered with a fixed element
        let coords = self.script.get(self.next).cloned().unwrap_or_else(|| vec![5; E::EXTENSION_DEGREE]);
        self.next += 1;
        if coords.len() != E::EXTENSION_DEGREE {
            return Err(RandomCoinError::FailedToDrawFieldElement(0));
        }
        let base: Vec<B> = coords.iter().map(|&c| B::from(c)).collect();
        Ok(E::slice_from_base_elements(&base)[0])
    }
    fn draw_integers(&mut self, _n: usize, _d: usize, _nonce: u64) -> Result<Vec<usize>, RandomCoinError> {
        Ok(vec![])
    }
}

fn batching(k: usize) -> BatchingMethod {
    match k {
        0 => BatchingMethod::Linear,
        1 => BatchingMethod::Algebraic,
        _ => BatchingMethod::Horner,
    }
}

fn coords<E: FieldElement<BaseField = F40961>>(v: &[E]) -> Vec<Vec<u64>> {
    v.iter()
        .map(|e| {
            E::slice_as_base_elements(core::slice::from_ref(e))
                .iter()
                .map(|b| b.as_int() as u64)
                .collect()
        })
        .collect()
}

fn one<E: FieldElement<BaseField = F40961>>(c: &CCase) -> Value {
    type B = F40961;
    let desc = Arc::new(c.desc.clone());
    let ext = match c.ext {
        1 => FieldExtension::None,
        2 => FieldExtension::Quadratic,
        _ => FieldExtension::Cubic,
    };
    let options = ProofOptions::new(1, c.blowup, 0, ext, 2, 0, batching(c.cbatch), batching(c.dbatch));
    let main = desc.build_main::<B>();
    let values = desc.assertion_values::<B>(&main);
    let air = GenAir::<B>::new(desc.trace_info(), GenPub { desc: desc.clone(), values }, options);
    let mut coin = ScriptCoin::<B, Blake3_256<B>>::with(c.cc_draws.clone());
    let cc = match air.get_constraint_composition_coefficients::<E, _>(&mut coin) {
        Ok(v) => v,
        Err(e) => return json!({"error": format!("cc: {e}")}),
    };
    let cc_used = coin.next;
    let mut coin = ScriptCoin::<B, Blake3_256<B>>::with(c.deep_draws.clone());
    let deep = match air.get_deep_composition_coefficients::<E, _>(&mut coin) {
        Ok(v) => v,
        Err(e) => return json!({"error": format!("deep: {e}")}),
    };
    let deep_used = coin.next;
    // auxiliary random elements (multi-segment AIRs)
    let (aux_rands, aux_used) = if desc.aux.is_empty() {
        (vec![], 0)
    } else {
        let mut coin = ScriptCoin::<B, Blake3_256<B>>::with(c.aux_draws.clone());
        match air.get_aux_rand_elements::<E, _>(&mut coin) {
            Ok(r) => (coords(r.rand_elements()), coin.next),
            Err(e) => return json!({"error": format!("aux: {e}")}),
        }
    };
    json!({
        "aux_rands": aux_rands, "aux_used": aux_used,
        "transition": coords(&cc.transition), "boundary": coords(&cc.boundary), "cc_used": cc_used,
        "trace": coords(&deep.trace), "constraints": coords(&deep.constraints), "deep_used": deep_used,
    })
}

pub fn run(c: &CCase) -> Value {
    if c.field != 40961 {
        return json!({"error": "unsupported field"});
    }
    match c.ext {
        1 => one::<F40961>(c),
        2 => one::<QuadExtension<F40961>>(c),
        3 => one::<CubeExtension<F40961>>(c),
        _ => json!({"error": "unsupported extension"}),
    }
}
