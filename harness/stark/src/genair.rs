//! GenAir / GenProver: an `Air` + `Prover` interpreted from a JSON description produced by the TLA+
//! specification (spec/air/AirFamily.tla).  The specification owns the MEANING of a description
//! (constraint values on rows, which traces satisfy it); this interpreter is user code handed to the
//! system under test, exactly as an example AIR is.
//!
//! Description (all numbers small non-negative integers, reduced into the field):
//!   width      number of main columns
//!   log_len    log2 of the trace length
//!   cols[j]    next-state function of main column j: next[j] = sum_m k_m * prod(vars of m)
//!              var = ["c", i] (current row, column i) | ["p", i] (periodic column i at this step)
//!   periodic   list of periodic columns (power-of-two cycles of values)
//!   init       first row
//!   exemptions number of transition exemptions (>= 1)
//!   asserts    [{t:"single",col,step} | {t:"periodic",col,first,stride} | {t:"seq",col,first,stride,n}]
//!              (values are read from the trace, so every assertion holds for the honest trace;
//!               periodic assertions are only generated for columns that are periodic by construction)
//!   aux        [] | [{width, rands, src:[main column per aux column]}]: running products
//!              aux_next[m] = aux[m] * (main[src[m]] + r[m % rands]), aux[m][0] = 1
//!   meta       trace metadata bytes
//!   extra      [column indexes]: the constraint of each listed column is duplicated ahead of the
//!              per-column constraints (constraint list = extras, then one per column)
//! The auxiliary factor also adds the first periodic column's value when the AIR has periodic columns.
use std::{marker::PhantomData, sync::Arc};

use serde::Deserialize;
use winter_maybe_async::maybe_async;
use winterfell::{
    crypto::{DefaultRandomCoin, ElementHasher, MerkleTree},
    math::{ExtensibleField, ExtensionOf, FieldElement, StarkField, ToElements},
    matrix::ColMatrix,
    Air, AirContext, Assertion, AuxRandElements, CompositionPoly, CompositionPolyTrace,
    ConstraintCompositionCoefficients, DefaultConstraintCommitment, DefaultConstraintEvaluator,
    DefaultTraceLde, EvaluationFrame, PartitionOptions, ProofOptions, Prover, StarkDomain, Trace,
    TraceInfo, TracePolyTable, TransitionConstraintDegree,
};

#[derive(Deserialize, Debug, Clone)]
pub struct Term {
    pub k: u32,
    /// variables: ("c"|"p", index)
    pub v: Vec<(String, usize)>,
}

#[derive(Deserialize, Debug, Clone)]
pub struct AssertDesc {
    pub t: String,
    pub col: usize,
    #[serde(default)]
    pub step: usize,
    #[serde(default)]
    pub first: usize,
    #[serde(default)]
    pub stride: usize,
    #[serde(default)]
    pub n: usize,
}

#[derive(Deserialize, Debug, Clone)]
pub struct AuxDesc {
    pub width: usize,
    pub rands: usize,
    pub src: Vec<usize>,
    /// geometric auxiliary columns aux[m][i] = (m + 2)^i (transition next = (m + 2) * current) instead of
    /// running products: their value at every step is public, so they can be asserted at any step
    #[serde(default)]
    pub geo: bool,
    /// the step at which every auxiliary column is asserted (0: aux[m][0] = 1)
    #[serde(default)]
    pub astep: usize,
}

#[derive(Deserialize, Debug, Clone)]
pub struct AirDesc {
    pub width: usize,
    pub log_len: u32,
    pub cols: Vec<Vec<Term>>,
    #[serde(default)]
    pub periodic: Vec<Vec<u32>>,
    pub init: Vec<u32>,
    pub exemptions: usize,
    pub asserts: Vec<AssertDesc>,
    /// empty or a single element (the specification writes a TLA+ sequence)
    #[serde(default)]
    pub aux: Vec<AuxDesc>,
    #[serde(default)]
    pub meta: Vec<u8>,
    /// columns whose transition constraint is stated once more AHEAD of the per-column constraints
    #[serde(default)]
    pub extra: Vec<usize>,
}

impl AirDesc {
    pub fn len(&self) -> usize {
        1usize << self.log_len
    }

    /// Declared degree of the constraint of column j: that of its dominant term — the term with the
    /// largest evaluation degree, counting each trace variable as degree L-1 and each periodic
    /// variable with cycle c as degree (L/c)(c-1); next[j] itself counts as one trace variable.
    fn degree(&self, j: usize) -> TransitionConstraintDegree {
        let n = self.len();
        let mut best: (usize, usize, Vec<usize>) = (n - 1, 1, vec![]);
        for t in &self.cols[j] {
            let d = t.v.iter().filter(|(k, _)| k == "c").count().max(1);
            let cycles: Vec<usize> =
                t.v.iter().filter(|(k, _)| k == "p").map(|(_, i)| self.periodic[*i].len()).collect();
            let eval = d * (n - 1) + cycles.iter().map(|c| (n / c) * (c - 1)).sum::<usize>();
            if eval > best.0 {
                best = (eval, d, cycles);
            }
        }
        if best.2.is_empty() {
            TransitionConstraintDegree::new(best.1)
        } else {
            TransitionConstraintDegree::with_cycles(best.1, best.2)
        }
    }

    pub fn next_value<E: FieldElement>(&self, j: usize, cur: &[E], per: &[E]) -> E {
        let mut acc = E::ZERO;
        for t in &self.cols[j] {
            let mut m = E::from(t.k);
            for (k, i) in &t.v {
                m *= if k == "c" { cur[*i] } else { per[*i] };
            }
            acc += m;
        }
        acc
    }

    pub fn trace_info(&self) -> TraceInfo {
        match self.aux.first() {
            None => TraceInfo::with_meta(self.width, self.len(), self.meta.clone()),
            Some(a) => TraceInfo::new_multi_segment(self.width, a.width, a.rands, self.len(), self.meta.clone()),
        }
    }

    /// The honest main trace: iterate the next-state functions from `init` over all rows.
    pub fn build_main<B: StarkField>(&self) -> Vec<Vec<B>> {
        let n = self.len();
        let mut cols: Vec<Vec<B>> = (0..self.width).map(|_| vec![B::ZERO; n]).collect();
        let mut cur: Vec<B> = self.init.iter().map(|v| B::from(*v)).collect();
        for i in 0..n {
            for j in 0..self.width {
                cols[j][i] = cur[j];
            }
            let per: Vec<B> = self.periodic.iter().map(|p| B::from(p[i % p.len()])).collect();
            let nxt: Vec<B> = (0..self.width).map(|j| self.next_value(j, &cur, &per)).collect();
            cur = nxt;
        }
        cols
    }

    /// (column, step) pairs covered by assertions (used to keep garbage out of asserted cells).
    pub fn asserted_cells(&self) -> Vec<(usize, usize)> {
        let n = self.len();
        let mut out = vec![];
        for a in &self.asserts {
            match a.t.as_str() {
                "single" => out.push((a.col, a.step)),
                "periodic" => {
                    let mut s = a.first;
                    while s < n {
                        out.push((a.col, s));
                        s += a.stride;
                    }
                },
                _ => {
                    for k in 0..a.n {
                        out.push((a.col, a.first + k * a.stride));
                    }
                },
            }
        }
        out
    }

    /// Assertion values read from a main trace, flattened in description order.
    pub fn assertion_values<B: StarkField>(&self, main: &[Vec<B>]) -> Vec<B> {
        let mut out = vec![];
        for a in &self.asserts {
            match a.t.as_str() {
                "single" => out.push(main[a.col][a.step]),
                "periodic" => out.push(main[a.col][a.first]),
                _ => {
                    for k in 0..a.n {
                        out.push(main[a.col][a.first + k * a.stride]);
                    }
                },
            }
        }
        out
    }
}

// PUBLIC INPUTS
// ------------------------------------------------------------------------------------------------

#[derive(Clone)]
pub struct GenPub<B: StarkField> {
    pub desc: Arc<AirDesc>,
    /// assertion values, flattened in description order
    pub values: Vec<B>,
}

impl<B: StarkField> ToElements<B> for GenPub<B> {
    fn to_elements(&self) -> Vec<B> {
        let mut v = self.values.clone();
        v.push(B::from(self.desc.width as u32));
        v.push(B::from(self.desc.exemptions as u32));
        v
    }
}

// AIR
// ------------------------------------------------------------------------------------------------

pub struct GenAir<B: StarkField> {
    context: AirContext<B>,
    desc: Arc<AirDesc>,
    values: Vec<B>,
}

impl<B: StarkField + ExtensibleField<2> + ExtensibleField<3>> Air for GenAir<B> {
    type BaseField = B;
    type PublicInputs = GenPub<B>;

    fn new(trace_info: TraceInfo, pub_inputs: GenPub<B>, options: ProofOptions) -> Self {
        let desc = pub_inputs.desc.clone();
        let degrees: Vec<_> =
            desc.extra.iter().copied().chain(0..desc.width).map(|j| desc.degree(j)).collect();
        let num_assertions = desc.asserts.len();
        let context = match desc.aux.first() {
            None => AirContext::new(trace_info, degrees, num_assertions, options),
            Some(a) => {
                let aux_degrees = vec![TransitionConstraintDegree::new(if a.geo { 1 } else { 2 }); a.width];
                AirContext::new_multi_segment(trace_info, degrees, aux_degrees, num_assertions, a.width, options)
            },
        }
        .set_num_transition_exemptions(desc.exemptions);
        GenAir { context, desc, values: pub_inputs.values }
    }

    fn context(&self) -> &AirContext<B> {
        &self.context
    }

    fn evaluate_transition<E: FieldElement<BaseField = B>>(
        &self,
        frame: &EvaluationFrame<E>,
        periodic_values: &[E],
        result: &mut [E],
    ) {
        let cur = frame.current();
        let nxt = frame.next();
        for (k, j) in self.desc.extra.iter().copied().chain(0..self.desc.width).enumerate() {
            result[k] = nxt[j] - self.desc.next_value(j, cur, periodic_values);
        }
    }

    fn get_assertions(&self) -> Vec<Assertion<B>> {
        let mut out = vec![];
        let mut k = 0;
        for a in &self.desc.asserts {
            match a.t.as_str() {
                "single" => {
                    out.push(Assertion::single(a.col, a.step, self.values[k]));
                    k += 1;
                },
                "periodic" => {
                    out.push(Assertion::periodic(a.col, a.first, a.stride, self.values[k]));
                    k += 1;
                },
                _ => {
                    out.push(Assertion::sequence(a.col, a.first, a.stride, self.values[k..k + a.n].to_vec()));
                    k += a.n;
                },
            }
        }
        out
    }

    fn get_periodic_column_values(&self) -> Vec<Vec<B>> {
        self.desc.periodic.iter().map(|p| p.iter().map(|v| B::from(*v)).collect()).collect()
    }

    fn evaluate_aux_transition<F, E>(
        &self,
        main_frame: &EvaluationFrame<F>,
        aux_frame: &EvaluationFrame<E>,
        periodic_values: &[F],
        aux_rand_elements: &AuxRandElements<E>,
        result: &mut [E],
    ) where
        F: FieldElement<BaseField = B>,
        E: FieldElement<BaseField = B> + ExtensionOf<F>,
    {
        let a = self.desc.aux.first().expect("aux description");
        let r = aux_rand_elements.rand_elements();
        // the first periodic column (if any) enters the running-product factor
        let per: E = periodic_values.first().map(|p| (*p).into()).unwrap_or(E::ZERO);
        for m in 0..a.width {
            if a.geo {
                result[m] = aux_frame.next()[m] - aux_frame.current()[m] * E::from(B::from(m as u32 + 2));
                continue;
            }
            let f: E = main_frame.current()[a.src[m]].into();
            result[m] = aux_frame.next()[m] - aux_frame.current()[m] * (f + r[m % a.rands] + per);
        }
    }

    fn get_aux_assertions<E: FieldElement<BaseField = B>>(
        &self,
        _aux_rand_elements: &AuxRandElements<E>,
    ) -> Vec<Assertion<E>> {
        let a = self.desc.aux.first().expect("aux description");
        if a.geo {
            return (0..a.width)
                .map(|m| Assertion::single(m, a.astep, E::from(B::from(m as u32 + 2)).exp((a.astep as u32).into())))
                .collect();
        }
        (0..a.width).map(|m| Assertion::single(m, 0, E::ONE)).collect()
    }
}

// TRACE
// ------------------------------------------------------------------------------------------------

pub struct GenTrace<B: StarkField> {
    pub info: TraceInfo,
    pub main: ColMatrix<B>,
    pub desc: Arc<AirDesc>,
    /// values the prover claims as public inputs (normally read from the trace)
    pub values: Vec<B>,
}

impl<B: StarkField> GenTrace<B> {
    pub fn new(desc: Arc<AirDesc>, cols: Vec<Vec<B>>, values: Vec<B>) -> Self {
        GenTrace { info: desc.trace_info(), main: ColMatrix::new(cols), desc, values }
    }
}

impl<B: StarkField> Trace for GenTrace<B> {
    type BaseField = B;

    fn info(&self) -> &TraceInfo {
        &self.info
    }

    fn main_segment(&self) -> &ColMatrix<B> {
        &self.main
    }

    fn read_main_frame(&self, row_idx: usize, frame: &mut EvaluationFrame<B>) {
        let next = (row_idx + 1) % self.main.num_rows();
        self.main.read_row_into(row_idx, frame.current_mut());
        self.main.read_row_into(next, frame.next_mut());
    }
}

// PROVER
// ------------------------------------------------------------------------------------------------

pub struct GenProver<B: StarkField, H: ElementHasher, R = DefaultRandomCoin<H>> {
    pub options: ProofOptions,
    /// optional perturbation of the aux trace: (column, row) gets +1 (used by the corruption engines)
    pub aux_corrupt: Option<(usize, usize)>,
    /// optional scaling of a whole aux column by 2 (keeps every aux transition, breaks aux[col][0] = 1)
    pub aux_scale: Option<usize>,
    _p: PhantomData<(B, H, R)>,
}

impl<B: StarkField, H: ElementHasher, R> GenProver<B, H, R> {
    pub fn new(options: ProofOptions) -> Self {
        GenProver { options, aux_corrupt: None, aux_scale: None, _p: PhantomData }
    }
}

pub fn build_aux<B: StarkField, E: FieldElement<BaseField = B>>(
    desc: &AirDesc,
    main: &ColMatrix<B>,
    rands: &[E],
) -> Vec<Vec<E>> {
    let a = desc.aux.first().expect("aux description");
    let n = main.num_rows();
    let mut cols = vec![vec![E::ZERO; n]; a.width];
    for m in 0..a.width {
        cols[m][0] = E::ONE;
        for i in 1..n {
            if a.geo {
                cols[m][i] = cols[m][i - 1] * E::from(B::from(m as u32 + 2));
                continue;
            }
            let f: E = main.get(a.src[m], i - 1).into();
            let per: E = match desc.periodic.first() {
                Some(p) => E::from(B::from(p[(i - 1) % p.len()])),
                None => E::ZERO,
            };
            cols[m][i] = cols[m][i - 1] * (f + rands[m % a.rands] + per);
        }
    }
    cols
}

impl<B, H, R> Prover for GenProver<B, H, R>
where
    B: StarkField + ExtensibleField<2> + ExtensibleField<3> + 'static,
    H: ElementHasher<BaseField = B> + Sync,
    R: winterfell::crypto::RandomCoin<BaseField = B, Hasher = H>,
{
    type BaseField = B;
    type Air = GenAir<B>;
    type Trace = GenTrace<B>;
    type HashFn = H;
    type VC = MerkleTree<H>;
    type RandomCoin = R;
    type TraceLde<E: FieldElement<BaseField = B>> = DefaultTraceLde<E, H, MerkleTree<H>>;
    type ConstraintCommitment<E: FieldElement<BaseField = B>> = DefaultConstraintCommitment<E, H, MerkleTree<H>>;
    type ConstraintEvaluator<'a, E: FieldElement<BaseField = B>> = DefaultConstraintEvaluator<'a, GenAir<B>, E>;

    fn get_pub_inputs(&self, trace: &GenTrace<B>) -> GenPub<B> {
        GenPub { desc: trace.desc.clone(), values: trace.values.clone() }
    }

    fn options(&self) -> &ProofOptions {
        &self.options
    }

    #[maybe_async]
    fn new_trace_lde<E: FieldElement<BaseField = B>>(
        &self,
        trace_info: &TraceInfo,
        main_trace: &ColMatrix<B>,
        domain: &StarkDomain<B>,
        partition_option: PartitionOptions,
    ) -> (Self::TraceLde<E>, TracePolyTable<E>) {
        DefaultTraceLde::new(trace_info, main_trace, domain, partition_option)
    }

    #[maybe_async]
    fn new_evaluator<'a, E: FieldElement<BaseField = B>>(
        &self,
        air: &'a GenAir<B>,
        aux_rand_elements: Option<AuxRandElements<E>>,
        composition_coefficients: ConstraintCompositionCoefficients<E>,
    ) -> Self::ConstraintEvaluator<'a, E> {
        DefaultConstraintEvaluator::new(air, aux_rand_elements, composition_coefficients)
    }

    #[maybe_async]
    fn build_constraint_commitment<E: FieldElement<BaseField = B>>(
        &self,
        composition_poly_trace: CompositionPolyTrace<E>,
        num_constraint_composition_columns: usize,
        domain: &StarkDomain<B>,
        partition_options: PartitionOptions,
    ) -> (Self::ConstraintCommitment<E>, CompositionPoly<E>) {
        DefaultConstraintCommitment::new(
            composition_poly_trace,
            num_constraint_composition_columns,
            domain,
            partition_options,
        )
    }

    #[maybe_async]
    fn build_aux_trace<E: FieldElement<BaseField = B>>(
        &self,
        main_trace: &GenTrace<B>,
        aux_rand_elements: &AuxRandElements<E>,
    ) -> ColMatrix<E> {
        let mut cols = build_aux(&main_trace.desc, &main_trace.main, aux_rand_elements.rand_elements());
        if let Some((c, r)) = self.aux_corrupt {
            cols[c][r] += E::ONE;
        }
        if let Some(c) = self.aux_scale {
            for v in cols[c].iter_mut() {
                *v = v.double();
            }
        }
        ColMatrix::new(cols)
    }
}
