//! C01 (bundled examples): run each example of the `examples` crate with options chosen by the
//! specification: prove, round-trip the proof through bytes, verify; also verify with wrong inputs.
use serde_json::{json, Value};
use winterfell::{math::fields::f128, crypto::hashers::{Rp64_256, RpJive64_256}, Proof};
use winterfell_examples::{
    fibonacci::{fib2, fib8, fib_small, mulfib2, mulfib8},
    merkle, rescue, rescue_raps, vdf, Example,
};
use wfcommon::util::catch;

use crate::run::Opts;

type B3_256 = winterfell::crypto::hashers::Blake3_256<f128::BaseElement>;
type B3_192 = winterfell::crypto::hashers::Blake3_192<f128::BaseElement>;
type S3 = winterfell::crypto::hashers::Sha3_256<f128::BaseElement>;
type F64 = winterfell::math::fields::f64::BaseElement;

macro_rules! by_hash128 {
    ($hash:expr, $ty:ident, $mk:expr) => {{
        match $hash {
            "blake3_256" => {
                type $ty = B3_256;
                Some(Box::new($mk) as Box<dyn Example>)
            },
            "blake3_192" => {
                type $ty = B3_192;
                Some(Box::new($mk) as Box<dyn Example>)
            },
            "sha3_256" => {
                type $ty = S3;
                Some(Box::new($mk) as Box<dyn Example>)
            },
            _ => None,
        }
    }};
}

fn build(name: &str, hash: &str, param: usize, opts: &Opts) -> Option<Box<dyn Example>> {
    let o = opts.build();
    match name {
        "fib2" => by_hash128!(hash, H, fib2::FibExample::<H>::new(param, o.clone())),
        "fib8" => by_hash128!(hash, H, fib8::Fib8Example::<H>::new(param, o.clone())),
        "mulfib2" => by_hash128!(hash, H, mulfib2::MulFib2Example::<H>::new(param, o.clone())),
        "mulfib8" => by_hash128!(hash, H, mulfib8::MulFib8Example::<H>::new(param, o.clone())),
        "vdf" => by_hash128!(hash, H, vdf::regular::VdfExample::<H>::new(param, o.clone())),
        "vdf_exempt" => by_hash128!(hash, H, vdf::exempt::VdfExample::<H>::new(param, o.clone())),
        "rescue" => by_hash128!(hash, H, rescue::RescueExample::<H>::new(param, o.clone())),
        "rescue_raps" => by_hash128!(hash, H, rescue_raps::RescueRapsExample::<H>::new(param, o.clone())),
        "merkle" => by_hash128!(hash, H, merkle::MerkleExample::<H>::new(param, o.clone())),
        "fib_small" => match hash {
            "rp64_256" => Some(Box::new(fib_small::FibExample::<Rp64_256>::new(param, o)) as Box<dyn Example>),
            "rpjive64_256" => Some(Box::new(fib_small::FibExample::<RpJive64_256>::new(param, o)) as Box<dyn Example>),
            "blake3_256" => Some(Box::new(fib_small::FibExample::<winterfell::crypto::hashers::Blake3_256<F64>>::new(param, o)) as Box<dyn Example>),
            "sha3_256" => Some(Box::new(fib_small::FibExample::<winterfell::crypto::hashers::Sha3_256<F64>>::new(param, o)) as Box<dyn Example>),
            _ => None,
        },
        _ => None,
    }
}

pub fn run(case: &Value) -> Value {
    let name = case["example"].as_str().unwrap_or("");
    let hash = case["hash"].as_str().unwrap_or("");
    let param = case["param"].as_u64().unwrap_or(0) as usize;
    let opts: Opts = match serde_json::from_value(case["opts"].clone()) {
        Ok(o) => o,
        Err(e) => return json!({"verdict": "bad_case", "detail": e.to_string()}),
    };
    let ex = match catch(|| build(name, hash, param, &opts)) {
        Ok(Some(e)) => e,
        Ok(None) => return json!({"verdict": "unsupported_combo"}),
        Err(p) => return json!({"verdict": "setup_panic", "detail": p}),
    };
    let proof = match catch(|| ex.prove()) {
        Ok(p) => p,
        Err(p) => return json!({"verdict": "prover_panic", "detail": p}),
    };
    let bytes = proof.to_bytes();
    let parsed = match catch(|| Proof::from_bytes(&bytes)) {
        Ok(Ok(p)) => p,
        Ok(Err(e)) => return json!({"verdict": "deser_error", "detail": format!("{e:?}")}),
        Err(p) => return json!({"verdict": "deser_panic", "detail": p}),
    };
    let roundtrip_equal = parsed.to_bytes() == bytes;
    let fri_layers = parsed.fri_proof.num_layers();
    let lde_domain = parsed.lde_domain_size();
    let trace_len = parsed.trace_info().length();
    let uq = parsed.num_unique_queries as usize;
    let wrong = match catch(|| ex.verify_with_wrong_inputs(Proof::from_bytes(&bytes).unwrap())) {
        Ok(Ok(())) => "accept".to_string(),
        Ok(Err(e)) => format!("reject {e:?}"),
        Err(p) => format!("verifier_panic {p}"),
    };
    let mut v = match catch(|| ex.verify(parsed)) {
        Ok(Ok(())) => json!({"verdict": "accept"}),
        Ok(Err(e)) => json!({"verdict": "reject", "detail": format!("{e:?}")}),
        Err(p) => json!({"verdict": "verifier_panic", "detail": p}),
    };
    v["roundtrip_equal"] = json!(roundtrip_equal);
    v["fri_layers"] = json!(fri_layers);
    v["lde_domain"] = json!(lde_domain);
    v["trace_len"] = json!(trace_len);
    v["unique_queries"] = json!(uq);
    v["wrong_inputs"] = json!(wrong);
    v["proof_len"] = json!(bytes.len());
    v
}
