//! Pipeline runner: build the honest (or corrupted) trace of a GenAir instance, prove with the real
//! prover, serialise, deserialise, verify with the real verifier; report outcome classes.
use std::sync::Arc;

use serde::Deserialize;
use serde_json::{json, Value};
use winterfell::{
    crypto::{
        hashers::{Blake3_192, Blake3_256, Rp62_248, Rp64_256, RpJive64_256, Sha3_256},
        DefaultRandomCoin, ElementHasher, MerkleTree,
    },
    math::{
        fields::{f128, f62, f64, CubeExtension, QuadExtension},
        ExtensibleField, StarkField,
    },
    AcceptableOptions, BatchingMethod, FieldExtension, Proof, ProofOptions, Prover,
};
use wfcommon::{
    toy::{F257, F40961},
    util::catch,
};

use crate::genair::{AirDesc, GenAir, GenProver, GenPub, GenTrace};

#[derive(Deserialize, Debug, Clone)]
pub struct Opts {
    pub queries: usize,
    pub blowup: usize,
    pub grind: u32,
    pub ext: usize,
    pub fold: usize,
    pub rem: usize,
    #[serde(default)]
    pub cbatch: usize,
    #[serde(default)]
    pub dbatch: usize,
    #[serde(default = "one")]
    pub parts: usize,
    #[serde(default = "one")]
    pub hash_rate: usize,
}
fn one() -> usize {
    1
}

fn batching(k: usize) -> BatchingMethod {
    match k {
        0 => BatchingMethod::Linear,
        1 => BatchingMethod::Algebraic,
        _ => BatchingMethod::Horner,
    }
}

impl Opts {
    pub fn build(&self) -> ProofOptions {
        let ext = match self.ext {
            1 => FieldExtension::None,
            2 => FieldExtension::Quadratic,
            _ => FieldExtension::Cubic,
        };
        let o = ProofOptions::new(
            self.queries,
            self.blowup,
            self.grind,
            ext,
            self.fold,
            self.rem,
            batching(self.cbatch),
            batching(self.dbatch),
        );
        if self.parts != 1 || self.hash_rate != 1 {
            o.with_partitions(self.parts, self.hash_rate)
        } else {
            o
        }
    }
}

/// A corruption of the honest trace / public inputs (C02, C29).
#[derive(Deserialize, Debug, Clone, Default)]
pub struct Corrupt {
    /// "cell" | "row" | "col" | "pub" | "aux" | "none"
    #[serde(default)]
    pub kind: String,
    #[serde(default)]
    pub col: usize,
    #[serde(default)]
    pub row: usize,
    /// value added to the cell(s) (small positive integer)
    #[serde(default)]
    pub delta: u32,
    /// for "pub": index of the public value perturbed (given to the verifier only)
    #[serde(default)]
    pub idx: usize,
}

#[derive(Deserialize, Debug, Clone)]
pub struct Case {
    pub desc: AirDesc,
    pub opts: Opts,
    pub field: String,
    pub hash: String,
    #[serde(default)]
    pub corrupt: Corrupt,
    /// seed for the garbage written into unconstrained (exempt, un-asserted) cells; 0 = none
    #[serde(default)]
    pub garbage: u64,
}

pub struct Built<B: StarkField> {
    pub desc: Arc<AirDesc>,
    pub cols: Vec<Vec<B>>,
    /// values the honest trace gives to the assertions (before corruption)
    pub honest_values: Vec<B>,
}

/// Builds the (possibly corrupted) main trace of a case.
pub fn build_trace<B: StarkField>(case: &Case) -> Built<B> {
    let desc = Arc::new(case.desc.clone());
    let mut cols = desc.build_main::<B>();
    let n = desc.len();
    // garbage in rows that no transition constraint and no assertion touches:
    // rows n-e+1 .. n-1 are never the `next` row of a constrained step, and are `current` rows of
    // exempt steps only.
    if case.garbage != 0 && desc.exemptions >= 2 {
        let asserted = desc.asserted_cells();
        let mut s = case.garbage;
        for r in (n - desc.exemptions + 1)..n {
            for c in 0..desc.width {
                if !asserted.contains(&(c, r)) {
                    s = s.wrapping_mul(6364136223846793005).wrapping_add(1442695040888963407);
                    cols[c][r] += B::from((s >> 40) as u32 | 1);
                }
            }
        }
    }
    let honest_values = desc.assertion_values(&cols);
    match case.corrupt.kind.as_str() {
        "cell" => cols[case.corrupt.col][case.corrupt.row] += B::from(case.corrupt.delta),
        "row" => {
            for c in 0..desc.width {
                cols[c][case.corrupt.row] += B::from(case.corrupt.delta + c as u32);
            }
        },
        "col" => {
            for r in 0..n {
                cols[case.corrupt.col][r] += B::from(case.corrupt.delta + r as u32);
            }
        },
        _ => {},
    }
    Built { desc, cols, honest_values }
}

/// Runs the prover; with the `async` feature the prover's methods are `async fn`s and the future is
/// driven by a minimal executor (the futures never actually pend).
#[cfg(not(feature = "async"))]
pub fn run_prover<B, H, R>(prover: &GenProver<B, H, R>, trace: GenTrace<B>) -> Result<Proof, winterfell::ProverError>
where
    B: StarkField + ExtensibleField<2> + ExtensibleField<3> + 'static,
    H: ElementHasher<BaseField = B> + Sync,
    R: winterfell::crypto::RandomCoin<BaseField = B, Hasher = H>,
{
    prover.prove(trace)
}

#[cfg(feature = "async")]
pub fn run_prover<B, H, R>(prover: &GenProver<B, H, R>, trace: GenTrace<B>) -> Result<Proof, winterfell::ProverError>
where
    B: StarkField + ExtensibleField<2> + ExtensibleField<3> + 'static,
    H: ElementHasher<BaseField = B> + Sync,
    R: winterfell::crypto::RandomCoin<BaseField = B, Hasher = H>,
{
    block_on(prover.prove(trace))
}

#[cfg(feature = "async")]
pub fn block_on<F: core::future::Future>(f: F) -> F::Output {
    use core::task::{Context, Poll, RawWaker, RawWakerVTable, Waker};
    fn noop(_: *const ()) {}
    fn clone(_: *const ()) -> RawWaker {
        RawWaker::new(core::ptr::null(), &VTABLE)
    }
    static VTABLE: RawWakerVTable = RawWakerVTable::new(clone, noop, noop, noop);
    let waker = unsafe { Waker::from_raw(RawWaker::new(core::ptr::null(), &VTABLE)) };
    let mut cx = Context::from_waker(&waker);
    let mut f = Box::pin(f);
    loop {
        if let Poll::Ready(v) = f.as_mut().poll(&mut cx) {
            return v;
        }
    }
}

pub fn err_class(e: &winterfell::VerifierError) -> String {
    let s = format!("{e:?}");
    s.split(|c| c == '(' || c == ' ' || c == '{').next().unwrap_or("").to_string()
}

/// prove -> to_bytes -> from_bytes -> verify; returns outcome JSON.
pub fn prove_verify<B, H>(case: &Case) -> Value
where
    B: StarkField + ExtensibleField<2> + ExtensibleField<3> + 'static,
    H: ElementHasher<BaseField = B> + Sync,
{
    let built = build_trace::<B>(case);
    let options = case.opts.build();
    // the prover claims the HONEST assertion values (the statement), whatever the trace holds
    let trace = GenTrace::new(built.desc.clone(), built.cols, built.honest_values.clone());
    let mut prover = GenProver::<B, H>::new(options.clone());
    if case.corrupt.kind == "aux" {
        prover.aux_corrupt = Some((case.corrupt.col, case.corrupt.row));
    }
    if case.corrupt.kind == "auxscale" {
        prover.aux_scale = Some(case.corrupt.col);
    }
    let proof = match catch(|| run_prover(&prover, trace)) {
        Err(p) => return json!({"verdict": "prover_panic", "detail": p}),
        Ok(Err(e)) => return json!({"verdict": "prover_error", "detail": format!("{e:?}")}),
        Ok(Ok(p)) => p,
    };
    let bytes = proof.to_bytes();
    let parsed = match catch(|| Proof::from_bytes(&bytes)) {
        Err(p) => return json!({"verdict": "deser_panic", "detail": p, "proof_len": bytes.len()}),
        Ok(Err(e)) => return json!({"verdict": "deser_error", "detail": format!("{e:?}"), "proof_len": bytes.len()}),
        Ok(Ok(p)) => p,
    };
    let roundtrip_equal = parsed.to_bytes() == bytes;
    let fri_layers = parsed.fri_proof.num_layers();
    let remainder_len = match case.opts.ext {
        1 => parsed.fri_proof.num_remainder_elements::<B>(),
        2 => parsed.fri_proof.num_remainder_elements::<QuadExtension<B>>(),
        _ => parsed.fri_proof.num_remainder_elements::<CubeExtension<B>>(),
    };
    let lde_domain = parsed.lde_domain_size();
    let mut values = built.honest_values.clone();
    if case.corrupt.kind == "pub" && !values.is_empty() {
        let i = case.corrupt.idx % values.len();
        values[i] += B::from(case.corrupt.delta.max(1));
    }
    let pub_inputs = GenPub { desc: built.desc.clone(), values };
    let acceptable = AcceptableOptions::OptionSet(vec![options]);
    let uq = parsed.num_unique_queries as usize;
    let verdict = match catch(|| {
        winterfell::verify::<GenAir<B>, H, DefaultRandomCoin<H>, MerkleTree<H>>(parsed, pub_inputs, &acceptable)
    }) {
        Err(p) => json!({"verdict": "verifier_panic", "detail": p}),
        Ok(Err(e)) => json!({"verdict": "reject", "detail": format!("{e:?}"), "class": err_class(&e)}),
        Ok(Ok(())) => json!({"verdict": "accept"}),
    };
    let mut v = verdict;
    v["proof_len"] = json!(bytes.len());
    v["roundtrip_equal"] = json!(roundtrip_equal);
    v["unique_queries"] = json!(uq);
    v["fri_layers"] = json!(fri_layers);
    v["remainder_len"] = json!(remainder_len);
    v["lde_domain"] = json!(lde_domain);
    v
}

/// C06: prove and report digests of the proof's components (context, commitments, OOD frame, nonce,
/// whole proof) plus the verdict of verifying the proof.
pub fn digests<B, H>(case: &Case) -> Value
where
    B: StarkField + ExtensibleField<2> + ExtensibleField<3> + 'static,
    H: ElementHasher<BaseField = B> + Sync,
{
    use winter_utils::Serializable;
    let built = build_trace::<B>(case);
    let options = case.opts.build();
    let trace = GenTrace::new(built.desc.clone(), built.cols, built.honest_values.clone());
    let prover = GenProver::<B, H>::new(options.clone());
    let proof = match catch(|| run_prover(&prover, trace)) {
        Err(p) => return json!({"verdict": "prover_panic", "detail": p}),
        Ok(Err(e)) => return json!({"verdict": "prover_error", "detail": format!("{e:?}")}),
        Ok(Ok(p)) => p,
    };
    let h = |b: &[u8]| blake3::hash(b).to_hex().to_string();
    let whole = proof.to_bytes();
    let ctx = proof.context.to_bytes();
    let com = proof.commitments.to_bytes();
    let ood = proof.ood_frame.to_bytes();
    let nonce = proof.pow_nonce;
    let pub_inputs = GenPub { desc: built.desc.clone(), values: built.honest_values.clone() };
    let acceptable = AcceptableOptions::OptionSet(vec![options]);
    let verdict = match catch(|| {
        winterfell::verify::<GenAir<B>, H, DefaultRandomCoin<H>, MerkleTree<H>>(proof, pub_inputs, &acceptable)
    }) {
        Err(p) => format!("verifier_panic {p}"),
        Ok(Err(e)) => format!("reject {e:?}"),
        Ok(Ok(())) => "accept".to_string(),
    };
    json!({"verdict": verdict, "context": h(&ctx), "commitments": h(&com), "ood": h(&ood),
           "nonce": format!("{nonce:016x}"), "proof": h(&whole), "proof_len": whole.len()})
}

pub fn dispatch_digests(case: &Case) -> Value {
    match (case.field.as_str(), case.hash.as_str()) {
        ("f64", "blake3_256") => digests::<f64::BaseElement, Blake3_256<f64::BaseElement>>(case),
        ("f64", "rp64_256") => digests::<f64::BaseElement, Rp64_256>(case),
        ("f64", "rpjive64_256") => digests::<f64::BaseElement, RpJive64_256>(case),
        ("f64", "sha3_256") => digests::<f64::BaseElement, Sha3_256<f64::BaseElement>>(case),
        ("f62", "rp62_248") => digests::<f62::BaseElement, Rp62_248>(case),
        ("f62", "blake3_256") => digests::<f62::BaseElement, Blake3_256<f62::BaseElement>>(case),
        ("f128", "blake3_256") => digests::<f128::BaseElement, Blake3_256<f128::BaseElement>>(case),
        ("f128", "blake3_192") => digests::<f128::BaseElement, Blake3_192<f128::BaseElement>>(case),
        _ => json!({"verdict": "unsupported_combo"}),
    }
}

/// Dispatch on (field, hash).
pub fn dispatch(case: &Case) -> Value {
    match (case.field.as_str(), case.hash.as_str()) {
        ("f64", "blake3_256") => prove_verify::<f64::BaseElement, Blake3_256<f64::BaseElement>>(case),
        ("f64", "blake3_192") => prove_verify::<f64::BaseElement, Blake3_192<f64::BaseElement>>(case),
        ("f64", "sha3_256") => prove_verify::<f64::BaseElement, Sha3_256<f64::BaseElement>>(case),
        ("f64", "rp64_256") => prove_verify::<f64::BaseElement, Rp64_256>(case),
        ("f64", "rpjive64_256") => prove_verify::<f64::BaseElement, RpJive64_256>(case),
        ("f62", "blake3_256") => prove_verify::<f62::BaseElement, Blake3_256<f62::BaseElement>>(case),
        ("f62", "sha3_256") => prove_verify::<f62::BaseElement, Sha3_256<f62::BaseElement>>(case),
        ("f62", "rp62_248") => prove_verify::<f62::BaseElement, Rp62_248>(case),
        ("f128", "blake3_256") => prove_verify::<f128::BaseElement, Blake3_256<f128::BaseElement>>(case),
        ("f128", "blake3_192") => prove_verify::<f128::BaseElement, Blake3_192<f128::BaseElement>>(case),
        ("f128", "sha3_256") => prove_verify::<f128::BaseElement, Sha3_256<f128::BaseElement>>(case),
        ("t257", "blake3_256") => prove_verify::<F257, Blake3_256<F257>>(case),
        ("t40961", "blake3_256") => prove_verify::<F40961, Blake3_256<F40961>>(case),
        _ => json!({"verdict": "unsupported_combo"}),
    }
}
