//! C29: call the real `Trace::validate` on traces whose validity the specification
//! (spec/air/TraceValidity.tla) decided, and compare trace-table construction routes.
use std::sync::Arc;

use serde::Deserialize;
use serde_json::{json, Value};
use winterfell::{
    math::{ExtensibleField, FieldElement, StarkField},
    matrix::ColMatrix,
    Air, AuxRandElements, AuxTraceWithMetadata, FieldExtension, ProofOptions, BatchingMethod, Trace, TraceTable,
};
use wfcommon::{
    toy::{F257, F40961, F97},
    util::catch,
};

use crate::{
    genair::{build_aux, AirDesc, GenAir, GenPub, GenTrace},
    run::{build_trace, Case, Corrupt, Opts},
};

#[derive(Deserialize, Debug, Clone)]
pub struct VCase {
    pub desc: AirDesc,
    pub field: u32,
    pub corrupt: Corrupt,
    pub rands: Vec<u32>,
    pub expect_valid: bool,
    #[serde(default)]
    pub class: String,
}

fn validate_one<B>(vc: &VCase) -> Value
where
    B: StarkField + ExtensibleField<2> + ExtensibleField<3> + 'static,
{
    // reuse the pipeline's trace builder (honest trace + main-segment corruption)
    let case = Case {
        desc: vc.desc.clone(),
        opts: Opts { queries: 1, blowup: 16, grind: 0, ext: 1, fold: 2, rem: 0, cbatch: 0, dbatch: 0, parts: 1, hash_rate: 1 },
        field: String::new(),
        hash: String::new(),
        corrupt: vc.corrupt.clone(),
        garbage: 0,
    };
    let built = build_trace::<B>(&case);
    let desc: Arc<AirDesc> = built.desc.clone();
    let trace = GenTrace::new(desc.clone(), built.cols, built.honest_values.clone());
    let options = ProofOptions::new(1, 16, 0, FieldExtension::None, 2, 0, BatchingMethod::Linear, BatchingMethod::Linear);
    let r = catch(|| {
        let air = GenAir::<B>::new(
            trace.info().clone(),
            GenPub { desc: desc.clone(), values: built.honest_values.clone() },
            options,
        );
        if desc.aux.is_empty() {
            trace.validate::<GenAir<B>, B>(&air, None);
        } else {
            let rands: Vec<B> = vc.rands.iter().map(|v| B::from(*v)).collect();
            let mut cols = build_aux::<B, B>(&desc, trace.main_segment(), &rands);
            if vc.corrupt.kind == "aux" {
                cols[vc.corrupt.col][vc.corrupt.row] += B::ONE;
            }
            if vc.corrupt.kind == "auxscale" {
                for v in cols[vc.corrupt.col].iter_mut() {
                    *v = v.double();
                }
            }
            let aux = AuxTraceWithMetadata {
                aux_trace: ColMatrix::new(cols),
                aux_rand_elements: AuxRandElements::new(rands),
            };
            trace.validate::<GenAir<B>, B>(&air, Some(&aux));
        }
    });
    match r {
        Ok(()) => json!({"valid": true}),
        Err(p) => json!({"valid": false, "detail": p}),
    }
}

pub fn validate(vc: &VCase) -> Value {
    match vc.field {
        97 => validate_one::<F97>(vc),
        257 => validate_one::<F257>(vc),
        40961 => validate_one::<F40961>(vc),
        _ => json!({"valid": null, "detail": "unsupported field"}),
    }
}

/// Trace-table construction routes: fill vs init(columns) vs fragments(len) must give equal rows.
pub fn tables<B: StarkField>(width: usize, log_len: u32, seed: u64) -> Value {
    let n = 1usize << log_len;
    let f = |state: &mut [B], step: usize| {
        for (j, s) in state.iter_mut().enumerate() {
            *s = *s * B::from((j as u32) + 2) + B::from((step as u32) ^ (seed as u32 & 0xffff));
        }
    };
    let init = |state: &mut [B]| {
        for (j, s) in state.iter_mut().enumerate() {
            *s = B::from(j as u32 + 1 + (seed as u32 & 0xff));
        }
    };
    // route 1: fill
    let mut t1 = TraceTable::<B>::new(width, n);
    t1.fill(|s| init(s), |i, s| f(s, i));
    // route 2: init from columns computed independently of TraceTable
    let mut cols = vec![vec![B::ZERO; n]; width];
    let mut state = vec![B::ZERO; width];
    init(&mut state);
    for i in 0..n {
        for j in 0..width {
            cols[j][i] = state[j];
        }
        if i + 1 < n {
            f(&mut state, i);
        }
    }
    let t2 = TraceTable::init(cols.clone());
    let mut mismatches = vec![];
    let same = |a: &TraceTable<B>, b: &TraceTable<B>| (0..width).all(|c| (0..n).all(|r| a.get(c, r) == b.get(c, r)));
    if !same(&t1, &t2) {
        mismatches.push(json!({"route": "fill vs init"}));
    }
    // route 3: fragments of every power-of-two length
    let mut fl = 2usize;
    let mut nfrag = 0;
    while fl <= n {
        if fl >= 1 {
            let r = catch(|| {
                let mut t3 = TraceTable::<B>::new(width, n);
                #[cfg(not(feature = "concurrent"))]
                for mut frag in t3.fragments(fl) {
                    let off = frag.offset();
                    let c0: Vec<B> = (0..width).map(|j| cols[j][off]).collect();
                    frag.fill(|s| s.copy_from_slice(&c0), |i, s| f(s, off + i));
                }
                #[cfg(feature = "concurrent")]
                {
                    use rayon::prelude::*;
                    t3.fragments(fl).for_each(|mut frag| {
                        let off = frag.offset();
                        let c0: Vec<B> = (0..width).map(|j| cols[j][off]).collect();
                        frag.fill(|s| s.copy_from_slice(&c0), |i, s| f(s, off + i));
                    });
                }
                t3
            });
            match r {
                Ok(t3) => {
                    nfrag += 1;
                    if !same(&t1, &t3) {
                        mismatches.push(json!({"route": "fragments", "len": fl}));
                    }
                },
                // fragment lengths the API documents as invalid panic by contract; they are not gated
                Err(p) => {
                    if !(p.contains("fragment length") || p.contains("fragment")) {
                        mismatches.push(json!({"route": "fragments", "len": fl, "panic": p}));
                    }
                },
            }
        }
        fl *= 2;
    }
    json!({"mismatches": mismatches, "fragment_lengths_ok": nfrag})
}
