//! C03: adversarial transcripts. An honest proof is produced, the public-coin transcript is replayed
//! (a recording `RandomCoin` wrapper passed to the real verifier) to learn every challenge, and then
//! data revealed after the query positions were fixed is substituted *consistently with every
//! algebraic check*, so that only the comparison with the earlier commitment can catch it:
//!   remainder  : r' = r + c * prod(x - x_i) over the last-layer points of the folded query positions
//!                (variant 1: the shorter interpolant through the queried points, zero-padded to a power of two;
//!                 variant 2: a proof produced over a coin that never absorbs the remainder commitment, sent
//!                 without that commitment, with the same-length substitution)
//!                (same degree bound, same values at every queried point);
//!   trace      : two opened main-trace values at one position changed by (d_a, d_b) with
//!                cc_a*d_a + cc_b*d_b = 0 (the DEEP value, hence everything FRI sees, is unchanged);
//!   constraint : the same on two constraint-composition columns; aux: on two auxiliary columns;
//!   fri_layer  : two un-pinned values of a queried coset changed by (d_j, d_k) with
//!                d_j*l_j(alpha) + d_k*l_k(alpha) = 0 (l = Lagrange basis of the coset): the folded
//!                value is unchanged.
//! Which forgeries exist and that each must be rejected is stated by spec/stark/StarkProto.tla; this
//! file only manufactures the concrete bytes.
use std::cell::RefCell;

use serde_json::{json, Value};
use winterfell::{
    crypto::{DefaultRandomCoin, ElementHasher, Hasher, MerkleTree, RandomCoin, RandomCoinError},
    math::{polynom, ExtensibleField, FieldElement, StarkField},
    AcceptableOptions, Proof,
};
use winter_air::proof::Queries;
use winter_fri::{folding::fold_positions, FriProof};
use winter_utils::{ByteReader, Deserializable, Serializable, SliceReader};
use wfcommon::util::catch;

use crate::{
    genair::{GenAir, GenProver, GenPub, GenTrace},
    run::{build_trace, run_prover, Case},
};

// RECORDING COIN
// ------------------------------------------------------------------------------------------------

#[derive(Clone, Debug)]
pub enum Ev {
    New(usize),
    Reseed,
    ReseedD(Vec<u8>),
    Draw(Vec<u8>),
    Lz(u64),
    Ints(Vec<usize>),
    IntsReq(usize, usize, u64),
}

thread_local! {
    static LOG: RefCell<Vec<Ev>> = const { RefCell::new(Vec::new()) };
}

pub struct RecCoin<H: ElementHasher>(DefaultRandomCoin<H>);

impl<B: StarkField, H: ElementHasher<BaseField = B>> RandomCoin for RecCoin<H> {
    type BaseField = B;
    type Hasher = H;

    fn new(seed: &[B]) -> Self {
        LOG.with(|l| {
            l.borrow_mut().clear();
            l.borrow_mut().push(Ev::New(seed.len()));
        });
        RecCoin(DefaultRandomCoin::new(seed))
    }
    fn reseed(&mut self, data: H::Digest) {
        LOG.with(|l| {
            l.borrow_mut().push(Ev::ReseedD(data.to_bytes()));
            l.borrow_mut().push(Ev::Reseed);
        });
        self.0.reseed(data)
    }
    fn check_leading_zeros(&self, value: u64) -> u32 {
        LOG.with(|l| l.borrow_mut().push(Ev::Lz(value)));
        self.0.check_leading_zeros(value)
    }
    fn draw<E: FieldElement<BaseField = B>>(&mut self) -> Result<E, RandomCoinError> {
        let r = self.0.draw::<E>()?;
        LOG.with(|l| l.borrow_mut().push(Ev::Draw(r.to_bytes())));
        Ok(r)
    }
    fn draw_integers(
        &mut self,
        num_values: usize,
        domain_size: usize,
        nonce: u64,
    ) -> Result<Vec<usize>, RandomCoinError> {
        let r = self.0.draw_integers(num_values, domain_size, nonce)?;
        LOG.with(|l| {
            l.borrow_mut().push(Ev::IntsReq(num_values, domain_size, nonce));
            l.borrow_mut().push(Ev::Ints(r.clone()));
        });
        Ok(r)
    }
}

thread_local! {
    /// SkipCoin: the 1-based index of the reseed that is NOT absorbed, and the positions it last drew
    static SKIP_AT: RefCell<usize> = const { RefCell::new(0) };
    static SKIP_POS: RefCell<Vec<usize>> = const { RefCell::new(Vec::new()) };
}

/// The real coin, except that one chosen `reseed` is ignored: the coin of a prover that does not absorb
/// one of its commitments (e.g. the FRI remainder commitment) into the transcript.
pub struct SkipCoin<H: ElementHasher>(DefaultRandomCoin<H>, usize);

impl<B: StarkField, H: ElementHasher<BaseField = B>> RandomCoin for SkipCoin<H> {
    type BaseField = B;
    type Hasher = H;

    fn new(seed: &[B]) -> Self {
        SkipCoin(DefaultRandomCoin::new(seed), 0)
    }
    fn reseed(&mut self, data: H::Digest) {
        self.1 += 1;
        if self.1 != SKIP_AT.with(|s| *s.borrow()) {
            self.0.reseed(data)
        }
    }
    fn check_leading_zeros(&self, value: u64) -> u32 {
        self.0.check_leading_zeros(value)
    }
    fn draw<E: FieldElement<BaseField = B>>(&mut self) -> Result<E, RandomCoinError> {
        self.0.draw::<E>()
    }
    fn draw_integers(&mut self, num_values: usize, domain_size: usize, nonce: u64) -> Result<Vec<usize>, RandomCoinError> {
        let r = self.0.draw_integers(num_values, domain_size, nonce)?;
        SKIP_POS.with(|p| *p.borrow_mut() = r.clone());
        Ok(r)
    }
}

fn decode<E: FieldElement>(b: &[u8]) -> E {
    E::read_from_bytes(b).expect("recorded element decodes")
}

/// Challenges learnt from the transcript.
struct Challenges<E> {
    positions: Vec<usize>,
    alphas: Vec<E>,
    deep: Vec<E>,
}

fn challenges<E: FieldElement>(num_layers: usize) -> Option<Challenges<E>> {
    let log: Vec<Ev> = LOG.with(|l| l.borrow().clone())
        .into_iter()
        .filter(|e| matches!(e, Ev::Reseed | Ev::Draw(_) | Ev::Ints(_)))
        .collect();
    let ints_at = log.iter().position(|e| matches!(e, Ev::Ints(_)))?;
    let mut positions = match &log[ints_at] {
        Ev::Ints(v) => v.clone(),
        _ => unreachable!(),
    };
    positions.sort_unstable();
    positions.dedup();
    // walk backwards: one (Reseed, Draw) pair per FRI layer commitment plus one for the remainder
    // commitment (the verifier reseeds with it and draws an unused alpha)
    let mut i = ints_at;
    let mut alphas = vec![];
    for _ in 0..num_layers + 1 {
        if i < 2 {
            return None;
        }
        match (&log[i - 2], &log[i - 1]) {
            (Ev::Reseed, Ev::Draw(b)) => alphas.push(decode::<E>(b)),
            _ => return None,
        }
        i -= 2;
    }
    alphas.reverse();
    alphas.truncate(num_layers);
    // DEEP coefficients: the contiguous draws before that, back to the reseed with the OOD digest
    let mut deep = vec![];
    while i > 0 {
        match &log[i - 1] {
            Ev::Draw(b) => {
                deep.push(decode::<E>(b));
                i -= 1;
            },
            _ => break,
        }
    }
    deep.reverse();
    Some(Challenges { positions, alphas, deep })
}

// BYTE SURGERY
// ------------------------------------------------------------------------------------------------

/// Queries = values (vint-prefixed bytes) followed by the opening proof (vint-prefixed bytes).
fn split_queries(q: &Queries) -> (Vec<u8>, Vec<u8>) {
    let b = q.to_bytes();
    let mut r = SliceReader::new(&b);
    let n = r.read_usize().unwrap();
    let values = r.read_vec(n).unwrap();
    let m = r.read_usize().unwrap();
    let proof = r.read_vec(m).unwrap();
    (values, proof)
}
fn join_queries(values: &[u8], proof: &[u8]) -> Queries {
    let mut b = vec![];
    values.to_vec().write_into(&mut b);
    proof.to_vec().write_into(&mut b);
    Queries::read_from_bytes(&b).expect("queries re-encode")
}

fn get<E: FieldElement>(values: &[u8], idx: usize) -> E {
    decode::<E>(&values[idx * E::ELEMENT_BYTES..(idx + 1) * E::ELEMENT_BYTES])
}
fn put<E: FieldElement>(values: &mut [u8], idx: usize, v: E) {
    values[idx * E::ELEMENT_BYTES..(idx + 1) * E::ELEMENT_BYTES].copy_from_slice(&v.to_bytes());
}

/// Changes columns (a, b) of row `row` of a query table of `cols` columns by (+cb, -ca).
fn deep_neutral<E: FieldElement>(q: &Queries, cols: usize, row: usize, a: usize, b: usize, ca: E, cb: E) -> Queries {
    let (mut values, proof) = split_queries(q);
    let va: E = get(&values, row * cols + a);
    let vb: E = get(&values, row * cols + b);
    put(&mut values, row * cols + a, va + cb);
    put(&mut values, row * cols + b, vb - ca);
    join_queries(&values, &proof)
}

/// FRI proof = u8 layer count, per layer (u32 len + values, u32 len + paths), u16 len + remainder, u8.
struct FriParts {
    layers: Vec<(Vec<u8>, Vec<u8>)>,
    remainder: Vec<u8>,
    parts: u8,
}
fn split_fri(p: &FriProof) -> FriParts {
    let b = p.to_bytes();
    let mut r = SliceReader::new(&b);
    let n = r.read_u8().unwrap() as usize;
    let mut layers = vec![];
    for _ in 0..n {
        let vl = r.read_u32().unwrap() as usize;
        let v = r.read_vec(vl).unwrap();
        let pl = r.read_u32().unwrap() as usize;
        let pth = r.read_vec(pl).unwrap();
        layers.push((v, pth));
    }
    let rl = r.read_u16().unwrap() as usize;
    let remainder = r.read_vec(rl).unwrap();
    let parts = r.read_u8().unwrap();
    FriParts { layers, remainder, parts }
}
fn join_fri(f: &FriParts) -> FriProof {
    let mut b = vec![f.layers.len() as u8];
    for (v, p) in &f.layers {
        b.extend_from_slice(&(v.len() as u32).to_le_bytes());
        b.extend_from_slice(v);
        b.extend_from_slice(&(p.len() as u32).to_le_bytes());
        b.extend_from_slice(p);
    }
    b.extend_from_slice(&(f.remainder.len() as u16).to_le_bytes());
    b.extend_from_slice(&f.remainder);
    b.push(f.parts);
    FriProof::read_from_bytes(&b).expect("fri proof re-encodes")
}

// COMMITMENT-BLIND VECTOR COMMITMENT
// ------------------------------------------------------------------------------------------------

/// A `VectorCommitment` identical to `MerkleTree` except that openings are never checked. Running
/// the REAL verifier over it shows that a forged proof passes every algebraic check, i.e. that the
/// forgery is well formed and only the commitment comparison can reject it (vacuity guard).
pub struct BlindVC<H: Hasher>(MerkleTree<H>);

impl<H: Hasher> winterfell::crypto::VectorCommitment<H> for BlindVC<H> {
    type Options = ();
    type Proof = Vec<H::Digest>;
    type MultiProof = winterfell::crypto::BatchMerkleProof<H>;
    type Error = winterfell::crypto::MerkleTreeError;

    fn with_options(items: Vec<H::Digest>, _o: ()) -> Result<Self, Self::Error> {
        Ok(BlindVC(MerkleTree::new(items)?))
    }
    fn commitment(&self) -> H::Digest {
        *self.0.root()
    }
    fn domain_len(&self) -> usize {
        1 << self.0.depth()
    }
    fn get_proof_domain_len(proof: &Self::Proof) -> usize {
        1 << proof.len()
    }
    fn get_multiproof_domain_len(proof: &Self::MultiProof) -> usize {
        <MerkleTree<H> as winterfell::crypto::VectorCommitment<H>>::get_multiproof_domain_len(proof)
    }
    fn open(&self, index: usize) -> Result<(H::Digest, Self::Proof), Self::Error> {
        self.0.prove(index)
    }
    fn open_many(&self, indexes: &[usize]) -> Result<(Vec<H::Digest>, Self::MultiProof), Self::Error> {
        self.0.prove_batch(indexes)
    }
    fn verify(_c: H::Digest, _i: usize, _item: H::Digest, _p: &Self::Proof) -> Result<(), Self::Error> {
        Ok(())
    }
    fn verify_many(_c: H::Digest, _i: &[usize], _items: &[H::Digest], _p: &Self::MultiProof) -> Result<(), Self::Error> {
        Ok(())
    }
}

fn verify_blind<B, H>(proof: Proof, pi: GenPub<B>, acc: &AcceptableOptions) -> String
where
    B: StarkField + ExtensibleField<2> + ExtensibleField<3> + 'static,
    H: ElementHasher<BaseField = B> + Sync,
{
    match catch(|| winterfell::verify::<GenAir<B>, H, DefaultRandomCoin<H>, BlindVC<H>>(proof, pi, acc)) {
        Err(p) => format!("verifier_panic {p}"),
        Ok(Err(e)) => format!("reject {e:?}"),
        Ok(Ok(())) => "accept".to_string(),
    }
}

// THE ATTACKS
// ------------------------------------------------------------------------------------------------

fn verify_rec<B, H>(proof: Proof, pi: GenPub<B>, acc: &AcceptableOptions) -> String
where
    B: StarkField + ExtensibleField<2> + ExtensibleField<3> + 'static,
    H: ElementHasher<BaseField = B> + Sync,
{
    match catch(|| winterfell::verify::<GenAir<B>, H, RecCoin<H>, MerkleTree<H>>(proof, pi, acc)) {
        Err(p) => format!("verifier_panic {p}"),
        Ok(Err(e)) => format!("reject {e:?}"),
        Ok(Ok(())) => "accept".to_string(),
    }
}

/// Column pair (a, b) of a `cols`-column table for variant v: (first, last), (last-1, last), (0, 1), ...
fn pair(cols: usize, v: usize) -> (usize, usize) {
    match v % 3 {
        0 => (0, cols - 1),
        1 => (cols - 2, cols - 1),
        _ => (0, 1),
    }
}

pub fn attack<B, H, E>(case: &Case, kind: &str, variant: usize) -> Value
where
    B: StarkField + ExtensibleField<2> + ExtensibleField<3> + 'static,
    H: ElementHasher<BaseField = B> + Sync,
    E: FieldElement<BaseField = B>,
{
    let built = build_trace::<B>(case);
    let options = case.opts.build();
    let trace = GenTrace::new(built.desc.clone(), built.cols, built.honest_values.clone());
    let prover = GenProver::<B, H>::new(options.clone());
    let proof = match catch(|| run_prover(&prover, trace)) {
        Ok(Ok(p)) => p,
        other => return json!({"honest": "prover_failed", "detail": format!("{:?}", other.map(|r| r.map(|_| ())))}),
    };
    let pi = GenPub { desc: built.desc.clone(), values: built.honest_values.clone() };
    let acc = AcceptableOptions::OptionSet(vec![options]);
    let bytes = proof.to_bytes();
    let honest = verify_rec::<B, H>(Proof::from_bytes(&bytes).unwrap(), pi.clone(), &acc);
    if honest != "accept" {
        return json!({"honest": honest});
    }
    let num_layers = proof.fri_proof.num_layers();
    let ch = match challenges::<E>(num_layers) {
        Some(c) => c,
        None => return json!({"honest": honest, "forged": false, "skip": "transcript shape not recognised"}),
    };
    let main_w = built.desc.width;
    let aux_w = built.desc.aux.first().map(|a| a.width).unwrap_or(0);
    let comp_cols = ch.deep.len().saturating_sub(main_w + aux_w);
    let nq = ch.positions.len();
    let mut forged = Proof::from_bytes(&bytes).unwrap();
    let row = nq / 2; // an interior queried position
    let mut remainder_consistent = false;
    let skip = |why: &str| json!({"honest": honest, "forged": false, "skip": why});
    match kind {
        "honest" => {},
        "trace" => {
            if E::EXTENSION_DEGREE != 1 {
                return skip("main-trace values are base-field elements: needs ext=1");
            }
            if main_w < 2 {
                return skip("needs >= 2 main columns");
            }
            let (a, b) = pair(main_w, variant);
            forged.trace_queries[0] =
                deep_neutral::<E>(&forged.trace_queries[0], main_w, row, a, b, ch.deep[a], ch.deep[b]);
        },
        "aux" => {
            if aux_w < 2 {
                return skip("needs >= 2 auxiliary columns");
            }
            let (a, b) = pair(aux_w, variant);
            forged.trace_queries[1] = deep_neutral::<E>(
                &forged.trace_queries[1], aux_w, row, a, b, ch.deep[main_w + a], ch.deep[main_w + b]);
        },
        "constraint" => {
            if comp_cols < 2 {
                return skip("needs >= 2 composition columns");
            }
            let (a, b) = pair(comp_cols, variant);
            forged.constraint_queries = deep_neutral::<E>(
                &forged.constraint_queries, comp_cols, row, a, b,
                ch.deep[main_w + aux_w + a], ch.deep[main_w + aux_w + b]);
        },
        "remainder" => {
            let fold = case.opts.fold;
            let lde = forged.lde_domain_size();
            let mut size = lde;
            let mut pos = ch.positions.clone();
            for _ in 0..num_layers {
                pos = fold_positions(&pos, size, fold);
                size /= fold;
            }
            let mut f = split_fri(&forged.fri_proof);
            let rem: Vec<E> = (0..f.remainder.len() / E::ELEMENT_BYTES).map(|i| get::<E>(&f.remainder, i)).collect();
            let g = B::get_root_of_unity(size.ilog2());
            let offset = B::GENERATOR;
            let xs: Vec<E> = pos.iter().map(|&p| E::from(offset * g.exp((p as u64).into()))).collect();
            let horner = |p: &[E], x: E| p.iter().fold(E::ZERO, |acc, c| acc * x + *c);
            if variant == 2 {
                // a prover that never absorbs the remainder commitment: the proof is produced by the stock
                // prover over a coin that ignores that reseed, the commitment list is sent WITHOUT the
                // remainder digest, and the remainder is substituted after the positions are known
                let segments = 1 + usize::from(aux_w > 0);
                SKIP_AT.with(|s| *s.borrow_mut() = segments + 2 + num_layers + 1);
                let built2 = build_trace::<B>(case);
                let trace2 = GenTrace::new(built2.desc.clone(), built2.cols, built2.honest_values.clone());
                let prover2 = GenProver::<B, H, SkipCoin<H>>::new(case.opts.build());
                let p2 = catch(|| run_prover(&prover2, trace2));
                SKIP_AT.with(|s| *s.borrow_mut() = 0);
                let mut p2 = match p2 {
                    Ok(Ok(p)) => p,
                    _ => return skip("the prover over the skipping coin failed"),
                };
                if p2.fri_proof.num_layers() != num_layers {
                    return skip("layer count changed");
                }
                let (troots, croot, froots) = match p2.commitments.clone().parse::<H>(segments, num_layers) {
                    Ok(x) => x,
                    Err(_) => return skip("commitments of the second proof do not parse"),
                };
                p2.commitments = winter_air::proof::Commitments::new::<H>(troots, croot, froots[..num_layers].to_vec());
                // folded positions of THIS transcript
                let mut size2 = lde;
                let mut pos2 = SKIP_POS.with(|p| p.borrow().clone());
                pos2.sort();
                pos2.dedup();
                for _ in 0..num_layers {
                    pos2 = fold_positions(&pos2, size2, fold);
                    size2 /= fold;
                }
                let mut f2 = split_fri(&p2.fri_proof);
                let rem2: Vec<E> = (0..f2.remainder.len() / E::ELEMENT_BYTES).map(|i| get::<E>(&f2.remainder, i)).collect();
                if pos2.len() + 1 > rem2.len() {
                    return skip("remainder too short for the number of folded positions");
                }
                let g2 = B::get_root_of_unity(size2.ilog2());
                let xs2: Vec<E> = pos2.iter().map(|&p| E::from(B::GENERATOR * g2.exp((p as u64).into()))).collect();
                let m2 = polynom::poly_from_roots(&xs2);
                let mut new2 = rem2.clone();
                let n2 = new2.len();
                for (k, c) in m2.iter().enumerate() {
                    new2[n2 - 1 - k] += *c * E::from(5u32);
                }
                remainder_consistent = new2 != rem2 && xs2.iter().all(|x| horner(&new2, *x) == horner(&rem2, *x));
                for (i, v) in new2.iter().enumerate() {
                    put::<E>(&mut f2.remainder, i, *v);
                }
                p2.fri_proof = join_fri(&f2);
                forged = p2;
            } else if variant == 1 {
                // a SHORTER remainder than the committed one: the interpolant through the queried points of
                // the committed remainder, zero-padded to the next admissible (power-of-two) length
                let short_len = pos.len().next_power_of_two();
                if short_len >= rem.len() {
                    return skip("no shorter remainder length for this number of folded positions");
                }
                let ys: Vec<E> = xs.iter().map(|x| horner(&rem, *x)).collect();
                let mut low = polynom::interpolate(&xs, &ys, false); // low -> high, degree < #positions
                low.resize(short_len, E::ZERO);
                let newrem: Vec<E> = low.into_iter().rev().collect();
                remainder_consistent = xs.iter().all(|x| horner(&newrem, *x) == horner(&rem, *x));
                f.remainder = vec![0u8; newrem.len() * E::ELEMENT_BYTES];
                for (i, v) in newrem.iter().enumerate() {
                    put::<E>(&mut f.remainder, i, *v);
                }
                forged.fri_proof = join_fri(&f);
            } else {
            if pos.len() + 1 > rem.len() {
                return skip("remainder too short for the number of folded positions");
            }
            let m = polynom::poly_from_roots(&xs); // low -> high, degree = #positions
            // remainder coefficients are stored highest degree first
            let mut newrem = rem.clone();
            let n = newrem.len();
            for (k, c) in m.iter().enumerate() {
                newrem[n - 1 - k] += *c * E::from(7u32);
            }
            // the substitute must agree with the committed remainder at every queried point and keep
            // its length (degree bound), otherwise it would be caught by the algebraic checks
            remainder_consistent = newrem.len() == rem.len()
                && newrem != rem
                && xs.iter().all(|x| horner(&newrem, *x) == horner(&rem, *x));
            for (i, v) in newrem.iter().enumerate() {
                put::<E>(&mut f.remainder, i, *v);
            }
            forged.fri_proof = join_fri(&f);
            }
        },
        "fri_layer" => {
            let fold = case.opts.fold;
            if fold < 4 || num_layers == 0 {
                return skip("needs folding factor >= 4 and at least one layer");
            }
            // layer 0: cosets of the queried positions; values table rows are in the order of the
            // folded positions, each row holding `fold` values (index within the row = position / row_len)
            let lde = forged.lde_domain_size();
            let row_len = lde / fold;
            let folded = fold_positions(&ch.positions, lde, fold);
            // pick a coset hit by exactly one query, so that fold-1 values are un-pinned
            let mut target = None;
            for (ri, fp) in folded.iter().enumerate() {
                let hits: Vec<usize> = ch.positions.iter().filter(|p| *p % row_len == *fp).map(|p| p / row_len).collect();
                if hits.len() == 1 {
                    target = Some((ri, *fp, hits[0]));
                    break;
                }
            }
            let (ri, fp, pinned) = match target {
                Some(t) => t,
                None => return skip("no coset with a single query"),
            };
            let free: Vec<usize> = (0..fold).filter(|i| *i != pinned).collect();
            let (j, k) = (free[0], free[1]);
            // coset points: x_i = offset * g^fp * w^i with w = g^(row_len) (the fold-th root of unity)
            let g = B::get_root_of_unity(lde.ilog2());
            let xe = B::GENERATOR * g.exp((fp as u64).into());
            let w = g.exp((row_len as u64).into());
            let xs: Vec<E> = (0..fold).map(|i| E::from(xe * w.exp((i as u64).into()))).collect();
            let alpha = ch.alphas[0];
            let lag = |i: usize| -> E {
                let mut num = E::ONE;
                let mut den = E::ONE;
                for (t, x) in xs.iter().enumerate() {
                    if t != i {
                        num *= alpha - *x;
                        den *= xs[i] - *x;
                    }
                }
                num / den
            };
            let (lj, lk) = (lag(j), lag(k));
            let mut f = split_fri(&forged.fri_proof);
            let vals = &mut f.layers[0].0;
            let vj: E = get(vals, ri * fold + j);
            let vk: E = get(vals, ri * fold + k);
            put(vals, ri * fold + j, vj + lk);
            put(vals, ri * fold + k, vk - lj);
            forged.fri_proof = join_fri(&f);
        },
        _ => return skip("unknown kind"),
    }
    let fbytes = forged.to_bytes();
    let changed = fbytes != bytes;
    // vacuity guard: with openings unchecked the real verifier must accept the forged proof
    // (the remainder is not opened through the vector commitment: for it the guard is the direct
    // check above that the substitute agrees with the committed one at every queried point)
    let blind = if kind == "remainder" {
        if remainder_consistent { "accept".to_string() } else { "inconsistent forgery".to_string() }
    } else {
        verify_blind::<B, H>(Proof::from_bytes(&fbytes).unwrap(), pi.clone(), &acc)
    };
    let verdict = verify_rec::<B, H>(Proof::from_bytes(&fbytes).unwrap(), pi, &acc);
    json!({"honest": honest, "forged": kind != "honest", "changed": changed, "verdict": verdict, "blind": blind,
           "positions": nq, "layers": num_layers, "comp_cols": comp_cols})
}


// TRANSCRIPT RECORDING (Fiat-Shamir binding)
// ------------------------------------------------------------------------------------------------

fn hex(b: &[u8]) -> String {
    b.iter().map(|x| format!("{x:02x}")).collect()
}

/// Abstract coin events: consecutive draws are merged into one {"e":"draw","n":k}; leading-zero checks
/// of the prover's nonce search are merged into one {"e":"lz","n":k}.
fn abstract_log() -> Vec<Value> {
    let log = LOG.with(|l| l.borrow().clone());
    let mut out: Vec<Value> = vec![];
    for e in log {
        match e {
            Ev::New(n) => out.push(json!({"e": "new", "n": n, "d": ""})),
            Ev::ReseedD(d) => out.push(json!({"e": "reseed", "n": 0, "d": hex(&d)})),
            Ev::Reseed => {},
            Ev::Draw(_) => match out.last_mut() {
                Some(l) if l["e"] == "draw" => l["n"] = json!(l["n"].as_u64().unwrap() + 1),
                _ => out.push(json!({"e": "draw", "n": 1, "d": ""})),
            },
            Ev::Lz(_) => match out.last_mut() {
                Some(l) if l["e"] == "lz" => l["n"] = json!(l["n"].as_u64().unwrap() + 1),
                _ => out.push(json!({"e": "lz", "n": 1, "d": ""})),
            },
            Ev::IntsReq(n, dom, _) => out.push(json!({"e": "ints", "n": n, "d": format!("{dom}")})),
            Ev::Ints(_) => {},
        }
    }
    out
}

/// Proves and verifies with the recording coin on both sides; returns both abstract coin event
/// sequences plus the commitments the proof carries (in order) and the digest of the OOD frame.
pub fn transcript<B, H, E>(case: &Case) -> Value
where
    B: StarkField + ExtensibleField<2> + ExtensibleField<3> + 'static,
    H: ElementHasher<BaseField = B> + Sync,
    E: FieldElement<BaseField = B>,
{
    let built = build_trace::<B>(case);
    let options = case.opts.build();
    let trace = GenTrace::new(built.desc.clone(), built.cols, built.honest_values.clone());
    let prover = GenProver::<B, H, RecCoin<H>>::new(options.clone());
    let proof = match catch(|| run_prover(&prover, trace)) {
        Ok(Ok(p)) => p,
        other => return json!({"verdict": "prover_failed", "detail": format!("{:?}", other.map(|r| r.map(|_| ())))}),
    };
    let plog = abstract_log();
    let num_segments = if built.desc.aux.is_empty() { 1 } else { 2 };
    let num_layers = proof.fri_proof.num_layers();
    let bytes = proof.to_bytes();
    let (tc, cc, fc) = match proof.commitments.clone().parse::<H>(num_segments, num_layers) {
        Ok(x) => x,
        Err(e) => return json!({"verdict": "commitments_parse_failed", "detail": format!("{e:?}")}),
    };
    let mut commitments: Vec<String> = tc.iter().map(|d| hex(&d.to_bytes())).collect();
    commitments.push(hex(&cc.to_bytes()));
    commitments.extend(fc.iter().map(|d| hex(&d.to_bytes())));
    // digest of the OOD frame as both sides must absorb it
    let main_w = built.desc.width;
    let aux_w = built.desc.aux.first().map(|a| a.width).unwrap_or(0);
    let pi = GenPub { desc: built.desc.clone(), values: built.honest_values.clone() };
    let acc = AcceptableOptions::OptionSet(vec![options]);
    let verdict = verify_rec::<B, H>(Proof::from_bytes(&bytes).unwrap(), pi, &acc);
    let vlog = abstract_log();
    let _ = (main_w, aux_w);
    let _e: Option<E> = None;
    json!({"verdict": verdict, "prover": plog, "verifier": vlog, "commitments": commitments,
           "segments": num_segments, "layers": num_layers})
}
