//! Small unsigned big integers (little-endian `u32` limbs).
//!
//! Used ONLY to compute untrusted witness hints (quotients, chain intermediates) and to solve for
//! operands with a wanted internal representation.  Nothing here decides a verdict: every hint is
//! re-checked by TLC through an equation with a unique solution (spec/lib/BigNat.tla).
use std::cmp::Ordering;

#[derive(Clone, PartialEq, Eq, Debug, Default)]
pub struct Big(pub Vec<u32>);

impl Big {
    pub fn zero() -> Big {
        Big(vec![])
    }
    pub fn one() -> Big {
        Big(vec![1])
    }
    fn norm(mut self) -> Big {
        while let Some(&0) = self.0.last() {
            self.0.pop();
        }
        self
    }
    pub fn from_u64(v: u64) -> Big {
        Big(vec![v as u32, (v >> 32) as u32]).norm()
    }
    pub fn from_u128(v: u128) -> Big {
        Big(vec![v as u32, (v >> 32) as u32, (v >> 64) as u32, (v >> 96) as u32]).norm()
    }
    pub fn to_u128(&self) -> u128 {
        assert!(self.0.len() <= 4, "Big does not fit u128");
        let mut v = 0u128;
        for (i, l) in self.0.iter().enumerate() {
            v |= (*l as u128) << (32 * i);
        }
        v
    }
    pub fn to_u64(&self) -> u64 {
        assert!(self.0.len() <= 2, "Big does not fit u64");
        self.to_u128() as u64
    }
    pub fn from_le_bytes(b: &[u8]) -> Big {
        let mut limbs = vec![0u32; b.len().div_ceil(4)];
        for (i, x) in b.iter().enumerate() {
            limbs[i / 4] |= (*x as u32) << (8 * (i % 4));
        }
        Big(limbs).norm()
    }
    /// little-endian bytes without high zero bytes
    pub fn to_le_bytes(&self) -> Vec<u8> {
        let mut out = Vec::with_capacity(self.0.len() * 4);
        for l in &self.0 {
            out.extend_from_slice(&l.to_le_bytes());
        }
        while let Some(&0) = out.last() {
            out.pop();
        }
        out
    }
    pub fn is_zero(&self) -> bool {
        self.0.is_empty()
    }
    pub fn bits(&self) -> usize {
        match self.0.last() {
            None => 0,
            Some(l) => 32 * (self.0.len() - 1) + (32 - l.leading_zeros() as usize),
        }
    }
    pub fn bit(&self, i: usize) -> bool {
        let (w, b) = (i / 32, i % 32);
        w < self.0.len() && (self.0[w] >> b) & 1 == 1
    }
    pub fn cmp(&self, o: &Big) -> Ordering {
        if self.0.len() != o.0.len() {
            return self.0.len().cmp(&o.0.len());
        }
        for i in (0..self.0.len()).rev() {
            if self.0[i] != o.0[i] {
                return self.0[i].cmp(&o.0[i]);
            }
        }
        Ordering::Equal
    }
    pub fn lt(&self, o: &Big) -> bool {
        self.cmp(o) == Ordering::Less
    }
    pub fn ge(&self, o: &Big) -> bool {
        self.cmp(o) != Ordering::Less
    }
    pub fn add(&self, o: &Big) -> Big {
        let n = self.0.len().max(o.0.len());
        let mut out = Vec::with_capacity(n + 1);
        let mut carry = 0u64;
        for i in 0..n {
            let t = *self.0.get(i).unwrap_or(&0) as u64 + *o.0.get(i).unwrap_or(&0) as u64 + carry;
            out.push(t as u32);
            carry = t >> 32;
        }
        if carry > 0 {
            out.push(carry as u32);
        }
        Big(out).norm()
    }
    /// self - o; panics if self < o
    pub fn sub(&self, o: &Big) -> Big {
        assert!(self.ge(o), "Big::sub underflow");
        let mut out = Vec::with_capacity(self.0.len());
        let mut borrow = 0i64;
        for i in 0..self.0.len() {
            let mut t = self.0[i] as i64 - *o.0.get(i).unwrap_or(&0) as i64 - borrow;
            if t < 0 {
                t += 1 << 32;
                borrow = 1;
            } else {
                borrow = 0;
            }
            out.push(t as u32);
        }
        assert_eq!(borrow, 0);
        Big(out).norm()
    }
    pub fn mul(&self, o: &Big) -> Big {
        if self.is_zero() || o.is_zero() {
            return Big::zero();
        }
        let mut out = vec![0u32; self.0.len() + o.0.len()];
        for i in 0..self.0.len() {
            let mut carry = 0u64;
            let a = self.0[i] as u64;
            for j in 0..o.0.len() {
                let t = a * o.0[j] as u64 + out[i + j] as u64 + carry;
                out[i + j] = t as u32;
                carry = t >> 32;
            }
            let mut k = i + o.0.len();
            while carry > 0 {
                let t = out[k] as u64 + carry;
                out[k] = t as u32;
                carry = t >> 32;
                k += 1;
            }
        }
        Big(out).norm()
    }
    pub fn mul_u32(&self, k: u32) -> Big {
        self.mul(&Big::from_u64(k as u64))
    }
    pub fn shl(&self, s: usize) -> Big {
        if self.is_zero() {
            return Big::zero();
        }
        let (w, b) = (s / 32, s % 32);
        let mut out = vec![0u32; w];
        let mut carry = 0u32;
        for l in &self.0 {
            if b == 0 {
                out.push(*l);
            } else {
                out.push((l << b) | carry);
                carry = l >> (32 - b);
            }
        }
        if carry > 0 {
            out.push(carry);
        }
        Big(out).norm()
    }
    pub fn shr(&self, s: usize) -> Big {
        let (w, b) = (s / 32, s % 32);
        if w >= self.0.len() {
            return Big::zero();
        }
        let src = &self.0[w..];
        let mut out = Vec::with_capacity(src.len());
        for i in 0..src.len() {
            if b == 0 {
                out.push(src[i]);
            } else {
                let hi = if i + 1 < src.len() { src[i + 1] << (32 - b) } else { 0 };
                out.push((src[i] >> b) | hi);
            }
        }
        Big(out).norm()
    }
    pub fn pow2(k: usize) -> Big {
        Big::one().shl(k)
    }
    /// (quotient, remainder); Knuth algorithm D
    pub fn divrem(&self, d: &Big) -> (Big, Big) {
        assert!(!d.is_zero(), "Big::divrem by zero");
        if self.lt(d) {
            return (Big::zero(), self.clone());
        }
        if d.0.len() == 1 {
            let dv = d.0[0] as u64;
            let mut q = vec![0u32; self.0.len()];
            let mut rem = 0u64;
            for i in (0..self.0.len()).rev() {
                let t = (rem << 32) | self.0[i] as u64;
                q[i] = (t / dv) as u32;
                rem = t % dv;
            }
            return (Big(q).norm(), Big::from_u64(rem));
        }
        let s = d.0.last().unwrap().leading_zeros() as usize;
        let v = d.shl(s).0;
        let mut u = self.shl(s).0;
        let n = v.len();
        if u.len() == self.0.len() {
            u.push(0);
        }
        // u has m + n + 1 limbs
        let m = u.len() - n - 1;
        let mut q = vec![0u32; m + 1];
        const B: u64 = 1 << 32;
        for j in (0..=m).rev() {
            let num = ((u[j + n] as u64) << 32) | u[j + n - 1] as u64;
            let mut qhat = num / v[n - 1] as u64;
            let mut rhat = num % v[n - 1] as u64;
            while qhat >= B || qhat * v[n - 2] as u64 > ((rhat << 32) | u[j + n - 2] as u64) {
                qhat -= 1;
                rhat += v[n - 1] as u64;
                if rhat >= B {
                    break;
                }
            }
            let mut borrow = 0i64;
            let mut carry = 0u64;
            for i in 0..n {
                let p = qhat * v[i] as u64 + carry;
                carry = p >> 32;
                let t = u[i + j] as i64 - borrow - (p & 0xffff_ffff) as i64;
                u[i + j] = t as u32;
                borrow = if t < 0 { 1 } else { 0 };
            }
            let t = u[j + n] as i64 - borrow - carry as i64;
            u[j + n] = t as u32;
            if t < 0 {
                qhat -= 1;
                let mut c = 0u64;
                for i in 0..n {
                    let t = u[i + j] as u64 + v[i] as u64 + c;
                    u[i + j] = t as u32;
                    c = t >> 32;
                }
                u[j + n] = (u[j + n] as u64 + c) as u32;
            }
            q[j] = qhat as u32;
        }
        u.truncate(n);
        (Big(q).norm(), Big(u).norm().shr(s))
    }
    pub fn rem(&self, d: &Big) -> Big {
        self.divrem(d).1
    }
    pub fn mulmod(&self, o: &Big, p: &Big) -> Big {
        self.mul(o).rem(p)
    }
    pub fn powmod(&self, e: &Big, p: &Big) -> Big {
        let mut acc = Big::one().rem(p);
        for i in (0..e.bits()).rev() {
            acc = acc.mulmod(&acc, p);
            if e.bit(i) {
                acc = acc.mulmod(self, p);
            }
        }
        acc
    }
}

/// Deterministic self-test against native u128 arithmetic (run by every check; a failure is a tool
/// error of the harness, never a verdict about winterfell).
pub fn selftest() -> Result<usize, String> {
    let mut s = 0x9e3779b97f4a7c15u64;
    let mut next = move || {
        s = s.wrapping_add(0x9e3779b97f4a7c15);
        let mut z = s;
        z = (z ^ (z >> 30)).wrapping_mul(0xbf58476d1ce4e5b9);
        z = (z ^ (z >> 27)).wrapping_mul(0x94d049bb133111eb);
        z ^ (z >> 31)
    };
    let mut n = 0usize;
    let specials: [u64; 10] =
        [0, 1, 2, 0xffff_ffff, 0x1_0000_0000, 0x8000_0000_0000_0000, u64::MAX, u64::MAX - 1, 0xffffffff00000001, 0x3fffc88000000001];
    for round in 0..20000usize {
        let pick = |r: u64, next: &mut dyn FnMut() -> u64| -> u64 {
            match r % 4 {
                0 => specials[(next() % 10) as usize],
                1 => next() >> (next() % 64),
                _ => next(),
            }
        };
        let r = next();
        let a = pick(r, &mut next);
        let b = pick(r >> 2, &mut next);
        let c = pick(r >> 4, &mut next);
        let d = pick(r >> 6, &mut next);
        let (ba, bb) = (Big::from_u64(a), Big::from_u64(b));
        // product and sum against u128
        let prod = (a as u128) * (b as u128);
        if ba.mul(&bb).to_u128() != prod {
            return Err(format!("mul {a} {b}"));
        }
        let x = ((c as u128) << 64) | d as u128;
        let bx = Big::from_u128(x);
        if x != 0 {
            // (a*b) divrem x when x fits; and wide: (a*b*c + d) divrem (x)
            let (q, r) = Big::from_u128(prod).divrem(&bx);
            if q.to_u128() != prod / x || r.to_u128() != prod % x {
                return Err(format!("divrem {prod} {x}"));
            }
            let wide = ba.mul(&bb).mul(&Big::from_u64(c | 1)).add(&Big::from_u64(d));
            let (q, r) = wide.divrem(&bx);
            if !r.lt(&bx) || q.mul(&bx).add(&r) != wide {
                return Err(format!("wide divrem round {round}"));
            }
            let wide2 = bx.mul(&bx).mul(&ba);
            let dd = Big::from_u128(prod | 1);
            let (q, r) = wide2.divrem(&dd);
            if !r.lt(&dd) || q.mul(&dd).add(&r) != wide2 {
                return Err(format!("wide2 divrem round {round}"));
            }
        }
        let sum = Big::from_u128(prod).add(&bx);
        if sum.sub(&bx) != Big::from_u128(prod) {
            return Err(format!("add/sub {prod} {x}"));
        }
        if Big::from_le_bytes(&bx.to_le_bytes()) != bx {
            return Err("bytes".into());
        }
        let sh = (r % 200) as usize;
        if bx.shl(sh).shr(sh) != bx {
            return Err("shift".into());
        }
        n += 1;
    }
    // Fermat on the three moduli
    for p in [0xffffffff00000001u128, 4611624995532046337u128, 340282366920938463463374557953744961537u128] {
        let bp = Big::from_u128(p);
        let e = bp.sub(&Big::one());
        for g in [2u64, 3, 7, 0xdeadbeef] {
            if Big::from_u64(g).powmod(&e, &bp) != Big::one() {
                return Err(format!("fermat {p} {g}"));
            }
        }
    }
    Ok(n)
}
