//! C11 (encodings): replays decoder cases generated from spec/field/FieldEnc.tla on the real decoders.
//! Expected outcomes (ok + canonical coordinates + re-encoding, or err) come from the specification; the
//! comparison here is plain equality.
use serde_json::{json, Value};
use wfcommon::util::{bytes_of, catch, json_bytes, read_ndjson, Out};
use winter_math::{
    fields::{f128, f62, f64, CubeExtension, QuadExtension},
    FieldElement, StarkField,
};
use winter_utils::{ByteReader, Deserializable, Randomizable, Serializable, SliceReader};

use crate::{
    big::Big,
    rec::{Base, Elem},
};

type B<E> = <E as FieldElement>::BaseField;

fn le_u128(b: &[u8]) -> u128 {
    let mut v = 0u128;
    for (i, x) in b.iter().enumerate().take(16) {
        v |= (*x as u128) << (8 * i);
    }
    v
}

/// runs the decoder: Ok(elements) / Err(()) ; panics are caught by the caller
fn decode<E: Elem>(dec: &str, inp: &[u8], n: usize, alt: bool) -> Result<Vec<E>, ()>
where
    B<E>: Base,
{
    match dec {
        "slice" => E::try_from(inp).map(|e| vec![e]).map_err(|_| ()),
        "random" => E::from_random_bytes(inp).map(|e| vec![e]).ok_or(()),
        "read" => {
            if alt {
                E::read_from_bytes(inp).map(|e| vec![e]).map_err(|_| ())
            } else {
                E::read_from(&mut SliceReader::new(inp)).map(|e| vec![e]).map_err(|_| ())
            }
        },
        "u64" => E::try_from(le_u128(inp) as u64).map(|e| vec![e]).map_err(|_| ()),
        "u128" => E::try_from(le_u128(inp)).map(|e| vec![e]).map_err(|_| ()),
        "arr8" => {
            let mut a = [0u8; 8];
            a.copy_from_slice(&inp[..8]);
            match <B<E>>::try_arr8(a) {
                Some(Some(b)) => Ok(vec![E::from(b)]),
                Some(None) => Err(()),
                None => panic!("arr8 decoder not available"),
            }
        },
        "padded" => Ok(vec![E::from(<B<E>>::from_bytes_with_padding(inp))]),
        "many" => SliceReader::new(inp).read_many::<E>(n).map_err(|_| ()),
        // elements produced by constructors / arithmetic (observed through the encoders by the caller)
        "new" => Ok(vec![E::from(<B<E>>::new_from_le(inp))]),
        "zneg" | "zsub" | "zmul" => {
            let x = E::try_from(inp).map_err(|_| ())?;
            Ok(vec![match dec {
                "zneg" => x + (-x),
                "zsub" => x - x,
                _ => {
                    let y = x + E::ONE;
                    (x * y) + (-(y * x))
                },
            }])
        },
        "addc" => {
            let half = inp.len() / 2;
            let a = E::try_from(&inp[..half]).map_err(|_| ())?;
            let b = E::try_from(&inp[half..]).map_err(|_| ())?;
            Ok(vec![a + b])
        },
        _ => panic!("unknown decoder {dec}"),
    }
}

fn coords_json<E: Elem>(e: &E) -> Value
where
    B<E>: Base,
{
    Value::Array((0..E::D).map(|i| json_bytes(&e.base_element(i).int_big().to_le_bytes())).collect())
}

fn run_case<E: Elem>(idx: usize, c: &Value) -> Option<Value>
where
    B<E>: Base,
{
    let dec = c["dec"].as_str().unwrap_or("");
    let inp = bytes_of(&c["inp"]);
    let n = c["n"].as_u64().unwrap_or(0) as usize;
    let exp_t = c["exp"]["t"].as_str().unwrap_or("");
    let got = catch(|| decode::<E>(dec, &inp, n, idx % 2 == 1));
    let fail = |got_t: &str, extra: Value| {
        Some(json!({"dec": dec, "f": c["f"], "d": c["d"], "inp": c["inp"], "n": n, "expected": c["exp"], "got": got_t, "detail": extra}))
    };
    match got {
        Err(p) => fail("panic", json!(p)),
        Ok(Err(())) => {
            if exp_t == "err" {
                None
            } else {
                fail("err", Value::Null)
            }
        },
        Ok(Ok(elems)) => {
            if exp_t != "ok" {
                return fail("ok", json!(elems.iter().map(coords_json::<E>).collect::<Vec<_>>()));
            }
            // canonical values
            let v = if dec == "many" {
                Value::Array(elems.iter().map(coords_json::<E>).collect())
            } else {
                coords_json::<E>(&elems[0])
            };
            if v != c["exp"]["v"] {
                return fail("ok", json!({"v": v}));
            }
            // re-encoding: to_bytes / write_into give the canonical little-endian bytes back
            let mut enc = vec![];
            for (i, e) in elems.iter().enumerate() {
                if (idx + i) % 2 == 0 {
                    enc.extend_from_slice(&e.to_bytes());
                } else {
                    e.write_into(&mut enc);
                }
            }
            if enc != bytes_of(&c["exp"]["enc"]) {
                return fail("ok", json!({"enc": json_bytes(&enc)}));
            }
            // integer conversions agree with the canonical value
            for e in &elems {
                for i in 0..E::D {
                    let b = e.base_element(i);
                    if let Some(x) = b.to_u128_conv() {
                        if Big::from_u128(x) != b.int_big() {
                            return fail("ok", json!({"into_int": x.to_string()}));
                        }
                    }
                }
            }
            None
        },
    }
}

pub trait BaseConv: StarkField {
    /// `BaseElement::new` on the integer given by its little-endian bytes
    fn new_from_le(b: &[u8]) -> Self;
    fn try_arr8(a: [u8; 8]) -> Option<Option<Self>>;
    fn to_u128_conv(&self) -> Option<u128>;
}
impl BaseConv for f64::BaseElement {
    fn new_from_le(b: &[u8]) -> Self {
        Self::new(le_u128(b) as u64)
    }
    fn try_arr8(a: [u8; 8]) -> Option<Option<Self>> {
        Some(Self::try_from(a).ok())
    }
    fn to_u128_conv(&self) -> Option<u128> {
        let (a, b): (u64, u128) = ((*self).into(), (*self).into());
        if a as u128 != b {
            return Some(u128::MAX);
        }
        Some(b)
    }
}
impl BaseConv for f62::BaseElement {
    fn new_from_le(b: &[u8]) -> Self {
        Self::new(le_u128(b) as u64)
    }
    fn try_arr8(a: [u8; 8]) -> Option<Option<Self>> {
        Some(Self::try_from(a).ok())
    }
    fn to_u128_conv(&self) -> Option<u128> {
        let (a, b): (u64, u128) = ((*self).into(), (*self).into());
        if a as u128 != b {
            return Some(u128::MAX);
        }
        Some(b)
    }
}
impl BaseConv for f128::BaseElement {
    fn new_from_le(b: &[u8]) -> Self {
        Self::new(le_u128(b))
    }
    fn try_arr8(_a: [u8; 8]) -> Option<Option<Self>> {
        None
    }
    fn to_u128_conv(&self) -> Option<u128> {
        None
    }
}

pub fn main(args: &[String]) -> i32 {
    let cases = read_ndjson(&args[0]);
    let mut out = Out::new();
    let mut bad = 0usize;
    for (i, c) in cases.iter().enumerate() {
        let r = match (c["f"].as_str().unwrap_or(""), c["d"].as_u64().unwrap_or(0)) {
            ("f64", 1) => run_case::<f64::BaseElement>(i, c),
            ("f64", 2) => run_case::<QuadExtension<f64::BaseElement>>(i, c),
            ("f64", 3) => run_case::<CubeExtension<f64::BaseElement>>(i, c),
            ("f62", 1) => run_case::<f62::BaseElement>(i, c),
            ("f62", 2) => run_case::<QuadExtension<f62::BaseElement>>(i, c),
            ("f62", 3) => run_case::<CubeExtension<f62::BaseElement>>(i, c),
            ("f128", 1) => run_case::<f128::BaseElement>(i, c),
            ("f128", 2) => run_case::<QuadExtension<f128::BaseElement>>(i, c),
            _ => Some(json!({"error": "unsupported case"})),
        };
        if let Some(d) = r {
            bad += 1;
            out.emit(&json!({"i": i, "ok": false, "detail": d}));
        }
    }
    out.emit(&json!({"summary": true, "cases": cases.len(), "mismatches": bad}));
    out.flush();
    0
}
