//! Witness hints for TraceFieldOps.tla / FieldConst.tla: exact arithmetic modulo the documented prime
//! and extension polynomial over `Big`.  Everything computed here is UNTRUSTED input to TLC: quotient
//! hints and chain intermediates are checked by equations with unique solutions.
use serde_json::{json, Value};

use crate::big::Big;

pub fn modulus_of(name: &str) -> Big {
    match name {
        "f64" => Big::from_u128(0xffffffff00000001),
        "f62" => Big::from_u128(4611624995532046337),
        "f128" => Big::from_u128(340282366920938463463374557953744961537),
        _ => panic!("unknown field {name}"),
    }
}

/// x^d = sum red[i] x^i — the documented irreducible polynomials (doc comments of the
/// ExtensibleField impls): f64: x^2 - x + 2, x^3 - x - 1; f62: x^2 - x - 1, x^3 + 2x + 2; f128: x^2 - x - 1.
pub fn red_of(name: &str, d: usize) -> Vec<i64> {
    match (name, d) {
        (_, 1) => vec![],
        ("f64", 2) => vec![-2, 1],
        ("f64", 3) => vec![1, 1, 0],
        ("f62", 2) => vec![1, 1],
        ("f62", 3) => vec![-2, -2, 0],
        ("f128", 2) => vec![1, 1],
        _ => panic!("unsupported extension {name} degree {d}"),
    }
}

#[derive(Clone)]
pub struct Fs {
    pub name: &'static str,
    pub d: usize,
    pub p: Big,
    pub red: Vec<i64>,
    /// tab[k][i] = coefficient of x^i in x^k mod f, k in 0..2d-1
    pub tab: Vec<Vec<i64>>,
    frob: Vec<Vec<Big>>,
}

pub type Coords = Vec<Big>;

pub fn jbytes(b: &Big) -> Value {
    Value::Array(b.to_le_bytes().iter().map(|x| Value::from(*x as u64)).collect())
}
pub fn jcoords(c: &[Big]) -> Value {
    Value::Array(c.iter().map(jbytes).collect())
}
pub fn jraw(b: &[u8]) -> Value {
    Value::Array(b.iter().map(|x| Value::from(*x as u64)).collect())
}

impl Fs {
    pub fn new(name: &'static str, d: usize) -> Fs {
        let red = red_of(name, d);
        let mut tab: Vec<Vec<i64>> = Vec::new();
        for k in 0..(2 * d - 1) {
            if k < d {
                tab.push((0..d).map(|i| (i == k) as i64).collect());
            } else {
                let v = tab[k - 1].clone();
                tab.push((0..d).map(|i| (if i > 0 { v[i - 1] } else { 0 }) + v[d - 1] * red[i]).collect());
            }
        }
        let mut fs = Fs { name, d, p: modulus_of(name), red, tab, frob: vec![] };
        // images of 1, x, x^2 under the p-th power map
        let mut imgs = vec![];
        for k in 0..d {
            let mut xk = vec![Big::zero(); d];
            xk[k] = Big::one();
            let p = fs.p.clone();
            imgs.push(fs.pow_exact(&xk, &p));
        }
        fs.frob = imgs;
        fs
    }
    pub fn label(&self) -> String {
        if self.d == 1 {
            self.name.to_string()
        } else {
            format!("{}x{}", self.name, self.d)
        }
    }
    pub fn one(&self) -> Coords {
        let mut v = vec![Big::zero(); self.d];
        v[0] = Big::one();
        v
    }
    pub fn zero(&self) -> Coords {
        vec![Big::zero(); self.d]
    }
    pub fn is_zero(&self, a: &[Big]) -> bool {
        a.iter().all(|x| x.is_zero())
    }
    /// (positive part, negative part) of every output coordinate of a*b as integers
    fn posneg(&self, a: &[Big], b: &[Big]) -> Vec<(Big, Big)> {
        let d = self.d;
        let mut c = vec![Big::zero(); 2 * d - 1];
        for i in 0..d {
            for j in 0..d {
                c[i + j] = c[i + j].add(&a[i].mul(&b[j]));
            }
        }
        (0..d)
            .map(|i| {
                let mut pos = Big::zero();
                let mut neg = Big::zero();
                for k in 0..(2 * d - 1) {
                    let t = self.tab[k][i];
                    if t > 0 {
                        pos = pos.add(&c[k].mul_u32(t as u32));
                    } else if t < 0 {
                        neg = neg.add(&c[k].mul_u32((-t) as u32));
                    }
                }
                (pos, neg)
            })
            .collect()
    }
    pub fn mul_exact(&self, a: &[Big], b: &[Big]) -> Coords {
        self.posneg(a, b)
            .into_iter()
            .map(|(pos, neg)| {
                let pr = pos.rem(&self.p);
                let nr = neg.rem(&self.p);
                if pr.ge(&nr) {
                    pr.sub(&nr)
                } else {
                    pr.add(&self.p).sub(&nr)
                }
            })
            .collect()
    }
    /// hints for the claim a*b = r: per coordinate {s, q} with pos = neg + r + q p (s=0) or
    /// pos + q p = neg + r (s=1)
    pub fn mul_hints(&self, a: &[Big], b: &[Big], r: &[Big]) -> Value {
        let pn = self.posneg(a, b);
        Value::Array(
            (0..self.d)
                .map(|i| {
                    let (pos, neg) = &pn[i];
                    let rhs = neg.add(&r[i]);
                    if pos.ge(&rhs) {
                        json!({"s": 0, "q": jbytes(&pos.sub(&rhs).divrem(&self.p).0)})
                    } else {
                        json!({"s": 1, "q": jbytes(&rhs.sub(pos).divrem(&self.p).0)})
                    }
                })
                .collect(),
        )
    }
    pub fn pow_exact(&self, a: &[Big], e: &Big) -> Coords {
        let mut acc = self.one();
        for i in (0..e.bits()).rev() {
            acc = self.mul_exact(&acc, &acc);
            if e.bit(i) {
                acc = self.mul_exact(&acc, a);
            }
        }
        acc
    }
    /// square-and-multiply chain for a^e, starting from acc = a at the top bit; one link per
    /// remaining bit: {s, hs} (acc^2) and, when the bit is set, {m, hm} ((acc^2)*a).
    pub fn exp_chain(&self, a: &[Big], e: &Big) -> (Value, Coords) {
        let n = e.bits();
        if n == 0 {
            return (Value::Array(vec![]), self.one());
        }
        let mut acc: Coords = a.to_vec();
        let mut links = Vec::with_capacity(n - 1);
        for j in (0..n - 1).rev() {
            let s = self.mul_exact(&acc, &acc);
            let hs = self.mul_hints(&acc, &acc, &s);
            if e.bit(j) {
                let m = self.mul_exact(&s, a);
                let hm = self.mul_hints(&s, a, &m);
                links.push(json!({"s": jcoords(&s), "hs": hs, "m": jcoords(&m), "hm": hm}));
                acc = m;
            } else {
                links.push(json!({"s": jcoords(&s), "hs": hs}));
                acc = s;
            }
        }
        (Value::Array(links), acc)
    }
    pub fn frob_img(&self, k: usize) -> &Coords {
        &self.frob[k]
    }
    /// hints for the claim r = sum_k a_k * Frob(x^k): one quotient per output coordinate
    pub fn conj_hints(&self, a: &[Big], r: &[Big]) -> Value {
        Value::Array(
            (0..self.d)
                .map(|i| {
                    let mut s = Big::zero();
                    for k in 0..self.d {
                        s = s.add(&a[k].mul(&self.frob[k][i]));
                    }
                    let q = if s.ge(&r[i]) { s.sub(&r[i]).divrem(&self.p).0 } else { Big::zero() };
                    json!({"q": jbytes(&q)})
                })
                .collect(),
        )
    }
    /// quotient hint of x = q p + r
    pub fn div_hint(&self, x: &Big, r: &Big) -> Big {
        if x.ge(r) {
            x.sub(r).divrem(&self.p).0
        } else {
            Big::zero()
        }
    }
    /// per-coordinate quotient hints for a_i * b = r_i
    pub fn mul_base_hints(&self, a: &[Big], b: &Big, r: &[Big]) -> Value {
        Value::Array((0..self.d).map(|i| json!({"q": jbytes(&self.div_hint(&a[i].mul(b), &r[i]))})).collect())
    }
}
