//! C10 recorder (child side): drives the real field code — f64, f62, f128 and their quadratic / cubic
//! extensions — through every public arithmetic operation on boundary-biased operands, directed
//! representation-class scenarios and random operation chains, and prints one ndjson event per call.
//!
//! Protocol (stdout): before every call a `{"B":1,...}` line with the operands is printed and flushed,
//! after the call the complete event line.  The parent (watch.rs) turns a `B` line that is never
//! followed by its event into a timeout / crash event.  Verdicts come from TLC only
//! (spec/field/TraceFieldOps.tla); `hint.rs` supplies untrusted witnesses.
use std::io::Write;

use serde_json::{json, Map, Value};
use wfcommon::util::catch;
use winter_math::{
    fields::{f128, f62, f64, CubeExtension, QuadExtension},
    ExtensibleField, ExtensionOf, FieldElement, StarkField,
};
use winter_utils::AsBytes;

use crate::{
    big::Big,
    hint::{jbytes, jcoords, jraw, Fs},
};

// ------------------------------------------------------------------------------------------------
// glue traits
// ------------------------------------------------------------------------------------------------
pub trait Base: StarkField + ExtensibleField<2> + ExtensibleField<3> + crate::dec::BaseConv + 'static {
    const NAME: &'static str;
    /// width in bits of the integer accepted by `new`
    const NEW_BITS: usize;
    fn new_big(v: &Big) -> Self;
    fn int_big(&self) -> Big;
    fn modulus_big() -> Big;
    fn pow_of(e: &Big) -> Self::PositiveInteger;
    const POW_BITS: usize;
    fn from_mont(_m: u64) -> Option<Self> {
        None
    }
    fn mul_small(self, _k: u32) -> Option<Self> {
        None
    }
    /// From<u8/u16/u32/...> conversions the field offers: (label, bit width) of kind k
    fn small_kinds() -> &'static [(&'static str, u32)];
    /// runs conversion `label` on v (already masked to the width)
    fn from_small(label: &str, v: u64) -> Self;
}

impl Base for f64::BaseElement {
    const NAME: &'static str = "f64";
    const NEW_BITS: usize = 64;
    const POW_BITS: usize = 64;
    fn new_big(v: &Big) -> Self {
        Self::new(v.to_u64())
    }
    fn int_big(&self) -> Big {
        Big::from_u64(StarkField::as_int(self))
    }
    fn modulus_big() -> Big {
        Big::from_u64(<Self as StarkField>::MODULUS)
    }
    fn pow_of(e: &Big) -> u64 {
        e.to_u64()
    }
    fn from_mont(m: u64) -> Option<Self> {
        Some(f64::BaseElement::from_mont(m))
    }
    fn mul_small(self, k: u32) -> Option<Self> {
        Some(f64::BaseElement::mul_small(self, k))
    }
    fn small_kinds() -> &'static [(&'static str, u32)] {
        &[("from_u8", 8), ("from_u16", 16), ("from_u32", 32), ("from_bool", 1)]
    }
    fn from_small(label: &str, v: u64) -> Self {
        match label {
            "from_u8" => Self::from(v as u8),
            "from_u16" => Self::from(v as u16),
            "from_u32" => Self::from(v as u32),
            _ => Self::from(v == 1),
        }
    }
}

impl Base for f62::BaseElement {
    const NAME: &'static str = "f62";
    const NEW_BITS: usize = 64;
    const POW_BITS: usize = 64;
    fn new_big(v: &Big) -> Self {
        Self::new(v.to_u64())
    }
    fn int_big(&self) -> Big {
        Big::from_u64(StarkField::as_int(self))
    }
    fn modulus_big() -> Big {
        Big::from_u64(<Self as StarkField>::MODULUS)
    }
    fn pow_of(e: &Big) -> u64 {
        e.to_u64()
    }
    fn small_kinds() -> &'static [(&'static str, u32)] {
        &[("from_u8", 8), ("from_u16", 16), ("from_u32", 32)]
    }
    fn from_small(label: &str, v: u64) -> Self {
        match label {
            "from_u8" => Self::from(v as u8),
            "from_u16" => Self::from(v as u16),
            _ => Self::from(v as u32),
        }
    }
}

impl Base for f128::BaseElement {
    const NAME: &'static str = "f128";
    const NEW_BITS: usize = 128;
    const POW_BITS: usize = 128;
    fn new_big(v: &Big) -> Self {
        Self::new(v.to_u128())
    }
    fn int_big(&self) -> Big {
        Big::from_u128(StarkField::as_int(self))
    }
    fn modulus_big() -> Big {
        Big::from_u128(<Self as StarkField>::MODULUS)
    }
    fn pow_of(e: &Big) -> u128 {
        e.to_u128()
    }
    fn small_kinds() -> &'static [(&'static str, u32)] {
        &[("from_u8", 8), ("from_u16", 16), ("from_u32", 32), ("from_u64", 64)]
    }
    fn from_small(label: &str, v: u64) -> Self {
        match label {
            "from_u8" => Self::from(v as u8),
            "from_u16" => Self::from(v as u16),
            "from_u32" => Self::from(v as u32),
            _ => Self::from(v),
        }
    }
}

pub trait Elem: FieldElement + ExtensionOf<<Self as FieldElement>::BaseField> + 'static
where
    <Self as FieldElement>::BaseField: Base,
{
    const D: usize;
    fn build(c: &[Self::BaseField]) -> Self;
    fn pw(e: &Big) -> <Self as FieldElement>::PositiveInteger;
}

macro_rules! impl_elem {
    ($m:ident) => {
        impl Elem for $m::BaseElement {
            const D: usize = 1;
            fn build(c: &[Self]) -> Self {
                c[0]
            }
            fn pw(e: &Big) -> <Self as FieldElement>::PositiveInteger {
                <$m::BaseElement as Base>::pow_of(e)
            }
        }
        impl Elem for QuadExtension<$m::BaseElement> {
            const D: usize = 2;
            fn build(c: &[$m::BaseElement]) -> Self {
                QuadExtension::new(c[0], c[1])
            }
            fn pw(e: &Big) -> <Self as FieldElement>::PositiveInteger {
                <$m::BaseElement as Base>::pow_of(e)
            }
        }
    };
}
impl_elem!(f64);
impl_elem!(f62);
impl_elem!(f128);
impl Elem for CubeExtension<f64::BaseElement> {
    const D: usize = 3;
    fn build(c: &[f64::BaseElement]) -> Self {
        CubeExtension::new(c[0], c[1], c[2])
    }
    fn pw(e: &Big) -> <Self as FieldElement>::PositiveInteger {
        <f64::BaseElement as Base>::pow_of(e)
    }
}
impl Elem for CubeExtension<f62::BaseElement> {
    const D: usize = 3;
    fn build(c: &[f62::BaseElement]) -> Self {
        CubeExtension::new(c[0], c[1], c[2])
    }
    fn pw(e: &Big) -> <Self as FieldElement>::PositiveInteger {
        <f62::BaseElement as Base>::pow_of(e)
    }
}

// ------------------------------------------------------------------------------------------------
// rng (splitmix64), deterministic per (seed, combo, scenario)
// ------------------------------------------------------------------------------------------------
pub struct Rng(u64);
impl Rng {
    pub fn new(seed: u64, a: u64, b: u64) -> Rng {
        let mut r = Rng(seed ^ 0x5851f42d4c957f2d);
        r.0 = r.next().wrapping_add(a.wrapping_mul(0x9e3779b97f4a7c15));
        r.0 = r.next().wrapping_add(b.wrapping_mul(0xd1342543de82ef95));
        r.next();
        r
    }
    pub fn next(&mut self) -> u64 {
        self.0 = self.0.wrapping_add(0x9e3779b97f4a7c15);
        let mut z = self.0;
        z = (z ^ (z >> 30)).wrapping_mul(0xbf58476d1ce4e5b9);
        z = (z ^ (z >> 27)).wrapping_mul(0x94d049bb133111eb);
        z ^ (z >> 31)
    }
    pub fn below(&mut self, n: u64) -> u64 {
        self.next() % n
    }
    pub fn pick<'a, T>(&mut self, s: &'a [T]) -> &'a T {
        &s[self.below(s.len() as u64) as usize]
    }
    pub fn big_bits(&mut self, bits: usize) -> Big {
        let v = ((self.next() as u128) << 64) | self.next() as u128;
        let b = Big::from_u128(v);
        if bits >= 128 {
            b
        } else {
            b.rem(&Big::pow2(bits))
        }
    }
}

// ------------------------------------------------------------------------------------------------
// recorder context
// ------------------------------------------------------------------------------------------------
type B<E> = <E as FieldElement>::BaseField;

#[derive(Clone, Copy)]
pub struct V<E> {
    e: E,
    /// reporting only: operation that first produced an out-of-range internal representation
    taint: Option<&'static str>,
    /// reporting only (f64 extensions): derived from an extension operation one of whose internal
    /// base products has its Montgomery form in the `double` band [ceil(p/2), 2^63)
    band: bool,
}

pub struct Ctx<E: Elem>
where
    B<E>: Base,
{
    fs: Fs,
    fb: Fs,
    rinv: Big,
    out: std::io::BufWriter<std::io::Stdout>,
    sc: u64,
    k: u32,
    rng: Rng,
    dir: Option<&'static str>,
    /// set by the parent after several confirmed hangs of f62 inv/div on the zero-as-M class: further
    /// calls of exactly that class are skipped (and counted) so that one known defect cannot cost
    /// minutes of watchdog time
    skip_zero_m: bool,
    /// quick tier: fewer / shorter square-and-multiply chains (TLC cost is ~30 ms per link)
    quick: bool,
    /// C11 recorder: `mk` must build exactly the requested value (no From<small int> detours)
    exact_new: bool,
    _e: std::marker::PhantomData<E>,
}

fn class_rank(c: &str) -> u32 {
    match c {
        "ok" => 0,
        "lazy" => 1,
        "zeroM" => 2,
        _ => 3,
    }
}

impl<E: Elem> Ctx<E>
where
    B<E>: Base,
{
    pub fn new(seed: u64, combo: u64) -> Self {
        let name = <B<E> as Base>::NAME;
        let fb = Fs::new(name, 1);
        let r = Big::pow2(64).rem(&fb.p);
        let rinv = r.powmod(&fb.p.sub(&Big::from_u64(2)), &fb.p);
        Ctx {
            fs: Fs::new(name, E::D),
            fb,
            rinv,
            out: std::io::BufWriter::with_capacity(1 << 16, std::io::stdout()),
            sc: 0,
            k: 0,
            rng: Rng::new(seed, combo, 0),
            dir: None,
            skip_zero_m: false,
            quick: true,
            exact_new: false,
            _e: std::marker::PhantomData,
        }
    }
    fn skip(&mut self, op: &str, v: &V<E>) -> bool {
        if self.skip_zero_m && self.fs.name == "f62" && E::D == 1 && self.class(&v.e) == "zeroM" {
            let m = json!({"skip": 1, "f": "f62", "op": op, "sc": self.sc});
            serde_json::to_writer(&mut self.out, &m).unwrap();
            self.out.write_all(b"\n").unwrap();
            return true;
        }
        false
    }

    // -- observation helpers ------------------------------------------------------------------
    fn coords_b(e: &E) -> Vec<B<E>> {
        (0..E::D).map(|i| e.base_element(i)).collect()
    }
    fn coords(e: &E) -> Vec<Big> {
        Self::coords_b(e).iter().map(|c| c.int_big()).collect()
    }
    /// classification of the internal representation (signature / taint only, never a verdict)
    fn class(&self, e: &E) -> &'static str {
        let p = &self.fb.p;
        let mut worst = "ok";
        for c in Self::coords_b(e) {
            let raw = Big::from_le_bytes(c.as_bytes());
            let cl = match self.fs.name {
                "f62" => {
                    if &raw == p {
                        "zeroM"
                    } else if raw.ge(&p.add(p)) {
                        "out"
                    } else if raw.ge(p) {
                        "lazy"
                    } else {
                        "ok"
                    }
                },
                _ => {
                    if raw.ge(p) {
                        "noncanon"
                    } else {
                        "ok"
                    }
                },
            };
            if class_rank(cl) > class_rank(worst) {
                worst = cl;
            }
        }
        worst
    }
    fn out_of_range(&self, e: &E) -> bool {
        class_rank(self.class(e)) == 3
    }
    fn wrap(&self, e: E, op: &'static str, ins: &[Option<&'static str>]) -> V<E> {
        let taint = if self.out_of_range(&e) {
            Some(ins.iter().flatten().next().copied().unwrap_or(op))
        } else {
            None
        };
        V { e, taint, band: false }
    }
    // -- "double band" footprint of f64 extension operations (reporting only) -----------------------
    // The f64 ExtensibleField formulas call double() on products (and sums of two products) of operand
    // coordinates.  To attribute a rejected extension event to the known f64::double defect, the
    // recorder checks with the public base-field API whether such a product lands in the band.
    fn in_band(&self, b: &B<E>) -> bool {
        let raw = Big::from_le_bytes(b.as_bytes());
        let half = self.fb.p.add(&Big::one()).shr(1);
        raw.ge(&half) && raw.lt(&Big::pow2(63))
    }
    fn fp_mul(&self, a: &E, b: &E) -> bool {
        let (ac, bc) = (Self::coords_b(a), Self::coords_b(b));
        let mut prods = vec![];
        for x in &ac {
            for y in &bc {
                prods.push(*x * *y);
            }
        }
        for (i, x) in prods.iter().enumerate() {
            if self.in_band(x) {
                return true;
            }
            for y in &prods[i + 1..] {
                if self.in_band(&(*x + *y)) {
                    return true;
                }
            }
        }
        false
    }
    /// mirrors the public decomposition of composite operations into extension products
    fn footprint(&self, op: &str, a: &E, b: Option<&E>, e: Option<&Big>) -> bool {
        if self.fs.name != "f64" || E::D == 1 {
            return false;
        }
        let r = catch(|| match op {
            "mul" => self.fp_mul(a, b.unwrap()),
            "square" => self.fp_mul(a, a),
            "cube" => self.fp_mul(a, a) || self.fp_mul(&(*a * *a), a),
            "inv" | "div" => {
                let x = if op == "inv" { *a } else { *b.unwrap() };
                let c1 = x.conjugate();
                let (num, f1) = if E::D == 3 {
                    let c2 = c1.conjugate();
                    (c1 * c2, self.fp_mul(&c1, &c2))
                } else {
                    (c1, false)
                };
                f1 || self.fp_mul(&x, &num) || (op == "div" && self.fp_mul(a, &x.inv()))
            },
            "exp" => {
                let e = e.unwrap();
                let (mut r, mut bb) = (E::ONE, *a);
                let mut hit = false;
                for i in 0..e.bits() {
                    if e.bit(i) {
                        hit |= self.fp_mul(&r, &bb);
                        r *= bb;
                    }
                    hit |= self.fp_mul(&bb, &bb);
                    bb = bb.square();
                }
                hit
            },
            _ => false,
        });
        r.unwrap_or(false)
    }
    fn mark_band(&mut self, m: &mut Map<String, Value>, r: &mut V<E>, fp: bool, ins: &[bool]) {
        if fp || ins.iter().any(|x| *x) {
            r.band = true;
            m.entry("dir").or_insert(json!("f64-double-band"));
        }
    }
    fn canon(e: &E) -> E {
        let c: Vec<B<E>> = Self::coords(e).iter().map(|x| <B<E>>::new_big(x)).collect();
        E::build(&c)
    }

    fn head(&mut self, op: &str) -> Map<String, Value> {
        let mut m = Map::new();
        m.insert("f".into(), json!(self.fs.name));
        m.insert("d".into(), json!(E::D));
        m.insert("op".into(), json!(op));
        m.insert("sc".into(), json!(self.sc));
        m.insert("k".into(), json!(self.k));
        if let Some(d) = self.dir {
            m.insert("dir".into(), json!(d));
        }
        self.k += 1;
        m
    }
    fn put(&self, m: &mut Map<String, Value>, key: &str, v: &V<E>) {
        m.insert(key.into(), jcoords(&Self::coords(&v.e)));
        m.insert(format!("r{key}"), jraw(v.e.as_bytes()));
        m.insert(format!("c{key}"), json!(self.class(&v.e)));
        if let Some(t) = v.taint {
            m.insert(format!("t{key}"), json!(t));
        }
    }
    fn put_base(&self, m: &mut Map<String, Value>, key: &str, b: &B<E>) {
        m.insert(key.into(), jcoords(&[b.int_big()]));
        m.insert(format!("r{key}"), jraw(b.as_bytes()));
    }
    fn line(&mut self, m: &Map<String, Value>) {
        serde_json::to_writer(&mut self.out, m).unwrap();
        self.out.write_all(b"\n").unwrap();
    }
    /// prints the B line, runs the call under panic capture, returns the value or logs the panic
    fn call<T>(&mut self, m: &mut Map<String, Value>, f: impl FnOnce() -> T) -> Option<T> {
        m.insert("B".into(), json!(1));
        self.line(m);
        self.out.flush().unwrap();
        m.remove("B");
        match catch(f) {
            Ok(v) => Some(v),
            Err(p) => {
                m.insert("panic".into(), json!(p));
                self.line(m);
                None
            },
        }
    }
    fn finish(&mut self, mut m: Map<String, Value>, r: &V<E>, h: Option<Value>) {
        self.put(&mut m, "r", r);
        if let Some(h) = h {
            m.insert("h".into(), h);
        }
        self.line(&m);
    }

    // -- operations ---------------------------------------------------------------------------
    /// BaseElement::new(v) (or a From<small int> conversion) — logs a `new` event
    fn mk_base(&mut self, v: &Big) -> Option<B<E>> {
        let mut m = self.head("new");
        // base-level event: degree 1 regardless of E
        m.insert("d".into(), json!(1));
        let kinds = <B<E>>::small_kinds();
        let (label, width) = kinds[self.rng.below(kinds.len() as u64) as usize];
        let small = !self.exact_new && v.bits() <= 64 && self.rng.below(4) == 0;
        let (vin, e) = if small {
            let vv = if width >= 64 { v.to_u64() } else { v.to_u64() & ((1u64 << width) - 1) };
            m.insert("via".into(), json!(label));
            m.insert("v".into(), jbytes(&Big::from_u64(vv)));
            (Big::from_u64(vv), self.call(&mut m, move || <B<E>>::from_small(label, vv))?)
        } else {
            m.insert("v".into(), jbytes(v));
            let vv = v.clone();
            (v.clone(), self.call(&mut m, move || <B<E>>::new_big(&vv))?)
        };
        let r = e.int_big();
        let q = self.fb.div_hint(&vin, &r);
        m.insert("r".into(), jcoords(&[r]));
        m.insert("rr".into(), jraw(e.as_bytes()));
        m.insert("h".into(), json!([{"q": jbytes(&q)}]));
        self.line(&m);
        Some(e)
    }
    /// f64 only: BaseElement::from_mont(m), m < M
    fn mk_from_mont(&mut self, mont: u64) -> Option<B<E>> {
        let mut m = self.head("from_mont");
        m.insert("d".into(), json!(1));
        m.insert("v".into(), jbytes(&Big::from_u64(mont)));
        let e = self.call(&mut m, move || <B<E>>::from_mont(mont))??;
        let r = e.int_big();
        // r * 2^64 = q p + mont
        let q = self.fb.div_hint(&r.shl(64), &Big::from_u64(mont));
        m.insert("r".into(), jcoords(&[r]));
        m.insert("rr".into(), jraw(e.as_bytes()));
        m.insert("h".into(), json!([{"q": jbytes(&q)}]));
        self.line(&m);
        Some(e)
    }
    /// element from base coordinates (the extension constructors are plain tuple constructors)
    fn mk(&mut self, vals: &[Big]) -> Option<V<E>> {
        let mut c = Vec::new();
        for v in vals {
            c.push(self.mk_base(v)?);
        }
        let e = E::build(&c);
        Some(self.wrap(e, "new", &[]))
    }
    /// E::from(base)
    fn op_from_base(&mut self, b: B<E>) -> Option<V<E>> {
        let mut m = self.head("from");
        self.put_base(&mut m, "a", &b);
        let e = self.call(&mut m, move || E::from(b))?;
        let r = self.wrap(e, "from", &[]);
        self.finish(m, &r, None);
        Some(r)
    }

    fn unary(&mut self, op: &'static str, a: V<E>) -> Option<V<E>> {
        if op == "inv" && self.skip(op, &a) {
            return None;
        }
        let mut m = self.head(op);
        self.put(&mut m, "a", &a);
        let x = a.e;
        let e = match op {
            "neg" => self.call(&mut m, move || -x)?,
            "double" => self.call(&mut m, move || x.double())?,
            "square" => self.call(&mut m, move || x.square())?,
            "cube" => self.call(&mut m, move || x.cube())?,
            "inv" => self.call(&mut m, move || x.inv())?,
            "conj" | "conj_chain" => self.call(&mut m, move || x.conjugate())?,
            _ => unreachable!(),
        };
        let mut r = self.wrap(e, op, &[a.taint]);
        let fp = self.footprint(op, &a.e, None, None);
        self.mark_band(&mut m, &mut r, fp, &[a.band]);
        let (ac, rc) = (Self::coords(&a.e), Self::coords(&e));
        let fs = self.fs.clone();
        let h = match op {
            "square" => Some(fs.mul_hints(&ac, &ac, &rc)),
            "cube" => {
                let s = fs.mul_exact(&ac, &ac);
                m.insert("s".into(), jcoords(&s));
                m.insert("h2".into(), fs.mul_hints(&s, &ac, &rc));
                Some(fs.mul_hints(&ac, &ac, &s))
            },
            "inv" => {
                if fs.is_zero(&ac) {
                    None
                } else {
                    Some(fs.mul_hints(&ac, &rc, &fs.one()))
                }
            },
            "conj" => {
                if E::D == 1 {
                    None
                } else {
                    Some(fs.conj_hints(&ac, &rc))
                }
            },
            "conj_chain" => {
                let (chain, _) = fs.exp_chain(&ac, &fs.p);
                m.insert("chain".into(), chain);
                m.insert("op".into(), json!("conj"));
                None
            },
            _ => None,
        };
        self.finish(m, &r, h);
        Some(r)
    }

    fn binary(&mut self, op: &'static str, a: V<E>, b: V<E>) -> Option<V<E>> {
        if op == "div" && self.skip(op, &b) {
            return None;
        }
        let mut m = self.head(op);
        self.put(&mut m, "a", &a);
        self.put(&mut m, "b", &b);
        let alt = self.rng.below(2) == 1;
        m.insert("alt".into(), json!(alt as u8));
        let (x, y) = (a.e, b.e);
        let e = match (op, alt) {
            ("add", false) => self.call(&mut m, move || x + y)?,
            ("add", true) => self.call(&mut m, move || {
                let mut t = x;
                t += y;
                t
            })?,
            ("sub", false) => self.call(&mut m, move || x - y)?,
            ("sub", true) => self.call(&mut m, move || {
                let mut t = x;
                t -= y;
                t
            })?,
            ("mul", false) => self.call(&mut m, move || x * y)?,
            ("mul", true) => self.call(&mut m, move || {
                let mut t = x;
                t *= y;
                t
            })?,
            ("div", false) => self.call(&mut m, move || x / y)?,
            ("div", true) => self.call(&mut m, move || {
                let mut t = x;
                t /= y;
                t
            })?,
            _ => unreachable!(),
        };
        let mut r = self.wrap(e, op, &[a.taint, b.taint]);
        let fp = self.footprint(op, &a.e, Some(&b.e), None);
        self.mark_band(&mut m, &mut r, fp, &[a.band, b.band]);
        let (ac, bc, rc) = (Self::coords(&a.e), Self::coords(&b.e), Self::coords(&e));
        let h = match op {
            "mul" => Some(self.fs.mul_hints(&ac, &bc, &rc)),
            "div" => {
                if self.fs.is_zero(&bc) {
                    None
                } else {
                    Some(self.fs.mul_hints(&rc, &bc, &ac))
                }
            },
            _ => None,
        };
        self.finish(m, &r, h);
        Some(r)
    }

    fn mul_base(&mut self, a: V<E>, b: B<E>) -> Option<V<E>> {
        let mut m = self.head("mul_base");
        self.put(&mut m, "a", &a);
        self.put_base(&mut m, "b", &b);
        let x = a.e;
        let e = self.call(&mut m, move || x.mul_base(b))?;
        let mut r = self.wrap(e, "mul_base", &[a.taint]);
        self.mark_band(&mut m, &mut r, false, &[a.band]);
        let h = self.fs.mul_base_hints(&Self::coords(&a.e), &b.int_big(), &Self::coords(&e));
        self.finish(m, &r, Some(h));
        Some(r)
    }

    fn exp(&mut self, a: V<E>, e: &Big) -> Option<V<E>> {
        let mut m = self.head("exp");
        self.put(&mut m, "a", &a);
        m.insert("e".into(), jbytes(e));
        let x = a.e;
        let pw = E::pw(e);
        let alt = self.rng.below(3) == 0;
        m.insert("alt".into(), json!(alt as u8));
        let res = if alt { self.call(&mut m, move || x.exp_vartime(pw))? } else { self.call(&mut m, move || x.exp(pw))? };
        let mut r = self.wrap(res, "exp", &[a.taint]);
        let fp = self.footprint("exp", &a.e, None, Some(e));
        self.mark_band(&mut m, &mut r, fp, &[a.band]);
        let (chain, _) = self.fs.exp_chain(&Self::coords(&a.e), e);
        m.insert("chain".into(), chain);
        self.finish(m, &r, None);
        Some(r)
    }

    fn eq(&mut self, a: V<E>, b: V<E>) -> Option<bool> {
        let mut m = self.head("eq");
        self.put(&mut m, "a", &a);
        self.put(&mut m, "b", &b);
        if a.band || b.band {
            m.entry("dir").or_insert(json!("f64-double-band"));
        }
        let (x, y) = (a.e, b.e);
        let alt = self.rng.below(4) == 0;
        let r = if alt { self.call(&mut m, move || !(x != y))? } else { self.call(&mut m, move || x == y)? };
        m.insert("eq".into(), json!(r as u8));
        self.line(&m);
        Some(r)
    }
    /// result == canonical re-creation of itself (must be TRUE: same canonical value)
    fn eq_canon(&mut self, a: V<E>) -> Option<bool> {
        let c = V { e: Self::canon(&a.e), taint: None, band: a.band };
        if self.rng.below(2) == 0 {
            self.eq(a, c)
        } else {
            self.eq(c, a)
        }
    }

    // -- operand generation ---------------------------------------------------------------------
    /// integer argument for `new`, boundary biased (may exceed p: `new` reduces)
    fn gen_int(&mut self) -> Big {
        let p = self.fb.p.clone();
        let nb = <B<E>>::NEW_BITS;
        let lim = Big::pow2(nb);
        let k = Big::from_u64(self.rng.below(4));
        let v = match self.rng.below(16) {
            0 => Big::from_u64(self.rng.below(4)),
            1 => p.sub(&Big::from_u64(1 + self.rng.below(3))),
            2 => {
                if self.rng.below(2) == 0 {
                    p.sub(&Big::one()).shr(1)
                } else {
                    p.add(&Big::one()).shr(1)
                }
            },
            3 => p.add(&k),
            4 | 5 => {
                let j = *self.rng.pick(&[8usize, 16, 31, 32, 33, 48, 62, 63, 64, 65, 96, 127, 128]);
                let b = Big::pow2(j.min(nb));
                if self.rng.below(2) == 0 || j >= nb {
                    b.sub(&Big::one()).sub(&k)
                } else {
                    b.add(&k)
                }
            },
            6 | 7 => self.gen_mont_target(),
            8 | 9 => {
                // 32-bit limb patterns
                let mut limbs = vec![];
                for _ in 0..(nb / 32) {
                    let l = match self.rng.below(7) {
                        0 => 0u32,
                        1 => 1,
                        2 => 0x7fff_ffff,
                        3 => 0x8000_0000,
                        4 => 0xffff_fffe,
                        5 => 0xffff_ffff,
                        _ => self.rng.next() as u32,
                    };
                    limbs.push(l);
                }
                let mut bytes = vec![];
                for l in limbs {
                    bytes.extend_from_slice(&l.to_le_bytes());
                }
                Big::from_le_bytes(&bytes)
            },
            10 => p.add(&p).sub(&k).rem(&lim),
            11 => {
                // short values
                let bits = 1 + self.rng.below(nb as u64) as usize;
                self.rng.big_bits(bits)
            },
            _ => self.rng.big_bits(nb),
        };
        if v.ge(&lim) {
            v.rem(&lim)
        } else {
            v
        }
    }
    /// value whose Montgomery form (R = 2^64; f64, f62) falls in a special band; for f128 (canonical
    /// representation) a value at a 64-bit limb boundary
    fn gen_mont_target(&mut self) -> Big {
        let p = self.fb.p.clone();
        let k = Big::from_u64(self.rng.below(3));
        if self.fs.name == "f128" {
            let hi = *self.rng.pick(&[0u64, 1, u64::MAX, u64::MAX - 1, 1 << 63, 0xffff_ffff, 0xffffffff_ffffd2ff]);
            let lo = *self.rng.pick(&[0u64, 1, u64::MAX, u64::MAX - 1, 1 << 63, 0xffff_ffff_0000_0000]);
            return Big::from_u128(((hi as u128) << 64) | lo as u128);
        }
        let half = p.add(&Big::one()).shr(1);
        let cls = self.rng.below(10);
        if cls <= 2 && self.fs.name == "f64" && self.dir.is_none() {
            // provenance label (reporting only): the scenario uses an operand whose Montgomery form
            // lies in [ceil(p/2), 2^63)
            self.dir = Some("f64-double-band");
        }
        let m = match cls {
            0 => half.add(&k),                                   // bottom of the f64 `double` band
            1 => Big::pow2(63).sub(&Big::one()).sub(&k),         // top of it
            2 => half.add(&self.rng.big_bits(30)),               // inside it
            3 => half.sub(&Big::one()).sub(&k),                  // just below
            4 => Big::pow2(63).add(&k),                          // just above
            5 => p.sub(&Big::one()).sub(&k),
            6 => Big::pow2(32).sub(&Big::one()).add(&k),
            7 => Big::from_u64(0xffff_ffff_0000_0000).sub(&k),
            8 => Big::from_u64(self.rng.below(3)),
            _ => Big::pow2(62).sub(&k),
        };
        let m = m.rem(&p);
        m.mulmod(&self.rinv, &p)
    }
    fn gen_elem(&mut self) -> Option<V<E>> {
        let mut vals = vec![];
        let shape = self.rng.below(8);
        for i in 0..E::D {
            let v = if E::D > 1 && ((shape == 0 && i > 0) || (shape == 1 && i != 1) || (shape == 2 && i + 1 != E::D)) {
                Big::zero()
            } else {
                self.gen_int()
            };
            vals.push(v);
        }
        self.mk(&vals)
    }
    fn gen_exponent(&mut self, big: bool) -> Big {
        let p = self.fb.p.clone();
        let pb = <B<E>>::POW_BITS;
        let lim = Big::pow2(pb);
        if !big {
            return match self.rng.below(8) {
                0 => Big::zero(),
                1 => Big::one(),
                2 => Big::from_u64(2),
                3 => Big::from_u64(3 + self.rng.below(60)),
                4 => {
                    let j = self.rng.below(24) as usize;
                    Big::pow2(j)
                },
                5 => {
                    let j = 2 + self.rng.below(22) as usize;
                    Big::pow2(j).sub(&Big::one())
                },
                _ => {
                    let bits = 1 + self.rng.below(24) as usize;
                    self.rng.big_bits(bits)
                },
            };
        }
        let v = match self.rng.below(8) {
            0 => p.sub(&Big::one()),
            1 => p.sub(&Big::from_u64(2)),
            2 => p.clone(),
            3 => lim.sub(&Big::one()),
            4 => {
                let j = self.rng.below(pb as u64) as usize;
                Big::pow2(j)
            },
            5 => {
                let bits = 1 + self.rng.below(pb as u64 - 1) as usize;
                self.rng.big_bits(bits)
            },
            _ => self.rng.big_bits(pb),
        };
        v.rem(&lim)
    }

    // -- scenarios --------------------------------------------------------------------------------
    fn apply_random_op(&mut self, pool: &mut Vec<V<E>>, big_exp: bool) -> Option<()> {
        let n = pool.len();
        let a = if self.rng.below(3) != 0 { pool[n - 1] } else { pool[self.rng.below(n as u64) as usize] };
        let b = pool[self.rng.below(n as u64) as usize];
        let has_small = <B<E>>::mul_small(<B<E>>::ONE, 1).is_some() && E::D == 1;
        let r = match self.rng.below(if has_small { 15 } else { 14 }) {
            0 => self.binary("add", a, b)?,
            1 => self.binary("sub", a, b)?,
            2 => self.unary("neg", a)?,
            3 => self.unary("double", a)?,
            4 => self.unary("square", a)?,
            5 => self.unary("cube", a)?,
            6 | 7 => self.binary("mul", a, b)?,
            8 => {
                let c = b.e.base_element(self.rng.below(E::D as u64) as usize);
                self.mul_base(a, c)?
            },
            9 => self.unary("inv", a)?,
            10 => self.binary("div", a, b)?,
            11 => self.unary("conj", a)?,
            12 => {
                let e = if big_exp { self.gen_exponent(true) } else { Big::from_u64(self.rng.below(9)) };
                self.exp(a, &e)?
            },
            13 => {
                // a - a, a + (-a): zero in whatever representation the code produces
                if self.rng.below(2) == 0 {
                    self.binary("sub", a, a)?
                } else {
                    let na = self.unary("neg", a)?;
                    self.binary("add", a, na)?
                }
            },
            _ => self.op_mul_small(a, None)?,
        };
        self.eq_canon(r)?;
        pool.push(r);
        Some(())
    }

    fn op_mul_small(&mut self, a: V<E>, k: Option<u32>) -> Option<V<E>> {
        let k = k.unwrap_or_else(|| match self.rng.below(6) {
            0 => self.rng.below(3) as u32,
            1 => u32::MAX - self.rng.below(3) as u32,
            2 => (1u32 << 16) + self.rng.below(3) as u32,
            3 => 1u32 << 31,
            _ => self.rng.next() as u32,
        });
        let mut m = self.head("mul_small");
        self.put(&mut m, "a", &a);
        m.insert("b".into(), jcoords(&[Big::from_u64(k as u64)]));
        let x = a.e.base_element(0);
        let e0 = self.call(&mut m, move || <B<E>>::mul_small(x, k))??;
        let e = E::build(&[e0]);
        let r = self.wrap(e, "mul_small", &[a.taint]);
        let h = self.fs.mul_base_hints(&Self::coords(&a.e), &Big::from_u64(k as u64), &Self::coords(&e));
        self.finish(m, &r, Some(h));
        Some(r)
    }

    fn sc_chain(&mut self) -> Option<()> {
        let mut pool = vec![];
        for _ in 0..(2 + self.rng.below(2)) {
            pool.push(self.gen_elem()?);
        }
        let n = 2 + self.rng.below(5);
        for _ in 0..n {
            self.apply_random_op(&mut pool, false)?;
        }
        let (x, y) = (pool[pool.len() - 1], pool[self.rng.below(pool.len() as u64) as usize]);
        self.eq(x, y)?;
        Some(())
    }
    /// every operation once on one boundary-biased operand pair
    fn sc_pair(&mut self) -> Option<()> {
        let a = self.gen_elem()?;
        let b = self.gen_elem()?;
        for op in ["add", "sub", "mul", "div"] {
            let r = self.binary(op, a, b)?;
            self.eq_canon(r)?;
        }
        for op in ["neg", "double", "square", "cube", "inv", "conj"] {
            let r = self.unary(op, a)?;
            self.eq_canon(r)?;
        }
        let c = b.e.base_element(0);
        let r = self.mul_base(a, c)?;
        self.eq_canon(r)?;
        if E::D > 1 {
            let r = self.op_from_base(c)?;
            self.eq_canon(r)?;
        }
        if E::D == 1 && <B<E>>::mul_small(<B<E>>::ONE, 1).is_some() {
            let r = self.op_mul_small(a, None)?;
            self.eq_canon(r)?;
        }
        self.eq(a, b)?;
        self.eq(a, a)?;
        Some(())
    }
    fn sc_exp(&mut self, big: bool) -> Option<()> {
        let a = self.gen_elem()?;
        let e = self.gen_exponent(big);
        let r = self.exp(a, &e)?;
        self.eq_canon(r)?;
        Some(())
    }
    /// Frobenius as the p-th power: conjugate() checked against a logged chain for x^p
    fn sc_frob(&mut self) -> Option<()> {
        let a = self.gen_elem()?;
        let r = self.unary("conj_chain", a)?;
        self.eq_canon(r)?;
        Some(())
    }
    /// inverse / division by zero in every representation of zero the API produces
    fn sc_zero(&mut self, which: u64) -> Option<()> {
        let a = self.gen_elem()?;
        let z = match which % 3 {
            0 => self.mk(&vec![Big::zero(); E::D])?,
            1 => self.binary("sub", a, a)?,
            _ => {
                let na = self.unary("neg", a)?;
                self.binary("add", a, na)?
            },
        };
        self.eq_canon(z)?;
        let zz = self.mk(&vec![Big::zero(); E::D])?;
        self.eq(z, zz)?;
        match which % 2 {
            0 => {
                let r = self.unary("inv", z)?;
                self.eq_canon(r)?;
            },
            _ => {
                let r = self.binary("div", a, z)?;
                self.eq_canon(r)?;
            },
        }
        let r = self.binary("mul", a, z)?;
        self.eq_canon(r)?;
        let e = self.gen_exponent(false);
        let r = self.exp(z, &e)?;
        self.eq_canon(r)?;
        Some(())
    }
    /// exponents 0, 1, 2, p-1, p-2 and a full-width random one on one boundary-biased base
    fn dir_exp(&mut self) -> Option<()> {
        let a = self.gen_elem()?;
        let p = self.fb.p.clone();
        let pb = <B<E>>::POW_BITS;
        let mut exps = vec![Big::zero(), Big::one(), Big::from_u64(2), p.sub(&Big::one())];
        let cheap = E::D == 1 && pb == 64;
        if !self.quick || cheap {
            exps.push(p.sub(&Big::from_u64(2)));
        }
        if !self.quick || E::D < 3 {
            // full-width random exponent (quick tier: 64 bits for the 128-bit quadratic extension)
            let bits = if self.quick && E::D == 2 && pb == 128 { 64 } else { pb };
            exps.push(self.rng.big_bits(bits));
        }
        exps.push(self.rng.big_bits(20));
        for e in exps {
            let r = self.exp(a, &e)?;
            self.eq_canon(r)?;
        }
        let z = self.mk(&vec![Big::zero(); E::D])?;
        for e in [Big::zero(), Big::one(), p.sub(&Big::one())] {
            let r = self.exp(z, &e)?;
            self.eq_canon(r)?;
        }
        Some(())
    }

    /// case lifted from the scaled model Goldilocks.tla (f64 base field only): operands are given as
    /// Montgomery forms < M and built with the public from_mont
    fn sc_lifted(&mut self, i: usize) -> Option<()> {
        let path = std::env::var("WF_LIFTED").ok()?;
        let cases = wfcommon::util::read_ndjson(&path);
        let c = cases.get(i)?;
        self.dir = Some(if c["src"] == "finding" { "lifted-finding" } else { "lifted-class" });
        let op = c["op"].as_str().unwrap_or("").to_string();
        let xm = c["x"].as_u64()?;
        let xb = self.mk_from_mont(xm)?;
        let x = self.wrap(E::build(&[xb]), "from_mont", &[]);
        let r = match op.as_str() {
            "add" | "sub" | "mul" => {
                let yb = self.mk_from_mont(c["y"].as_u64()?)?;
                let y = self.wrap(E::build(&[yb]), "from_mont", &[]);
                let opn: &'static str = match op.as_str() {
                    "add" => "add",
                    "sub" => "sub",
                    _ => "mul",
                };
                self.binary(opn, x, y)?
            },
            "double" => self.unary("double", x)?,
            "square" => self.unary("square", x)?,
            "neg" => self.unary("neg", x)?,
            "mul_small" => self.op_mul_small(x, Some(c["k"].as_u64()? as u32))?,
            _ => x, // as_int: the from_mont event itself checks it
        };
        self.eq_canon(r)?;
        let one = self.mk(&self.fs.one())?;
        let t = self.binary("add", r, one)?;
        self.eq_canon(t)?;
        let t = self.unary("neg", r)?;
        self.eq_canon(t)?;
        Some(())
    }

    // -- directed scenarios -------------------------------------------------------------------------
    /// element whose base coordinate `i` has Montgomery form `mont` (others from `rest`)
    fn with_mont(&mut self, i: usize, mont: &Big, rest: &Big) -> Option<V<E>> {
        let p = self.fb.p.clone();
        let v = mont.mulmod(&self.rinv, &p);
        let vals: Vec<Big> = (0..E::D).map(|j| if j == i { v.clone() } else { rest.clone() }).collect();
        self.mk(&vals)
    }
    fn follow_ups(&mut self, y: V<E>, x: V<E>) -> Option<()> {
        self.eq_canon(y)?;
        let one = self.mk(&self.fs.one())?;
        for (op, l, r) in [("add", y, one), ("add", one, y), ("sub", x, y), ("sub", y, x), ("mul", y, x)] {
            let t = self.binary(op, l, r)?;
            self.eq_canon(t)?;
        }
        for op in ["neg", "double", "inv", "square"] {
            let t = self.unary(op, y)?;
            self.eq_canon(t)?;
        }
        Some(())
    }
    /// f64: internal values in [ceil(p/2), 2^63) — the band in which 2a does not wrap 2^64 but is >= p
    fn dir_f64_double(&mut self, idx: u64) -> Option<()> {
        self.dir = Some("f64-double-band");
        let p = self.fb.p.clone();
        let half = p.add(&Big::one()).shr(1);
        let top = Big::pow2(63).sub(&Big::one());
        let mont = match idx % 6 {
            0 => half.clone(),
            1 => top.clone(),
            2 => half.add(&Big::one()),
            3 => top.sub(&Big::one()),
            4 => half.add(&self.rng.big_bits(30)),
            _ => half.add(&Big::pow2(30)),
        };
        let coord = (idx / 6) as usize % E::D;
        let x = if E::D == 1 && idx % 2 == 1 {
            let b = self.mk_from_mont(mont.to_u64())?;
            self.wrap(E::build(&[b]), "from_mont", &[])
        } else {
            self.with_mont(coord, &mont, &Big::from_u64(3))?
        };
        let y = self.unary("double", x)?;
        self.follow_ups(y, x)?;
        if E::D > 1 {
            // the extension formulas call double() on internal products: make a product land in the band
            let mut unit = vec![Big::zero(); E::D];
            unit[coord.max(1)] = Big::one();
            let u = self.mk(&unit)?;
            let mut only = vec![Big::zero(); E::D];
            only[coord.max(1)] = mont.mulmod(&self.rinv, &p);
            let w = self.mk(&only)?;
            for (l, r) in [(w, u), (u, w), (x, u)] {
                let t = self.binary("mul", l, r)?;
                self.eq_canon(t)?;
            }
            let mut sq = vec![Big::one(); E::D];
            sq[coord.max(1)] = mont.mulmod(&self.rinv, &p);
            let s = self.mk(&sq)?;
            let t = self.unary("square", s)?;
            self.eq_canon(t)?;
            let t = self.unary("cube", s)?;
            self.eq_canon(t)?;
            let t = self.unary("inv", s)?;
            self.eq_canon(t)?;
        }
        Some(())
    }
    /// f64 mul_small: operands (m, k) for which the folded product lands in [p, 2^64) without carry
    fn dir_f64_mul_small(&mut self, idx: u64) -> Option<()> {
        self.dir = Some("f64-mul_small-band");
        let p = self.fb.p.clone();
        let (mont, k): (Big, u32) = if idx == 0 {
            (Big::from_u64(1190112520607392537), 31)
        } else {
            // choose k and the high word h < k of the product; s = h*2^64 + s_lo with
            // s_lo + h*(2^32-1) in [p, 2^64)
            let k = match idx % 5 {
                0 => 2u32,
                1 => 3,
                2 => 31,
                3 => 65537,
                _ => 2 + (self.rng.next() as u32 >> 4),
            };
            let h = self.rng.below(k as u64);
            let z = Big::from_u64(h).mul(&Big::from_u64(0xffff_ffff));
            let t = self.rng.below(1 << 31);
            let target = Big::from_u64(h).shl(64).add(&p).sub(&z).add(&Big::from_u64(t));
            let kk = Big::from_u64(k as u64);
            let (q, r) = target.divrem(&kk);
            let m = if r.is_zero() { q } else { q.add(&Big::one()) };
            (m.rem(&p), k)
        };
        let x = if idx % 2 == 0 {
            let b = self.mk_from_mont(mont.to_u64())?;
            self.wrap(E::build(&[b]), "from_mont", &[])
        } else {
            self.with_mont(0, &mont, &Big::zero())?
        };
        let y = self.op_mul_small(x, Some(k))?;
        self.follow_ups(y, x)?;
        Some(())
    }
    /// f62: inputs chosen by the PATH the binary extended GCD of spec/field/Mont62.tla (Inv) takes on them.
    /// The accumulator `a` of that algorithm ends as a small multiple of M; how large (in particular
    /// whether it exceeds 64 bits before the final reduction, which happens for about 8 in 10^6 elements)
    /// depends on the value alone, so boundary-biased operands do not reach these classes.  The shadow run
    /// below is the specification's algorithm at full width; it only SELECTS inputs, the results of the
    /// real inv / div are judged by TraceFieldOps like every other event.
    fn dir_f62_inv_path(&mut self, idx: u64) -> Option<()> {
        self.dir = Some("f62-inv-path");
        const M: u128 = 4611624995532046337;
        // (final accumulator before reduction, largest d seen)
        fn shadow(x: u64) -> (u128, u128) {
            if x == 0 || x as u128 == M {
                return (0, 0);
            }
            let mut a: u128 = 0;
            let mut u: u128 = if x & 1 == 1 { x as u128 } else { x as u128 + M };
            let mut v: u128 = M;
            let mut d: u128 = M - 1;
            let mut dmax = d;
            let mut fuel = 1000;
            while v != 1 && fuel > 0 {
                fuel -= 1;
                while v < u {
                    u -= v;
                    d += a;
                    while u & 1 == 0 {
                        if d & 1 == 1 {
                            d += M;
                        }
                        u >>= 1;
                        d >>= 1;
                    }
                    dmax = dmax.max(d);
                }
                v -= u;
                a += d;
                while v & 1 == 0 {
                    if a & 1 == 1 {
                        a += M;
                    }
                    v >>= 1;
                    a >>= 1;
                }
            }
            (a, dmax)
        }
        let class = idx % 6;
        let want = |a: u128, dmax: u128| -> bool {
            match class {
                0 | 1 => a >= 1u128 << 64,                 // the accumulator does not fit 64 bits
                2 => a >= 1u128 << 63 && a < 1u128 << 64,  // top bit of a 64-bit word set
                3 => a > 4 * M,                            // the largest multiples of M
                4 => a <= M,                               // no final reduction at all
                _ => dmax >= 1u128 << 64,                  // the other accumulator leaves 64 bits
            }
        };
        let mut found = None;
        for _ in 0..6_000_000u32 {
            let x = self.rng.below(M as u64 - 1) + 1;
            let (a, dmax) = shadow(x);
            if want(a, dmax) {
                found = Some(x);
                break;
            }
        }
        let x = found?; // class not reachable (e.g. the other accumulator never leaves 64 bits): nothing recorded
        let e = self.with_mont(0, &Big::from_u64(x), &Big::from_u64(3))?;
        let r = self.unary("inv", e)?;
        self.eq_canon(r)?;
        let c = self.gen_elem()?;
        let q = self.binary("div", c, e)?;
        self.eq_canon(q)?;
        let back = self.binary("mul", q, e)?;
        self.eq_canon(back)?;
        Some(())
    }
    /// f62: zero represented as M (a + (-a), and products with it) fed to inv / div / exp
    fn dir_f62_zero(&mut self, idx: u64) -> Option<()> {
        self.dir = Some("f62-zero-as-M");
        let a = self.mk(&vec![Big::from_u64(5); E::D])?;
        let na = self.unary("neg", a)?;
        let z = self.binary("add", a, na)?;
        self.eq_canon(z)?;
        let c = self.gen_elem()?;
        match idx % 4 {
            0 => {
                let r = self.unary("inv", z)?;
                self.eq_canon(r)?;
            },
            1 => {
                let r = self.binary("div", c, z)?;
                self.eq_canon(r)?;
            },
            2 => {
                let zc = self.binary("mul", z, c)?;
                self.eq_canon(zc)?;
                let r = self.unary("inv", zc)?;
                self.eq_canon(r)?;
            },
            _ => {
                let e = self.gen_exponent(false);
                let r = self.exp(z, &e)?;
                self.eq_canon(r)?;
                let r = self.unary("double", z)?;
                self.eq_canon(r)?;
                let r = self.unary("neg", z)?;
                self.eq_canon(r)?;
                let r = self.binary("sub", z, c)?;
                self.eq_canon(r)?;
            },
        }
        Some(())
    }

    /// Scenario `sc` of this combo; a pure function of (seed, combo, sc).
    pub fn scenario(&mut self, seed: u64, combo: u64, sc: u64) {
        self.sc = sc;
        self.k = 0;
        self.rng = Rng::new(seed, combo, sc);
        self.dir = None;
        if sc >= LIFTED_BASE {
            let _ = self.sc_lifted((sc - LIFTED_BASE) as usize);
            self.dir = None;
            self.out.flush().unwrap();
            return;
        }
        let name = self.fs.name;
        let _ = if sc < N_DIRECTED {
            match (name, sc) {
                ("f64", 0..=11) => self.dir_f64_double(sc),
                ("f64", 12..=17) if E::D == 1 => self.dir_f64_mul_small(sc - 12),
                ("f62", 0..=3) => self.dir_f62_zero(sc),
                ("f62", 4..=9) => self.dir_f62_inv_path(sc - 4),
                (_, 18) => self.dir_exp(),
                (_, 19) if E::D > 1 && !(self.quick && (E::D == 3 || self.fs.name == "f128")) => self.sc_frob(),
                (_, 20..=23) => self.sc_zero(sc),
                _ => self.sc_pair(),
            }
        } else {
            match (sc - N_DIRECTED) % 32 {
                0..=15 => self.sc_chain(),
                16..=25 => self.sc_pair(),
                26 | 27 => self.sc_zero(sc),
                28..=30 => self.sc_exp(false),
                _ => self.sc_exp(true),
            }
        };
        self.dir = None;
        self.out.flush().unwrap();
    }
}

pub const N_DIRECTED: u64 = 24;
pub const LIFTED_BASE: u64 = 1_000_000;

pub const COMBOS: [(&str, usize); 8] =
    [("f64", 1), ("f64", 2), ("f64", 3), ("f62", 1), ("f62", 2), ("f62", 3), ("f128", 1), ("f128", 2)];

fn run_combo<E: Elem>(seed: u64, combo: u64, from: u64, to: u64, skip: bool, quick: bool)
where
    B<E>: Base,
{
    let mut ctx = Ctx::<E>::new(seed, combo);
    ctx.quick = quick;
    ctx.skip_zero_m = skip;
    for sc in from..to {
        ctx.scenario(seed, combo, sc);
    }
}

// ------------------------------------------------------------------------------------------------
// C11: constants recorder
// ------------------------------------------------------------------------------------------------
fn plan_big(v: &Value) -> Big {
    Big::from_le_bytes(&v.as_array().map(|a| a.iter().map(|x| x.as_u64().unwrap_or(0) as u8).collect::<Vec<u8>>()).unwrap_or_default())
}

/// Base-field part: constants, generator powers (Lucas/Pratt conditions), Euler criterion of the
/// quadratic discriminant, and get_root_of_unity(n) for every n.
fn consts_base<Bf: Base + Elem<BaseField = Bf>>(seed: u64, combo: u64, plan: &Value) {
    let mut ctx = Ctx::<Bf>::new(seed, combo);
    ctx.exact_new = true;
    ctx.sc = 0;
    let name = <Bf as Base>::NAME;
    let pl = &plan[name];
    // constants
    let mut m = ctx.head("consts");
    let vals = catch(|| {
        json!({
            "modulus_le": jraw(&Bf::get_modulus_le_bytes()),
            "modulus": jbytes(&<Bf as Base>::modulus_big()),
            "bits": Bf::MODULUS_BITS,
            "two_adicity": Bf::TWO_ADICITY,
            "generator": jbytes(&Bf::GENERATOR.int_big()),
            "root": jbytes(&Bf::TWO_ADIC_ROOT_OF_UNITY.int_big()),
            "element_bytes": Bf::ELEMENT_BYTES,
            "ext_degree": Bf::EXTENSION_DEGREE,
            "zero": jbytes(&Bf::ZERO.int_big()),
            "one": jbytes(&Bf::ONE.int_big()),
            "is_canonical": Bf::IS_CANONICAL as u8,
            "ext2": <Bf as ExtensibleField<2>>::is_supported() as u8,
            "ext3": <Bf as ExtensibleField<3>>::is_supported() as u8,
        })
    });
    match vals {
        Ok(v) => {
            for (k, x) in v.as_object().unwrap() {
                m.insert(k.clone(), x.clone());
            }
        },
        Err(p) => {
            m.insert("panic".into(), json!(p));
        },
    }
    ctx.line(&m);
    // GENERATOR^(p-1), GENERATOR^((p-1)/q)
    let g = ctx.wrap(Bf::GENERATOR, "const", &[]);
    for e in pl["exps"].as_array().unwrap() {
        ctx.sc += 1;
        ctx.k = 0;
        let _ = ctx.exp(g, &plan_big(e));
    }
    // Euler criterion for the discriminant of the quadratic extension polynomial
    ctx.sc += 1;
    if let Some(d) = ctx.mk(&[plan_big(&pl["disc"])]) {
        let _ = ctx.exp(d, &plan_big(&pl["half"]));
    }
    // roots of unity of every order
    let p = ctx.fb.p.clone();
    for n in 1..=Bf::TWO_ADICITY {
        ctx.sc += 1;
        ctx.k = 0;
        let mut m = ctx.head("root");
        m.insert("n".into(), json!(n));
        if let Some(w) = ctx.call(&mut m, move || Bf::get_root_of_unity(n)) {
            let wb = w.int_big();
            let (mut sq, mut h) = (vec![], vec![]);
            let mut cur = wb.clone();
            for _ in 0..n {
                let prod = cur.mul(&cur);
                let (q, r) = prod.divrem(&p);
                h.push(json!({"q": jbytes(&q)}));
                sq.push(jbytes(&r));
                cur = r;
            }
            m.insert("w".into(), jbytes(&wb));
            m.insert("sq".into(), Value::Array(sq));
            m.insert("h".into(), Value::Array(h));
            ctx.line(&m);
        }
    }
    ctx.out.flush().unwrap();
}

/// Extension part: constants, Frobenius (conjugate) against chains and basis images, unit witness
fn consts_ext<E: Elem>(seed: u64, combo: u64, thorough: bool)
where
    B<E>: Base,
{
    let mut ctx = Ctx::<E>::new(seed, combo);
    ctx.quick = !thorough;
    ctx.sc = 1000;
    let d = E::D;
    let mut m = ctx.head("econsts");
    m.insert("element_bytes".into(), json!(E::ELEMENT_BYTES));
    m.insert("ext_degree".into(), json!(E::EXTENSION_DEGREE));
    m.insert("zero".into(), jcoords(&Ctx::<E>::coords(&E::ZERO)));
    m.insert("one".into(), jcoords(&Ctx::<E>::coords(&E::ONE)));
    m.insert("is_canonical".into(), json!(E::IS_CANONICAL as u8));
    ctx.line(&m);
    // conjugate() of the basis elements and of boundary-biased elements: chains and linear form
    let mut xs: Vec<Vec<Big>> = vec![];
    for k in 1..d {
        let mut v = vec![Big::zero(); d];
        v[k] = Big::one();
        xs.push(v);
    }
    xs.push(vec![ctx.fb.p.sub(&Big::one()); d]);
    for (i, v) in xs.iter().enumerate() {
        ctx.sc += 1;
        ctx.k = 0;
        if let Some(x) = ctx.mk(v) {
            if i == 0 || thorough {
                let _ = ctx.unary("conj_chain", x);
            }
            let _ = ctx.unary("conj", x);
        }
    }
    for _ in 0..(if thorough { 40 } else { 8 }) {
        ctx.sc += 1;
        ctx.k = 0;
        ctx.rng = Rng::new(seed, combo, ctx.sc);
        if let Some(x) = ctx.gen_elem() {
            let _ = ctx.unary("conj", x);
        }
    }
    // (x^p - x) is a unit modulo the extension polynomial (witness computed by the hint helper)
    let fs = ctx.fs.clone();
    let mut g = fs.frob_img(1).clone();
    g[1] = if g[1].is_zero() { fs.p.sub(&Big::one()) } else { g[1].sub(&Big::one()) };
    let mut order = Big::one();
    for _ in 0..d {
        order = order.mul(&fs.p);
    }
    let w = fs.pow_exact(&g, &order.sub(&Big::from_u64(2)));
    let h = fs.mul_hints(&g, &w, &fs.one());
    let mut m = ctx.head("unit");
    m.insert("w".into(), jcoords(&w));
    m.insert("h".into(), h);
    m.insert("cert".into(), json!(1));
    ctx.line(&m);
    ctx.out.flush().unwrap();
}

/// `consts-child <seed> <plan.json> <tier>`
pub fn consts_child_main(args: &[String]) -> i32 {
    let seed: u64 = args[0].parse().unwrap();
    let plan: Value = serde_json::from_str(&std::fs::read_to_string(&args[1]).expect("plan")).expect("plan json");
    let thorough = args.get(2).map(|s| s == "thorough").unwrap_or(false);
    consts_base::<f64::BaseElement>(seed, 100, &plan);
    consts_base::<f62::BaseElement>(seed, 103, &plan);
    consts_base::<f128::BaseElement>(seed, 106, &plan);
    consts_ext::<QuadExtension<f64::BaseElement>>(seed, 101, thorough);
    consts_ext::<CubeExtension<f64::BaseElement>>(seed, 102, thorough);
    consts_ext::<QuadExtension<f62::BaseElement>>(seed, 104, thorough);
    consts_ext::<CubeExtension<f62::BaseElement>>(seed, 105, thorough);
    consts_ext::<QuadExtension<f128::BaseElement>>(seed, 107, thorough);
    let mut out = std::io::stdout();
    for v in frobcert_events() {
        serde_json::to_writer(&mut out, &v).unwrap();
        out.write_all(b"\n").unwrap();
    }
    println!("{{\"done\":true}}");
    0
}

/// certificates for the committed Frobenius basis images of FieldDefs.tla: chains for (x^k)^p.
/// No call into winterfell; a rejected certificate is a tool error.
pub fn frobcert_events() -> Vec<Value> {
    let mut out = vec![];
    for (name, d) in COMBOS {
        if d == 1 {
            continue;
        }
        let fs = Fs::new(name, d);
        for k in 1..d {
            let mut xk = vec![Big::zero(); d];
            xk[k] = Big::one();
            let (chain, _) = fs.exp_chain(&xk, &fs.p);
            out.push(json!({"f": name, "d": d, "op": "frobcert", "k": k, "chain": chain, "cert": 1}));
        }
    }
    out
}

/// `record-child <seed> <combo> <from> <to> [skip] [tier]`
pub fn child_main(args: &[String]) -> i32 {
    let seed: u64 = args[0].parse().unwrap();
    let combo: u64 = args[1].parse().unwrap();
    let from: u64 = args[2].parse().unwrap();
    let to: u64 = args[3].parse().unwrap();
    let skip = args.get(4).map(|s| s == "1").unwrap_or(false);
    let quick = args.get(5).map(|s| s != "thorough").unwrap_or(true);
    match combo {
        0 => run_combo::<f64::BaseElement>(seed, combo, from, to, skip, quick),
        1 => run_combo::<QuadExtension<f64::BaseElement>>(seed, combo, from, to, skip, quick),
        2 => run_combo::<CubeExtension<f64::BaseElement>>(seed, combo, from, to, skip, quick),
        3 => run_combo::<f62::BaseElement>(seed, combo, from, to, skip, quick),
        4 => run_combo::<QuadExtension<f62::BaseElement>>(seed, combo, from, to, skip, quick),
        5 => run_combo::<CubeExtension<f62::BaseElement>>(seed, combo, from, to, skip, quick),
        6 => run_combo::<f128::BaseElement>(seed, combo, from, to, skip, quick),
        7 => run_combo::<QuadExtension<f128::BaseElement>>(seed, combo, from, to, skip, quick),
        _ => return 2,
    }
    println!("{{\"done\":true}}");
    0
}
