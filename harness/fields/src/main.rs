//! wf-fields — engines for field arithmetic, constants and encodings (C10, C11).
#![allow(clippy::all)]
mod big;
mod dec;
mod hint;
mod rec;
mod watch;

fn main() {
    let args: Vec<String> = std::env::args().collect();
    wfcommon::util::install_quiet_panic_hook();
    let code = match args.get(1).map(|s| s.as_str()) {
        Some("selftest") => match big::selftest() {
            Ok(n) => {
                println!("{{\"summary\":true,\"selftest_rounds\":{n}}}");
                0
            },
            Err(e) => {
                eprintln!("big-integer helper self-test failed: {e}");
                3
            },
        },
        Some("record") => watch::record_main(&args[2..]),
        Some("record-child") => rec::child_main(&args[2..]),
        Some("decoders") => dec::main(&args[2..]),
        Some("consts") => watch::consts_main(&args[2..]),
        Some("consts-child") => rec::consts_child_main(&args[2..]),
        _ => {
            eprintln!("usage: wf-fields <selftest|record> ...");
            2
        },
    };
    std::process::exit(code);
}
