//! Watchdog parent of the recorders.  The recorder proper runs in a child process (this binary with a
//! `*-child` engine) so that a call into the code under test that never returns can be killed:
//! the child prints a `{"B":1,...}` line before every call and the complete event after it.  If the
//! child burns >= CPU_LIMIT seconds of CPU (or WALL_LIMIT seconds of wall time) without printing
//! another line, the pending call is recorded as `{"timeout":1,...}` — an event the trace
//! specification has no accepting action for — the child is killed and recording resumes with the
//! next scenario.  CPU time, not wall time, is the criterion so that a loaded machine cannot turn a
//! descheduled child into a false timeout.  A child that dies (abort, segfault) inside a call is
//! recorded the same way with `"crash"`.
use std::{
    io::{BufRead, BufReader, Write},
    process::{Child, Command, Stdio},
    sync::mpsc,
    time::{Duration, Instant},
};

use serde_json::{json, Value};

const CPU_LIMIT_TICKS: u64 = 100; // 1.0 s at CLK_TCK = 100
const WALL_LIMIT: Duration = Duration::from_secs(60);

fn cpu_ticks(pid: u32) -> Option<u64> {
    let s = std::fs::read_to_string(format!("/proc/{pid}/stat")).ok()?;
    // fields after the ")" of the command name; utime and stime are fields 14 and 15 (1-based)
    let rest = &s[s.rfind(')')? + 2..];
    let f: Vec<&str> = rest.split_whitespace().collect();
    Some(f.get(11)?.parse::<u64>().ok()? + f.get(12)?.parse::<u64>().ok()?)
}

pub enum End {
    Done,
    /// the call described by the B line never returned (timeout) or the process died in it (crash)
    Stuck { pending: Value, kind: &'static str },
    /// the child ended without `done` and without a pending call: harness bug
    Broken(String),
}

/// Runs one child to completion or until it gets stuck; complete events are passed to `sink`.
pub fn run_child(args: &[String], sink: &mut dyn FnMut(Value)) -> End {
    let exe = std::env::current_exe().expect("current_exe");
    let mut child: Child = Command::new(exe)
        .args(args)
        .stdin(Stdio::null())
        .stdout(Stdio::piped())
        .stderr(Stdio::inherit())
        .spawn()
        .expect("spawn recorder child");
    let pid = child.id();
    let stdout = child.stdout.take().unwrap();
    let (tx, rx) = mpsc::channel::<Option<String>>();
    let reader = std::thread::spawn(move || {
        for line in BufReader::with_capacity(1 << 16, stdout).lines() {
            match line {
                Ok(l) => {
                    if tx.send(Some(l)).is_err() {
                        return;
                    }
                },
                Err(_) => break,
            }
        }
        let _ = tx.send(None);
    });
    let mut pending: Option<Value> = None;
    let mut done = false;
    let mut stall: Option<(u64, Instant)> = None;
    let end = loop {
        match rx.recv_timeout(Duration::from_millis(100)) {
            Ok(Some(l)) => {
                stall = None;
                let v: Value = match serde_json::from_str(&l) {
                    Ok(v) => v,
                    Err(e) => break End::Broken(format!("bad line from child: {e}: {l}")),
                };
                if v.get("done").is_some() {
                    done = true;
                } else if v.get("skip").is_some() {
                    sink(v);
                } else if v.get("B").is_some() {
                    pending = Some(v);
                } else {
                    pending = None;
                    sink(v);
                }
            },
            Ok(None) => {
                // EOF
                let status = child.wait().ok();
                if done {
                    break End::Done;
                }
                match pending.take() {
                    Some(mut p) => {
                        p["crash"] = json!(format!("{status:?}"));
                        break End::Stuck { pending: p, kind: "crash" };
                    },
                    None => break End::Broken(format!("child ended early: {status:?}")),
                }
            },
            Err(mpsc::RecvTimeoutError::Timeout) => {
                let now = cpu_ticks(pid).unwrap_or(0);
                match stall {
                    None => stall = Some((now, Instant::now())),
                    Some((c0, t0)) => {
                        if now.saturating_sub(c0) >= CPU_LIMIT_TICKS || t0.elapsed() >= WALL_LIMIT {
                            let _ = child.kill();
                            let _ = child.wait();
                            match pending.take() {
                                Some(mut p) => {
                                    p["timeout"] = json!(1);
                                    p["cpu_ticks"] = json!(now.saturating_sub(c0));
                                    break End::Stuck { pending: p, kind: "timeout" };
                                },
                                None => break End::Broken("child stalled outside a call".into()),
                            }
                        }
                    },
                }
            },
            Err(mpsc::RecvTimeoutError::Disconnected) => break End::Broken("reader thread lost".into()),
        }
    };
    let _ = child.kill();
    let _ = child.wait();
    drop(rx);
    let _ = reader.join();
    end
}

/// `consts <seed> <plan.json> <out.ndjson> <tier>` — C11 constants recorder under the same watchdog
pub fn consts_main(args: &[String]) -> i32 {
    let mut out = std::io::BufWriter::new(std::fs::File::create(&args[2]).expect("create output"));
    let a = vec!["consts-child".to_string(), args[0].clone(), args[1].clone(), args.get(3).cloned().unwrap_or_default()];
    let mut events = 0u64;
    let end = {
        let mut sink = |v: Value| {
            serde_json::to_writer(&mut out, &v).unwrap();
            out.write_all(b"\n").unwrap();
            events += 1;
        };
        run_child(&a, &mut sink)
    };
    let mut stuck = 0;
    match end {
        End::Done => {},
        End::Stuck { pending, .. } => {
            // a constant accessor / exp / get_root_of_unity that never returns: recorded, the rest of
            // the plan is lost (the certificates will be incomplete, which is reported as well)
            let mut p = pending;
            p.as_object_mut().unwrap().remove("B");
            serde_json::to_writer(&mut out, &p).unwrap();
            out.write_all(b"\n").unwrap();
            events += 1;
            stuck = 1;
        },
        End::Broken(msg) => {
            eprintln!("consts child broken: {msg}");
            return 3;
        },
    }
    out.flush().unwrap();
    println!("{}", json!({"summary": true, "events": events, "stuck": stuck}));
    0
}

/// `record <seed> <n_per_combo> <out.ndjson> <tier> [combo:sc ...]` — records scenarios 0..n of every combo
/// (or exactly the listed scenarios) and writes the events, including timeout/crash events.
pub fn record_main(args: &[String]) -> i32 {
    let seed = args[0].clone();
    let n: u64 = args[1].parse().unwrap();
    let path = &args[2];
    let tier = args[3].clone();
    let mut out = std::io::BufWriter::new(std::fs::File::create(path).expect("create output"));
    let mut jobs: Vec<(u64, u64, u64)> = vec![];
    if args.len() > 4 {
        for a in &args[4..] {
            let (c, s) = a.split_once(':').expect("combo:sc");
            let (c, s): (u64, u64) = (c.parse().unwrap(), s.parse().unwrap());
            jobs.push((c, s, s + 1));
        }
    } else {
        for c in 0..crate::rec::COMBOS.len() as u64 {
            // cubic extensions and the 128-bit field cost TLC 2-4x more per event
            let w = match c {
                2 | 5 => n * 2 / 3,
                6 | 7 => n * 2 / 3,
                _ => n,
            };
            jobs.push((c, 0, w.max(crate::rec::N_DIRECTED)));
        }
        // cases lifted from the scaled models (f64 base field), one scenario per line of $WF_LIFTED
        if let Ok(p) = std::env::var("WF_LIFTED") {
            let n = wfcommon::util::read_ndjson(&p).len() as u64;
            jobs.push((0, crate::rec::LIFTED_BASE, crate::rec::LIFTED_BASE + n));
        }
    }
    let (mut events, mut stuck, mut skipped) = (0u64, 0u64, 0u64);
    const SKIP_AFTER: u64 = 4;
    for (combo, from, to) in jobs {
        let mut cur = from;
        while cur < to {
            let a = vec![
                "record-child".to_string(),
                seed.clone(),
                combo.to_string(),
                cur.to_string(),
                to.to_string(),
                if stuck >= SKIP_AFTER { "1".to_string() } else { "0".to_string() },
                tier.clone(),
            ];
            let mut last_sc = cur;
            let end = {
                let mut sink = |v: Value| {
                    if let Some(s) = v.get("sc").and_then(|x| x.as_u64()) {
                        last_sc = s;
                    }
                    if v.get("skip").is_some() {
                        skipped += 1;
                        return;
                    }
                    serde_json::to_writer(&mut out, &v).unwrap();
                    out.write_all(b"\n").unwrap();
                    events += 1;
                };
                run_child(&a, &mut sink)
            };
            match end {
                End::Done => break,
                End::Stuck { pending, .. } => {
                    let sc = pending.get("sc").and_then(|x| x.as_u64()).unwrap_or(last_sc);
                    let mut p = pending;
                    p.as_object_mut().unwrap().remove("B");
                    serde_json::to_writer(&mut out, &p).unwrap();
                    out.write_all(b"\n").unwrap();
                    events += 1;
                    stuck += 1;
                    cur = sc + 1;
                    if stuck > 64 {
                        eprintln!("too many stuck calls, giving up");
                        return 3;
                    }
                },
                End::Broken(msg) => {
                    eprintln!("recorder child broken: {msg}");
                    return 3;
                },
            }
        }
    }
    if args.len() <= 4 {
        for v in crate::rec::frobcert_events() {
            serde_json::to_writer(&mut out, &v).unwrap();
            out.write_all(b"\n").unwrap();
            events += 1;
        }
        out.flush().unwrap();
    }
    println!("{}", json!({"summary": true, "events": events, "stuck": stuck, "skipped": skipped}));
    0
}
