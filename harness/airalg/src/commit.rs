//! C28: row commitments.  Scenarios (spec/math/LDE.tla, family commit) carry column polynomials, a list
//! of partition options and, for each, the commitment as a TERM: ["root", rows, rowterm] with
//! rowterm = ["he", lo, hi] (hash_elements of the row's columns lo..hi) or ["mm", [[lo, hi], ..]]
//! (merge_many of the chunk digests) — the structure the VERIFIER's partition rule defines.  The term
//! is evaluated with the real hasher on the rows of the real matrix and `MerkleTree::new(..).root()`,
//! and compared with `RowMatrix::commit_to_rows(options).commitment()` /
//! `ColMatrix::commit_to_rows().commitment()`.
use serde_json::{json, Value};
use wfcommon::util::{catch, read_ndjson, Out};
use winter_air::PartitionOptions;
use winter_crypto::{
    hashers::{Blake3_256, Rp64_256},
    ElementHasher, MerkleTree, VectorCommitment,
};
use winter_math::{
    fields::{f64::BaseElement as F64, CubeExtension, QuadExtension},
    FieldElement, StarkField,
};
use winter_prover::matrix::{ColMatrix, RowMatrix};
use winter_utils::Serializable;

use crate::{
    elem::{usize_of, vec_of, Elem},
    pool::for_each_pool,
    with_field,
};

struct Rep {
    calls: usize,
    hashes: usize,
    bad: Vec<Value>,
}

fn row_digest<H: ElementHasher, E: FieldElement<BaseField = H::BaseField>>(row: &[E], term: &Value, hashes: &mut usize) -> H::Digest {
    let range = |v: &Value, a: usize| usize_of(&v[a]);
    match term[0].as_str() {
        Some("he") => {
            *hashes += 1;
            H::hash_elements(&row[range(term, 1)..range(term, 2)])
        },
        Some("mm") => {
            let ds: Vec<H::Digest> = term[1]
                .as_array()
                .unwrap()
                .iter()
                .map(|c| {
                    *hashes += 1;
                    H::hash_elements(&row[range(c, 0)..range(c, 1)])
                })
                .collect();
            *hashes += 1;
            H::merge_many(&ds)
        },
        _ => {
            eprintln!("commit: unknown row term {term}");
            std::process::exit(2)
        },
    }
}

/// ["root", rows, rowterm] over the rows delivered by `row(i)`
fn eval_root<'a, H, E>(term: &Value, nrows: usize, row: impl Fn(usize) -> Vec<E>, hashes: &mut usize) -> Result<H::Digest, String>
where
    H: ElementHasher,
    E: FieldElement<BaseField = H::BaseField>,
{
    if term[0] != "root" {
        return Err(format!("unknown commitment term {term}"));
    }
    if usize_of(&term[1]) != nrows {
        return Err(format!("the matrix has {nrows} rows, the term commits to {}", term[1]));
    }
    let leaves: Vec<H::Digest> = (0..nrows).map(|i| row_digest::<H, E>(&row(i), &term[2], hashes)).collect();
    let tree = MerkleTree::<H>::new(leaves).map_err(|e| format!("MerkleTree::new: {e:?}"))?;
    Ok(*tree.root())
}

fn hex<D: Serializable>(d: &D) -> String {
    d.to_bytes().iter().map(|b| format!("{b:02x}")).collect()
}

fn run<B, E, H>(sc: &Value, rep: &mut Rep, hname: &str)
where
    B: StarkField + Elem,
    E: FieldElement<BaseField = B> + Elem,
    H: ElementHasher<BaseField = B>,
{
    let blowup = usize_of(&sc["blowup"]);
    let polys: Vec<Vec<E>> = sc["polys"].as_array().unwrap().iter().map(|c| vec_of::<E>(c)).collect();
    let cm = ColMatrix::new(polys);
    let lde = match catch(|| RowMatrix::<E>::evaluate_polys::<8>(&cm, blowup)) {
        Ok(m) => m,
        Err(p) => {
            rep.bad.push(json!({"call": "RowMatrix::evaluate_polys::<8>", "what": "panicked", "hasher": hname, "panic": p}));
            return;
        },
    };
    for opt in sc["opts"].as_array().unwrap() {
        let (np, rate) = (usize_of(&opt["np"]), usize_of(&opt["rate"]));
        rep.calls += 1;
        let shape = if opt["term"][2][0] == "he" { "single hash".to_string() } else { format!("{} chunk(s)", opt["term"][2][1].as_array().unwrap().len()) };
        let got = match catch(|| lde.commit_to_rows::<H, MerkleTree<H>>(PartitionOptions::new(np, rate)).commitment()) {
            Ok(c) => c,
            Err(p) => {
                rep.bad.push(json!({"call": "RowMatrix::commit_to_rows", "what": "panicked", "hasher": hname, "np": np, "rate": rate, "shape": shape, "panic": p}));
                continue;
            },
        };
        // the verifier's partition size, as PartitionOptions reports it
        let ps = PartitionOptions::new(np, rate).partition_size::<E>(lde.num_cols());
        if ps != usize_of(&opt["psize"]) {
            rep.bad.push(json!({"call": "PartitionOptions::partition_size", "what": "value", "np": np, "rate": rate, "expected": opt["psize"], "got": ps}));
        }
        match eval_root::<H, E>(&opt["term"], lde.num_rows(), |i| lde.row(i).to_vec(), &mut rep.hashes) {
            Ok(want) if want == got => {},
            Ok(want) => rep.bad.push(json!({"call": "RowMatrix::commit_to_rows", "what": "commitment differs from the vector commitment of the verifier's row digests",
                "hasher": hname, "np": np, "rate": rate, "shape": shape, "term": opt["term"], "expected": hex(&want), "got": hex(&got)})),
            Err(e) => {
                eprintln!("commit: {e}");
                std::process::exit(2)
            },
        }
    }
    // column-major matrix: whole rows
    rep.calls += 1;
    match catch(|| cm.commit_to_rows::<H, MerkleTree<H>>().commitment()) {
        Ok(got) => {
            let k = cm.num_cols();
            let rowf = |i: usize| {
                let mut r = vec![E::ZERO; k];
                cm.read_row_into(i, &mut r);
                r
            };
            match eval_root::<H, E>(&sc["colterm"], cm.num_rows(), rowf, &mut rep.hashes) {
                Ok(want) if want == got => {},
                Ok(want) => rep.bad.push(json!({"call": "ColMatrix::commit_to_rows", "what": "commitment differs from the vector commitment of the row digests",
                    "hasher": hname, "shape": "single hash", "expected": hex(&want), "got": hex(&got)})),
                Err(e) => {
                    eprintln!("commit: {e}");
                    std::process::exit(2)
                },
            }
        },
        Err(p) => rep.bad.push(json!({"call": "ColMatrix::commit_to_rows", "what": "panicked", "hasher": hname, "panic": p})),
    }
}

fn toy<B, E>(sc: &Value, rep: &mut Rep)
where
    B: StarkField + Elem,
    E: FieldElement<BaseField = B> + Elem,
{
    run::<B, E, Blake3_256<B>>(sc, rep, "Blake3_256<toy>");
}

fn f64_runs(sc: &Value, rep: &mut Rep, d: usize) {
    match d {
        1 => {
            run::<F64, F64, Rp64_256>(sc, rep, "Rp64_256");
            run::<F64, F64, Blake3_256<F64>>(sc, rep, "Blake3_256<f64>");
        },
        2 => run::<F64, QuadExtension<F64>, Rp64_256>(sc, rep, "Rp64_256"),
        _ => run::<F64, CubeExtension<F64>, Rp64_256>(sc, rep, "Rp64_256"),
    }
}

pub fn main(args: &[String]) -> i32 {
    let scenarios = read_ndjson(&args[0]);
    let threads: Vec<usize> = args.get(1).map(|s| s.split(',').filter_map(|t| t.parse().ok()).collect()).unwrap_or_default();
    let mut out = Out::new();
    let (mut calls, mut bad, mut runs, mut hashes) = (0usize, 0usize, 0usize, 0usize);
    for_each_pool(&threads, |t| {
        runs += 1;
        for (i, sc) in scenarios.iter().enumerate() {
            let p = usize_of(&sc["P"]);
            let d = usize_of(&sc["d"]);
            let mut rep = Rep { calls: 0, hashes: 0, bad: vec![] };
            with_field!(p, d, toy(sc, &mut rep));
            // the same polynomials (small integers) over the 64-bit field with the Rescue hasher
            if sc["f64"].as_bool().unwrap_or(false) {
                f64_runs(sc, &mut rep, d);
            }
            calls += rep.calls;
            hashes += rep.hashes;
            for d in rep.bad {
                bad += 1;
                out.emit(&json!({"i": i, "threads": t, "detail": d}));
            }
        }
    });
    out.emit(&json!({"summary": true, "scenarios": scenarios.len(), "runs": runs, "calls": calls, "term_hashes": hashes, "mismatches": bad,
        "concurrent": cfg!(feature = "concurrent"), "threads": threads}));
    out.flush();
    0
}
