//! wf-airalg — engines of the AIR-algebra group:
//!   C23  degrees   TransitionConstraintDegree / AirContext degree, blowup, exemption and column rules
//!        divisor   ConstraintDivisor::from_transition (direct and through TransitionConstraints::new)
//!        periodic  Air::get_periodic_column_polys evaluated the way the verifier evaluates them
//!        transeval the prover's DefaultConstraintEvaluator: periodic table, frames, transition divisor with exemptions
//!   C22  boundary  BoundaryConstraints::new: constraints, groups, divisors, coefficient assignment
//!   C28  lde       RowMatrix::evaluate_polys(_over), ColMatrix::{interpolate_columns, evaluate_columns_*}
//!        commit    RowMatrix::commit_to_rows / ColMatrix::commit_to_rows against digest terms
//! Every engine replays scenarios printed by TLC (spec/air/{Degrees,Divisor,Periodic,Boundary}.tla,
//! spec/math/LDE.tla): inputs plus the expected outcomes; the Rust side calls the real functions over
//! the toy fields and compares plain values (or evaluates digest terms with the real hasher).
#![allow(clippy::all)]
mod boundary;
mod commit;
mod degrees;
mod divisor;
mod elem;
mod lde;
mod periodic;
mod pool;
mod toyair;
mod transeval;

fn main() {
    let args: Vec<String> = std::env::args().collect();
    wfcommon::util::install_quiet_panic_hook();
    let code = match args.get(1).map(|s| s.as_str()) {
        Some("degrees") => degrees::main(&args[2..]),
        Some("divisor") => divisor::main(&args[2..]),
        Some("periodic") => periodic::main(&args[2..]),
        Some("transeval") => transeval::main(&args[2..]),
        Some("boundary") => boundary::main(&args[2..]),
        Some("lde") => lde::main(&args[2..]),
        Some("commit") => commit::main(&args[2..]),
        _ => {
            eprintln!("usage: wf-airalg <degrees|divisor|periodic|transeval|boundary|lde|commit> <scenarios.ndjson> [threads,...]");
            2
        },
    };
    std::process::exit(code);
}
