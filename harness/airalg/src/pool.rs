//! Runs a closure once per requested rayon pool size (feature `concurrent`), or once without any
//! pool in the serial build.  The pools are the library's own rayon (winter_utils::rayon), so
//! `rayon::current_num_threads()` inside winterfell sees the requested size.
#[cfg(feature = "concurrent")]
pub fn for_each_pool(threads: &[usize], mut f: impl FnMut(usize) + Send) {
    use winter_utils::rayon::ThreadPoolBuilder;
    if threads.is_empty() {
        eprintln!("concurrent build: pass the thread counts, e.g. 1,2,3,4,7,8,16");
        std::process::exit(2);
    }
    for &t in threads {
        let pool = ThreadPoolBuilder::new().num_threads(t).build().unwrap_or_else(|e| {
            eprintln!("cannot build a pool of {t} threads: {e}");
            std::process::exit(2)
        });
        pool.install(|| {
            assert_eq!(winter_utils::rayon::current_num_threads(), t);
            f(t)
        });
    }
}

#[cfg(not(feature = "concurrent"))]
pub fn for_each_pool(threads: &[usize], mut f: impl FnMut(usize) + Send) {
    if !threads.is_empty() && threads != [0] {
        eprintln!("serial build: thread counts are not applicable");
        std::process::exit(2);
    }
    f(0)
}
