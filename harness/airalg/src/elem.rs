//! JSON <-> field element conversion and (P, degree) -> type dispatch.
//! A base element is a JSON integer (or a 1-array), an extension element an array of coordinates,
//! constant coordinate first — the order of `base_element(i)`.
use serde_json::Value;
use wfcommon::toy::Toy;
use winter_math::{
    fields::{CubeExtension, QuadExtension},
    ExtensibleField, FieldElement, StarkField,
};

pub trait Elem: FieldElement + Send + Sync {
    fn from_json(v: &Value) -> Self;
    fn to_json(&self) -> Value;
}

fn int_of(v: &Value) -> u32 {
    match v {
        Value::Array(a) if a.len() == 1 => int_of(&a[0]),
        _ => v.as_u64().unwrap_or_else(|| {
            eprintln!("scenario: expected an integer, found {v}");
            std::process::exit(2)
        }) as u32,
    }
}

fn coords(v: &Value, n: usize) -> &Vec<Value> {
    match v.as_array() {
        Some(a) if a.len() == n => a,
        _ => {
            eprintln!("scenario: expected {n} coordinates, found {v}");
            std::process::exit(2)
        },
    }
}

impl<const P: u32> Elem for Toy<P, false> {
    fn from_json(v: &Value) -> Self {
        let x = int_of(v);
        if x >= P {
            eprintln!("scenario: value {x} is not below {P}");
            std::process::exit(2)
        }
        Self::new(x)
    }
    fn to_json(&self) -> Value {
        Value::from(self.as_int())
    }
}

impl<B: Elem + StarkField + ExtensibleField<2>> Elem for QuadExtension<B> {
    fn from_json(v: &Value) -> Self {
        let a = coords(v, 2);
        Self::new(B::from_json(&a[0]), B::from_json(&a[1]))
    }
    fn to_json(&self) -> Value {
        Value::Array((0..2).map(|i| self.base_element(i).to_json()).collect())
    }
}

impl<B: Elem + StarkField + ExtensibleField<3>> Elem for CubeExtension<B> {
    fn from_json(v: &Value) -> Self {
        let a = coords(v, 3);
        Self::new(B::from_json(&a[0]), B::from_json(&a[1]), B::from_json(&a[2]))
    }
    fn to_json(&self) -> Value {
        Value::Array((0..3).map(|i| self.base_element(i).to_json()).collect())
    }
}

pub fn vec_of<E: Elem>(v: &Value) -> Vec<E> {
    match v.as_array() {
        Some(a) => a.iter().map(E::from_json).collect(),
        None => {
            eprintln!("scenario: expected an array, found {v}");
            std::process::exit(2)
        },
    }
}

pub fn json_of<E: Elem>(v: &[E]) -> Value {
    Value::Array(v.iter().map(|e| e.to_json()).collect())
}

pub fn usize_of(v: &Value) -> usize {
    v.as_u64().unwrap_or_else(|| {
        eprintln!("scenario: expected an integer, found {v}");
        std::process::exit(2)
    }) as usize
}

/// Calls `$f::<Base, Elem>($args)` for the toy field with modulus `$p` and extension degree `$d`.
#[macro_export]
macro_rules! with_field {
    ($p:expr, $d:expr, $f:ident ( $($args:expr),* )) => {{
        use wfcommon::toy::{F193, F257, F40961, F97};
        use winter_math::fields::{CubeExtension, QuadExtension};
        match ($p, $d) {
            (97, 1) => $f::<F97, F97>($($args),*),
            (97, 2) => $f::<F97, QuadExtension<F97>>($($args),*),
            (97, 3) => $f::<F97, CubeExtension<F97>>($($args),*),
            (193, 1) => $f::<F193, F193>($($args),*),
            (193, 2) => $f::<F193, QuadExtension<F193>>($($args),*),
            (193, 3) => $f::<F193, CubeExtension<F193>>($($args),*),
            (257, 1) => $f::<F257, F257>($($args),*),
            (257, 2) => $f::<F257, QuadExtension<F257>>($($args),*),
            (257, 3) => $f::<F257, CubeExtension<F257>>($($args),*),
            (40961, 1) => $f::<F40961, F40961>($($args),*),
            (40961, 2) => $f::<F40961, QuadExtension<F40961>>($($args),*),
            (40961, 3) => $f::<F40961, CubeExtension<F40961>>($($args),*),
            (p, d) => {
                eprintln!("scenario: unsupported field P={p} degree={d}");
                std::process::exit(2)
            },
        }
    }};
}

// the 64-bit production field, for the commitment engine's Rp64_256 runs: scenario values are small
// non-negative integers (below the toy modulus), taken as canonical representatives
impl Elem for winter_math::fields::f64::BaseElement {
    fn from_json(v: &Value) -> Self {
        Self::new(int_of(v) as u64)
    }
    fn to_json(&self) -> Value {
        Value::from(self.as_int())
    }
}
