//! ToyAir: the smallest `Air` over a toy field — a context built from explicit degree descriptors
//! plus a list of periodic columns.  It has no semantics of its own (the transition function is
//! never evaluated by the engines of this crate); it exists because `AirContext`,
//! `get_periodic_column_polys`, `TransitionConstraints::new` and `BoundaryConstraints::new` are
//! reached through an `Air` / an `AirContext` in the real code.
use winter_air::{
    Air, AirContext, Assertion, AuxRandElements, BatchingMethod, EvaluationFrame, FieldExtension,
    ProofOptions, TraceInfo, TransitionConstraintDegree,
};
use winter_math::{ExtensibleField, ExtensionOf, FieldElement, StarkField, ToElements};

pub fn options(blowup: usize) -> ProofOptions {
    ProofOptions::new(1, blowup, 0, FieldExtension::None, 2, 1, BatchingMethod::Linear, BatchingMethod::Linear)
}

/// Degree descriptor as the scenarios carry it.
#[derive(Clone, Debug)]
pub struct Deg {
    pub base: usize,
    pub cycles: Vec<usize>,
}

impl Deg {
    pub fn build(&self) -> TransitionConstraintDegree {
        if self.cycles.is_empty() {
            TransitionConstraintDegree::new(self.base)
        } else {
            TransitionConstraintDegree::with_cycles(self.base, self.cycles.clone())
        }
    }
}

/// AirContext over B for a trace of `len` rows: `main` / `aux` degree descriptors, widths and
/// assertion counts as given (an auxiliary segment exists iff aux_width > 0).
pub fn context<B: StarkField>(
    len: usize,
    main_width: usize,
    aux_width: usize,
    main: &[Deg],
    aux: &[Deg],
    num_main_assertions: usize,
    num_aux_assertions: usize,
    blowup: usize,
) -> AirContext<B> {
    let main_d: Vec<_> = main.iter().map(|d| d.build()).collect();
    let aux_d: Vec<_> = aux.iter().map(|d| d.build()).collect();
    if aux_width == 0 {
        AirContext::new(TraceInfo::new(main_width, len), main_d, num_main_assertions, options(blowup))
    } else {
        AirContext::new_multi_segment(
            TraceInfo::new_multi_segment(main_width, aux_width, 1, len, vec![]),
            main_d,
            aux_d,
            num_main_assertions,
            num_aux_assertions,
            options(blowup),
        )
    }
}

/// An assertion against the auxiliary segment, kept as base-field coordinates so that it can be
/// rebuilt over whatever extension field `E` the caller works in.
#[derive(Clone, Debug)]
pub struct AuxAssertion<B: StarkField> {
    pub kind: String,
    pub col: usize,
    pub first: usize,
    pub stride: usize,
    /// values, each as EXTENSION_DEGREE base coordinates, flattened
    pub coords: Vec<B>,
}

#[derive(Clone)]
pub struct ToyPub<B: StarkField> {
    pub context: AirContext<B>,
    pub periodic: Vec<Vec<B>>,
}

impl<B: StarkField> ToElements<B> for ToyPub<B> {
    fn to_elements(&self) -> Vec<B> {
        vec![]
    }
}

pub struct ToyAir<B: StarkField> {
    context: AirContext<B>,
    periodic: Vec<Vec<B>>,
    main_assertions: Vec<Assertion<B>>,
    aux_assertions: Vec<AuxAssertion<B>>,
    /// false: every transition constraint is identically zero;
    /// true: constraint k is  periodic_k * current[0] + next[0]
    transition_mode: bool,
}

impl<B: StarkField> ToyAir<B> {
    /// one main column, constraint k = periodic_k * current[0] + next[0], the given assertions
    pub fn with_transitions(context: AirContext<B>, periodic: Vec<Vec<B>>, main: Vec<Assertion<B>>) -> Self {
        ToyAir { context, periodic, main_assertions: main, aux_assertions: vec![], transition_mode: true }
    }
    pub fn from_parts(context: AirContext<B>, periodic: Vec<Vec<B>>) -> Self {
        ToyAir { context, periodic, main_assertions: vec![Assertion::single(0, 0, B::ZERO)], aux_assertions: vec![], transition_mode: false }
    }
    pub fn with_assertions(context: AirContext<B>, main: Vec<Assertion<B>>, aux: Vec<AuxAssertion<B>>) -> Self {
        ToyAir { context, periodic: vec![], main_assertions: main, aux_assertions: aux, transition_mode: false }
    }
}

impl<B: StarkField + ExtensibleField<2> + ExtensibleField<3>> Air for ToyAir<B> {
    type BaseField = B;
    type PublicInputs = ToyPub<B>;

    fn new(_trace_info: TraceInfo, pub_inputs: ToyPub<B>, _options: ProofOptions) -> Self {
        ToyAir::from_parts(pub_inputs.context, pub_inputs.periodic)
    }

    fn context(&self) -> &AirContext<B> {
        &self.context
    }

    fn evaluate_transition<E: FieldElement<BaseField = B>>(
        &self,
        frame: &EvaluationFrame<E>,
        periodic_values: &[E],
        result: &mut [E],
    ) {
        for (k, r) in result.iter_mut().enumerate() {
            *r = if self.transition_mode { periodic_values[k] * frame.current()[0] + frame.next()[0] } else { E::ZERO };
        }
    }

    fn evaluate_aux_transition<F, E>(
        &self,
        _main_frame: &EvaluationFrame<F>,
        _aux_frame: &EvaluationFrame<E>,
        _periodic_values: &[F],
        _aux_rand_elements: &AuxRandElements<E>,
        result: &mut [E],
    ) where
        F: FieldElement<BaseField = B>,
        E: FieldElement<BaseField = B> + ExtensionOf<F>,
    {
        for r in result.iter_mut() {
            *r = E::ZERO;
        }
    }

    fn get_assertions(&self) -> Vec<Assertion<B>> {
        self.main_assertions.clone()
    }

    fn get_aux_assertions<E: FieldElement<BaseField = B>>(&self, _aux_rand_elements: &AuxRandElements<E>) -> Vec<Assertion<E>> {
        self.aux_assertions
            .iter()
            .map(|a| {
                let vals: Vec<E> = E::slice_from_base_elements(&a.coords).to_vec();
                match a.kind.as_str() {
                    "single" => Assertion::single(a.col, a.first, vals[0]),
                    "periodic" => Assertion::periodic(a.col, a.first, a.stride, vals[0]),
                    _ => Assertion::sequence(a.col, a.first, a.stride, vals),
                }
            })
            .collect()
    }

    fn get_periodic_column_values(&self) -> Vec<Vec<B>> {
        self.periodic.clone()
    }
}
