//! ToyAir: the smallest `Air` over a toy field — a context built from explicit degree descriptors
//! plus a list of periodic columns.  It has no semantics of its own (the transition function is
//! never evaluated by the engines of this crate); it exists because `AirContext`,
//! `get_periodic_column_polys`, `TransitionConstraints::new` and `BoundaryConstraints::new` are
//! reached through an `Air` / an `AirContext` in the real code.
use winter_air::{
    Air, AirContext, Assertion, BatchingMethod, EvaluationFrame, FieldExtension, ProofOptions,
    TraceInfo, TransitionConstraintDegree,
};
use winter_math::{ExtensibleField, FieldElement, StarkField, ToElements};

pub fn options(blowup: usize) -> ProofOptions {
    ProofOptions::new(1, blowup, 0, FieldExtension::None, 2, 1, BatchingMethod::Linear, BatchingMethod::Linear)
}

/// Degree descriptor as the scenarios carry it.
#[derive(Clone, Debug)]
pub struct Deg {
    pub base: usize,
    pub cycles: Vec<usize>,
}

impl Deg {
    pub fn build(&self) -> TransitionConstraintDegree {
        if self.cycles.is_empty() {
            TransitionConstraintDegree::new(self.base)
        } else {
            TransitionConstraintDegree::with_cycles(self.base, self.cycles.clone())
        }
    }
}

/// AirContext over B for a trace of `len` rows: `main` / `aux` degree descriptors, widths and
/// assertion counts as given (an auxiliary segment exists iff aux_width > 0).
pub fn context<B: StarkField>(
    len: usize,
    main_width: usize,
    aux_width: usize,
    main: &[Deg],
    aux: &[Deg],
    num_main_assertions: usize,
    num_aux_assertions: usize,
    blowup: usize,
) -> AirContext<B> {
    let main_d: Vec<_> = main.iter().map(|d| d.build()).collect();
    let aux_d: Vec<_> = aux.iter().map(|d| d.build()).collect();
    if aux_width == 0 {
        AirContext::new(TraceInfo::new(main_width, len), main_d, num_main_assertions, options(blowup))
    } else {
        AirContext::new_multi_segment(
            TraceInfo::new_multi_segment(main_width, aux_width, 1, len, vec![]),
            main_d,
            aux_d,
            num_main_assertions,
            num_aux_assertions,
            options(blowup),
        )
    }
}

#[derive(Clone)]
pub struct ToyPub<B: StarkField> {
    pub context: AirContext<B>,
    pub periodic: Vec<Vec<B>>,
}

impl<B: StarkField> ToElements<B> for ToyPub<B> {
    fn to_elements(&self) -> Vec<B> {
        vec![]
    }
}

pub struct ToyAir<B: StarkField> {
    context: AirContext<B>,
    periodic: Vec<Vec<B>>,
}

impl<B: StarkField> ToyAir<B> {
    pub fn from_parts(context: AirContext<B>, periodic: Vec<Vec<B>>) -> Self {
        ToyAir { context, periodic }
    }
}

impl<B: StarkField + ExtensibleField<2> + ExtensibleField<3>> Air for ToyAir<B> {
    type BaseField = B;
    type PublicInputs = ToyPub<B>;

    fn new(_trace_info: TraceInfo, pub_inputs: ToyPub<B>, _options: ProofOptions) -> Self {
        ToyAir { context: pub_inputs.context, periodic: pub_inputs.periodic }
    }

    fn context(&self) -> &AirContext<B> {
        &self.context
    }

    fn evaluate_transition<E: FieldElement<BaseField = B>>(
        &self,
        _frame: &EvaluationFrame<E>,
        _periodic_values: &[E],
        result: &mut [E],
    ) {
        for r in result.iter_mut() {
            *r = E::ZERO;
        }
    }

    fn get_assertions(&self) -> Vec<Assertion<B>> {
        vec![Assertion::single(0, 0, B::ZERO)]
    }

    fn get_periodic_column_values(&self) -> Vec<Vec<B>> {
        self.periodic.clone()
    }
}
