//! C23: periodic columns.  The real polynomials (`Air::get_periodic_column_polys` of a ToyAir whose
//! periodic values are the scenario's) are evaluated the way the verifier evaluates them —
//! `polynom::eval(poly, x^(L / poly.len()))` — at every trace step, on the coset and at extension
//! points, and compared with the values spec/air/Periodic.tla computed from the definition.
use serde_json::{json, Value};
use wfcommon::util::{catch, read_ndjson, Out};
use winter_air::Air;
use winter_math::{polynom, FieldElement, StarkField, ExtensibleField};

use crate::{
    elem::{usize_of, vec_of, Elem},
    toyair::{context, Deg, ToyAir},
    with_field,
};

struct Rep {
    calls: usize,
    bad: Vec<Value>,
}

fn col_at<B: StarkField, E: FieldElement<BaseField = B>>(poly: &[B], len: usize, x: E) -> E {
    let num_cycles = len / poly.len();
    let x = x.exp_vartime((num_cycles as u32).into());
    polynom::eval(poly, x)
}

fn cmp<B: StarkField + Elem, E: FieldElement<BaseField = B> + Elem>(
    rep: &mut Rep,
    what: &str,
    col: usize,
    poly: &[B],
    len: usize,
    xs: &[E],
    expected: &Value,
) {
    let exp: Vec<E> = vec_of(expected);
    for (i, x) in xs.iter().enumerate() {
        rep.calls += 1;
        match catch(|| col_at::<B, E>(poly, len, *x)) {
            Ok(v) if v == exp[i] => {},
            Ok(v) => rep.bad.push(json!({"call": "get_periodic_column_polys", "what": what, "column": col, "cycle": poly.len(),
                "index": i, "x": x.to_json(), "expected": exp[i].to_json(), "got": v.to_json()})),
            Err(p) => rep.bad.push(json!({"call": "get_periodic_column_polys", "what": format!("{what}: evaluation panicked"),
                "column": col, "index": i, "panic": p})),
        }
    }
}

fn run<B, E>(sc: &Value, rep: &mut Rep)
where
    B: StarkField + Elem + ExtensibleField<2> + ExtensibleField<3>,
    E: FieldElement<BaseField = B> + Elem,
{
    let len = usize_of(&sc["L"]);
    let values: Vec<Vec<B>> = sc["values"].as_array().unwrap().iter().map(|c| vec_of::<B>(c)).collect();
    rep.calls += 1;
    let polys = match catch(|| {
        let c = context::<B>(len, 1, 0, &[Deg { base: 1, cycles: vec![] }], &[], 1, 0, 2);
        ToyAir::from_parts(c, values.clone()).get_periodic_column_polys()
    }) {
        Ok(p) => p,
        Err(p) => {
            rep.bad.push(json!({"call": "get_periodic_column_polys", "what": "panicked", "panic": p}));
            return;
        },
    };
    if polys.len() != values.len() {
        rep.bad.push(json!({"call": "get_periodic_column_polys", "what": "number of polynomials", "expected": values.len(), "got": polys.len()}));
        return;
    }
    let dom: Vec<B> = vec_of(&sc["dom"]);
    let coset: Vec<B> = vec_of(&sc["coset"]);
    for (k, poly) in polys.iter().enumerate() {
        if poly.is_empty() || len % poly.len() != 0 {
            rep.bad.push(json!({"call": "get_periodic_column_polys", "what": "polynomial length does not divide the trace length",
                "column": k, "got": poly.len()}));
            continue;
        }
        match E::EXTENSION_DEGREE {
            1 => {
                cmp::<B, B>(rep, "value at a trace step", k, poly, len, &dom, &sc["at"][k]);
                cmp::<B, B>(rep, "value on the coset", k, poly, len, &coset, &sc["oncoset"][k]);
            },
            2 => cmp::<B, E>(rep, "value at an extension point", k, poly, len, &vec_of::<E>(&sc["e2"]), &sc["on2"][k]),
            _ => cmp::<B, E>(rep, "value at an extension point", k, poly, len, &vec_of::<E>(&sc["e3"]), &sc["on3"][k]),
        }
    }
}

pub fn main(args: &[String]) -> i32 {
    let scenarios = read_ndjson(&args[0]);
    let mut out = Out::new();
    let (mut calls, mut bad) = (0usize, 0usize);
    for (i, sc) in scenarios.iter().enumerate() {
        let p = usize_of(&sc["P"]);
        let mut rep = Rep { calls: 0, bad: vec![] };
        for d in 1..=3usize {
            with_field!(p, d, run(sc, &mut rep));
        }
        calls += rep.calls;
        for d in rep.bad {
            bad += 1;
            out.emit(&json!({"i": i, "detail": d}));
        }
    }
    out.emit(&json!({"summary": true, "scenarios": scenarios.len(), "calls": calls, "mismatches": bad}));
    out.flush();
    0
}
