//! C23 (integer part): replay the contexts of spec/air/Degrees.tla on TransitionConstraintDegree
//! and AirContext over F_40961 (any field with enough two-adicity: only domain sizes matter).
use serde_json::{json, Value};
use wfcommon::{
    toy::F40961,
    util::{catch, read_ndjson, usizes_of, Out},
};
use winter_air::TransitionConstraintDegree;

use crate::{
    elem::usize_of,
    toyair::{context, Deg},
};

struct Rep {
    calls: usize,
    extra_cols: usize,
    bad: Vec<Value>,
}

impl Rep {
    fn mismatch(&mut self, call: &str, what: &str, expected: Value, got: Value, panic: &str) {
        self.bad.push(json!({"call": call, "what": what, "expected": expected, "got": got, "panic": panic}));
    }
    /// accept / panic class of a constructor-like call
    fn class<T>(&mut self, call: &str, r: &Result<T, String>, expected_ok: bool, input: Value) -> bool {
        self.calls += 1;
        match (r, expected_ok) {
            (Ok(_), true) | (Err(_), false) => true,
            (Ok(_), false) => {
                self.mismatch(call, "accepted", json!({"class": "panic", "input": input}), json!("accepted"), "");
                false
            },
            (Err(p), true) => {
                self.mismatch(call, "panicked", json!({"class": "accept", "input": input}), json!("panic"), p);
                false
            },
        }
    }
    fn eq(&mut self, call: &str, got: usize, expected: usize, input: Value) {
        self.calls += 1;
        if got != expected {
            self.mismatch(call, "value", json!({"value": expected, "input": input}), json!(got), "");
        }
    }
}

fn degs(v: &Value) -> Vec<Deg> {
    v.as_array()
        .map(|a| a.iter().map(|d| Deg { base: usize_of(&d["base"]), cycles: usizes_of(&d["cycles"]) }).collect())
        .unwrap_or_default()
}

fn ctor(sc: &Value, rep: &mut Rep) {
    let d = Deg { base: usize_of(&sc["base"]), cycles: usizes_of(&sc["cycles"]) };
    let ok = sc["ok"].as_bool().unwrap();
    let input = json!({"base": d.base, "cycles": d.cycles});
    if d.cycles.is_empty() {
        let r = catch(|| TransitionConstraintDegree::new(d.base));
        rep.class("TransitionConstraintDegree::new", &r, ok, input.clone());
    }
    let r = catch(|| TransitionConstraintDegree::with_cycles(d.base, d.cycles.clone()));
    rep.class("TransitionConstraintDegree::with_cycles", &r, ok, input);
}

fn ctx(sc: &Value, rep: &mut Rep) {
    let len = usize_of(&sc["L"]);
    let main = degs(&sc["main"]);
    let aux = degs(&sc["aux"]);
    // per-descriptor values
    for (d, dj) in main.iter().chain(aux.iter()).zip(
        sc["main"].as_array().unwrap().iter().chain(sc["aux"].as_array().unwrap().iter()),
    ) {
        let input = json!({"base": d.base, "cycles": d.cycles, "L": len});
        let t = match catch(|| d.build()) {
            Ok(t) => t,
            Err(p) => {
                rep.mismatch("TransitionConstraintDegree::with_cycles", "panicked", json!({"class": "accept", "input": input}), json!("panic"), &p);
                return;
            },
        };
        match catch(|| t.get_evaluation_degree(len)) {
            Ok(v) => rep.eq("get_evaluation_degree", v, usize_of(&dj["eval"]), input.clone()),
            Err(p) => rep.mismatch("get_evaluation_degree", "panicked", dj["eval"].clone(), json!("panic"), &p),
        }
        match catch(|| t.min_blowup_factor()) {
            Ok(v) => rep.eq("min_blowup_factor", v, usize_of(&dj["minb"]), input.clone()),
            Err(p) => rep.mismatch("min_blowup_factor", "panicked", dj["minb"].clone(), json!("panic"), &p),
        }
    }
    let (mw, aw) = (main.len().max(1), aux.len());
    let ctor_name = if aw == 0 { "AirContext::new" } else { "AirContext::new_multi_segment" };
    let brief = json!({"L": len, "main": sc["main"], "aux": sc["aux"]});
    for (k, opt) in sc["opts"].as_array().unwrap().iter().enumerate() {
        let blowup = usize_of(&opt["b"]);
        let ok = opt["ok"].as_bool().unwrap();
        let r = catch(|| context::<F40961>(len, mw, aw, &main, &aux, 1, if aw > 0 { 1 } else { 0 }, blowup));
        let mut input = brief.clone();
        input["blowup"] = json!(blowup);
        if !rep.class(ctor_name, &r, ok, input.clone()) {
            continue;
        }
        let Ok(c) = r else { continue };
        rep.eq("ce_domain_size", c.ce_domain_size(), usize_of(&sc["ce"]), input.clone());
        rep.eq("num_transition_exemptions(default)", c.num_transition_exemptions(), 1, input.clone());
        // the exemption table is replayed on the first and on the second option blowup alternately
        // (the bounds do not depend on the option blowup)
        if k > 1 {
            continue;
        }
        for row in sc["ex"].as_array().unwrap() {
            let e = usize_of(&row["e"]);
            let eok = row["ok"].as_bool().unwrap();
            let mut inp = input.clone();
            inp["e"] = json!(e);
            let c2 = c.clone();
            let r = catch(move || c2.set_num_transition_exemptions(e));
            if !rep.class("set_num_transition_exemptions", &r, eok, inp.clone()) {
                continue;
            }
            let Ok(c2) = r else { continue };
            rep.eq("num_transition_exemptions", c2.num_transition_exemptions(), e, inp.clone());
            let deg = usize_of(&row["deg"]);
            let need = usize_of(&row["cols"]);
            rep.calls += 1;
            match catch(|| c2.num_constraint_composition_columns()) {
                Ok(cols) => {
                    // the property: enough columns of L coefficients for a polynomial of degree `deg`
                    if cols * len < deg + 1 {
                        rep.mismatch("num_constraint_composition_columns", "too few columns",
                            json!({"at_least": need, "composition_degree": deg, "input": inp}), json!(cols), "");
                    } else if cols > need {
                        rep.extra_cols += 1;
                    }
                    // ... and the constraint evaluation domain must determine that polynomial
                    if c2.ce_domain_size() <= deg {
                        rep.mismatch("ce_domain_size", "domain too small for the composition polynomial",
                            json!({"more_than": deg, "input": inp}), json!(c2.ce_domain_size()), "");
                    }
                },
                Err(p) => rep.mismatch("num_constraint_composition_columns", "panicked", json!({"at_least": need, "input": inp}), json!("panic"), &p),
            }
        }
    }
}

pub fn main(args: &[String]) -> i32 {
    let scenarios = read_ndjson(&args[0]);
    let mut out = Out::new();
    let (mut calls, mut bad, mut extra) = (0usize, 0usize, 0usize);
    for (i, sc) in scenarios.iter().enumerate() {
        let mut rep = Rep { calls: 0, extra_cols: 0, bad: vec![] };
        match sc["t"].as_str() {
            Some("ctor") => ctor(sc, &mut rep),
            Some("ctx") => ctx(sc, &mut rep),
            _ => {
                eprintln!("degrees: unknown scenario type in line {i}");
                return 2;
            },
        }
        calls += rep.calls;
        extra += rep.extra_cols;
        for d in rep.bad {
            bad += 1;
            out.emit(&json!({"i": i, "detail": d}));
        }
    }
    out.emit(&json!({"summary": true, "scenarios": scenarios.len(), "calls": calls, "mismatches": bad, "cols_above_required": extra}));
    out.flush();
    0
}
