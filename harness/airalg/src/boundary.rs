//! C22: boundary constraints.  Scenarios (spec/air/Boundary.tla) carry a valid assertion set with, for
//! every assertion, its asserted steps / points / values, its divisor's values on the coset and at
//! out-of-domain points, and C_a(x, state) at out-of-domain points.  For each permutation of the
//! assertion lists the real `BoundaryConstraints::new` is called; every real constraint is matched to
//! the assertion with the same column whose steps are the zero set (over the whole trace domain) of
//! the constraint's group divisor.  Plain values are compared here; what depends on the coefficient
//! assignment (which the property does not fix) is REPORTED (`obs` lines: assignment per permutation,
//! group members and group values) and validated by TLC (spec/air/TraceBoundary.tla).
use serde_json::{json, Value};
use wfcommon::util::{catch, read_ndjson, usizes_of, Out};
use winter_air::{
    Air, Assertion, AuxRandElements, BoundaryConstraintGroup, BoundaryConstraints,
    ConstraintCompositionCoefficients, PartitionOptions,
};
use winter_crypto::{hashers::Blake3_256, MerkleTree};
use winter_math::{ExtensibleField, ExtensionOf, FieldElement, StarkField};
use winter_prover::{
    matrix::ColMatrix, ConstraintEvaluator, DefaultConstraintEvaluator, DefaultTraceLde, StarkDomain,
    TraceLde,
};

use crate::{
    elem::{json_of, usize_of, vec_of, Elem},
    toyair::{context, AuxAssertion, Deg, ToyAir},
    with_field,
};

struct Rep {
    calls: usize,
    bad: Vec<Value>,
}

impl Rep {
    fn bad(&mut self, call: &str, what: &str, extra: Value) {
        let mut d = json!({"call": call, "what": what});
        if let (Some(o), Some(e)) = (d.as_object_mut(), extra.as_object()) {
            for (k, v) in e {
                o.insert(k.clone(), v.clone());
            }
        }
        self.bad.push(d);
    }
}

fn mk<F: FieldElement + Elem>(row: &Value) -> Assertion<F> {
    let a = &row["a"];
    let col = usize_of(&a["col"]);
    let first = usize_of(&a["first"]);
    let stride = usize_of(&a["stride"]);
    let vals: Vec<F> = vec_of(&a["vals"]);
    match a["k"].as_str().unwrap_or("") {
        "single" => Assertion::single(col, first, vals[0]),
        "periodic" => Assertion::periodic(col, first, stride, vals[0]),
        "sequence" => Assertion::sequence(col, first, stride, vals),
        k => {
            eprintln!("scenario: unknown assertion kind {k}");
            std::process::exit(2)
        },
    }
}

fn shape(row: &Value) -> Value {
    json!({"k": row["a"]["k"], "col": row["a"]["col"], "first": row["a"]["first"], "stride": row["a"]["stride"],
           "nvals": row["a"]["vals"].as_array().map(|v| v.len()).unwrap_or(0)})
}

/// Values of the trace cell tried at an asserted point.
fn candidates<F: FieldElement + Elem, E: FieldElement + From<F>>(p: usize, want: F, j: usize) -> Vec<E> {
    let w = E::from(want);
    let mut v = vec![w, w + E::ONE, w - E::ONE, E::ZERO, E::ONE, w + w, -w, w + E::from(3u32 + j as u32)];
    if p == 97 {
        // every element of the base field
        v.extend((0..97u32).map(E::from));
    }
    v
}

/// Matches the real constraints of one segment to the scenario rows; returns for every row the
/// coefficient index it was given (None if unmatched), the groups as lists of row indexes with their
/// values at the out-of-domain points, and runs the value comparisons when `detailed`.
#[allow(clippy::too_many_arguments)]
fn check_groups<B, F, E>(
    rep: &mut Rep,
    seg: &str,
    p: usize,
    groups: &[BoundaryConstraintGroup<F, E>],
    rows: &[Value],
    tdom: &[B],
    coset: &[B],
    ood: &[E],
    state: &[E],
    cc: &[E],
    ext_probe: &[E],
    detailed: bool,
) -> (Vec<Option<usize>>, Vec<Value>, bool)
where
    B: StarkField + Elem,
    F: FieldElement<BaseField = B> + Elem,
    E: FieldElement<BaseField = B> + ExtensionOf<F> + Elem,
{
    let mut assign: Vec<Option<usize>> = vec![None; rows.len()];
    let mut out_groups = vec![];
    let mut complete = true;
    let steps: Vec<Vec<usize>> = rows.iter().map(|r| usizes_of(&r["steps"])).collect();
    for g in groups {
        let call = format!("BoundaryConstraints::new({seg}).group");
        // zero set of the group's divisor over the whole trace domain
        rep.calls += tdom.len();
        let zeros: Vec<usize> = (0..tdom.len()).filter(|&s| g.divisor().evaluate_at(tdom[s]) == B::ZERO).collect();
        let mut members = vec![];
        for c in g.constraints() {
            let found: Vec<usize> = (0..rows.len())
                .filter(|&i| usize_of(&rows[i]["a"]["col"]) == c.column() && steps[i] == zeros)
                .collect();
            if found.len() != 1 || assign[found[0]].is_some() {
                complete = false;
                rep.bad(&call, "a constraint whose column and divisor zero set match no assertion of the set",
                    json!({"column": c.column(), "divisor_zero_steps": zeros, "candidates": found.len()}));
                continue;
            }
            let i = found[0];
            members.push(i);
            match cc.iter().position(|x| x == c.cc()) {
                Some(k) => assign[i] = Some(k),
                None => {
                    complete = false;
                    rep.bad(&call, "a constraint carries a coefficient that was not supplied",
                        json!({"assertion": shape(&rows[i]), "got": c.cc().to_json()}));
                    continue;
                },
            }
            if !detailed {
                continue;
            }
            let row = &rows[i];
            // divisor: degree, values on the coset and at out-of-domain points
            rep.calls += 1;
            if g.divisor().degree() != steps[i].len() {
                rep.bad("divisor.degree", "value", json!({"assertion": shape(row), "expected": steps[i].len(), "got": g.divisor().degree()}));
            }
            let zc: Vec<B> = vec_of(&row["zc"]);
            for (k, x) in coset.iter().enumerate() {
                rep.calls += 1;
                let got = g.divisor().evaluate_at(*x);
                if got != zc[k] {
                    rep.bad("divisor.evaluate_at", "value on the coset",
                        json!({"assertion": shape(row), "x": x.to_json(), "expected": zc[k].to_json(), "got": got.to_json()}));
                    break;
                }
            }
            let zx: Vec<E> = vec_of(&row["zx"]);
            let num: Vec<E> = vec_of(&row["num"]);
            for (t, x) in ood.iter().enumerate() {
                rep.calls += 2;
                let got = g.divisor().evaluate_at(*x);
                if got != zx[t] {
                    rep.bad("divisor.evaluate_at", "value at an out-of-domain point",
                        json!({"assertion": shape(row), "x": x.to_json(), "expected": zx[t].to_json(), "got": got.to_json()}));
                }
                let got = c.evaluate_at(*x, state[c.column()]);
                if got != num[t] {
                    rep.bad("BoundaryConstraint::evaluate_at", "value at an out-of-domain point",
                        json!({"assertion": shape(row), "x": x.to_json(), "trace_value": state[c.column()].to_json(),
                               "expected": num[t].to_json(), "got": got.to_json()}));
                }
            }
            // vanishing exactly on the asserted value at every asserted point
            let xs: Vec<B> = vec_of(&row["xs"]);
            let want: Vec<F> = vec_of(&row["want"]);
            for j in 0..xs.len() {
                let x = E::from(xs[j]);
                let w = E::from(want[j]);
                let mut cands = candidates::<F, E>(p, want[j], j);
                cands.extend(ext_probe.iter().map(|e| w + *e));
                for v in cands {
                    rep.calls += 1;
                    let got = c.evaluate_at(x, v);
                    let zero = got == E::ZERO;
                    if zero != (v == w) {
                        let what = if v == w { "does not vanish on the asserted value" } else { "vanishes on a value that was not asserted" };
                        rep.bad("BoundaryConstraint::evaluate_at", what,
                            json!({"assertion": shape(row), "step": steps[i][j], "x": xs[j].to_json(), "asserted": want[j].to_json(),
                                   "trace_value": v.to_json(), "got": got.to_json()}));
                        break;
                    }
                }
            }
        }
        if detailed {
            let vals: Vec<E> = ood.iter().map(|x| g.evaluate_at(state, *x)).collect();
            rep.calls += vals.len();
            out_groups.push(json!({"seg": seg, "members": members, "vals": json_of(&vals)}));
        }
    }
    for (i, a) in assign.iter().enumerate() {
        if a.is_none() && complete {
            complete = false;
            rep.bad(&format!("BoundaryConstraints::new({seg})"), "an assertion without a constraint", json!({"assertion": shape(&rows[i])}));
        }
    }
    (assign, out_groups, complete)
}

/// The prover's side (prover/src/constraints/evaluator): DefaultConstraintEvaluator over the scenario's
/// trace with an Air whose transition constraints are identically zero, so that the composition trace
/// is the sum of the boundary groups: value at ce step i = SUM_a cc_a (T_col(x_i) - b_a(x_i)) / Z_a(x_i).
/// `blowup` is the option (LDE) blowup; the constraint evaluation blowup is 2 (declared degrees 1), so the
/// constraint evaluation domain and the expected values are the same for every `blowup`.
/// Returns the values at the scenario's coset steps (steps of the constraint evaluation domain).
fn composition<B, E>(sc: &Value, cc: &[E], blowup: usize) -> Vec<E>
where
    B: StarkField + Elem + ExtensibleField<2> + ExtensibleField<3>,
    E: FieldElement<BaseField = B> + Elem,
{
    let len = usize_of(&sc["L"]);
    let (mw, aw) = (usize_of(&sc["mw"]), usize_of(&sc["aw"]));
    let mrows = sc["main"].as_array().unwrap();
    let arows = sc["aux"].as_array().unwrap();
    let one = [Deg { base: 1, cycles: vec![] }];
    let ctx = context::<B>(len, mw, aw, &one, if aw > 0 { &one } else { &[] }, mrows.len(), arows.len(), blowup);
    let main: Vec<Assertion<B>> = mrows.iter().map(mk::<B>).collect();
    let aux: Vec<AuxAssertion<B>> = arows
        .iter()
        .map(|r| {
            let vals: Vec<E> = vec_of(&r["a"]["vals"]);
            AuxAssertion {
                kind: r["a"]["k"].as_str().unwrap().to_string(),
                col: usize_of(&r["a"]["col"]),
                first: usize_of(&r["a"]["first"]),
                stride: usize_of(&r["a"]["stride"]),
                coords: E::slice_as_base_elements(&vals).to_vec(),
            }
        })
        .collect();
    let air = ToyAir::with_assertions(ctx, main, aux);
    let domain = StarkDomain::new(&air);
    let mtrace: Vec<Vec<B>> = sc["mtrace"].as_array().unwrap().iter().map(|c| vec_of::<B>(c)).collect();
    type H<B> = Blake3_256<B>;
    let (mut lde, _polys) = DefaultTraceLde::<E, H<B>, MerkleTree<H<B>>>::new(
        air.trace_info(), &ColMatrix::new(mtrace), &domain, PartitionOptions::new(1, 1));
    let rands = if aw > 0 {
        let atrace: Vec<Vec<E>> = sc["atrace"].as_array().unwrap().iter().map(|c| vec_of::<E>(c)).collect();
        lde.set_aux_trace(&ColMatrix::new(atrace), &domain);
        Some(AuxRandElements::new(vec![E::ONE]))
    } else {
        None
    };
    let ntrans = air.context().num_transition_constraints();
    let coefficients = ConstraintCompositionCoefficients { transition: vec![E::ONE; ntrans], boundary: cc.to_vec() };
    let evaluator = DefaultConstraintEvaluator::new(&air, rands, coefficients);
    let trace = evaluator.evaluate(&lde, &domain).into_inner();
    usizes_of(&sc["cidx"]).iter().map(|&i| trace[i]).collect()
}

fn run<B, E>(sc: &Value, rep: &mut Rep) -> Value
where
    B: StarkField + Elem + ExtensibleField<2> + ExtensibleField<3>,
    E: FieldElement<BaseField = B> + Elem,
{
    let p = usize_of(&sc["P"]);
    let len = usize_of(&sc["L"]);
    let (mw, aw) = (usize_of(&sc["mw"]), usize_of(&sc["aw"]));
    let mrows = sc["main"].as_array().unwrap();
    let arows = sc["aux"].as_array().unwrap();
    let cc: Vec<E> = vec_of(&sc["cc"]);
    let tdom: Vec<B> = vec_of(&sc["tdom"]);
    let coset: Vec<B> = vec_of(&sc["coset"]);
    let ood: Vec<E> = vec_of(&sc["ood"]);
    let mstate: Vec<E> = vec_of(&sc["mstate"]);
    let astate: Vec<E> = vec_of(&sc["astate"]);
    // non-zero elements of E outside the base field (none when E is the base field)
    let ext_probe: Vec<E> = if E::EXTENSION_DEGREE > 1 {
        cc.iter().chain(ood.iter()).map(|e| *e - E::from(e.base_element(0))).filter(|e| *e != E::ZERO).take(3).collect()
    } else {
        vec![]
    };
    let mperms: Vec<Vec<usize>> = sc["mperms"].as_array().unwrap().iter().map(usizes_of).collect();
    let aperms: Vec<Vec<usize>> = sc["aperms"].as_array().unwrap().iter().map(usizes_of).collect();
    let nperm = mperms.len().max(aperms.len());
    let one = [Deg { base: 1, cycles: vec![] }];
    let ctx = match catch(|| context::<B>(len, mw, aw, &one, if aw > 0 { &one } else { &[] }, mrows.len(), arows.len(), 2)) {
        Ok(c) => c,
        Err(e) => {
            eprintln!("boundary: cannot build the context of a scenario: {e}");
            std::process::exit(2)
        },
    };
    let mut assigns = vec![];
    let mut groups = vec![];
    let mut complete = true;
    for q in 0..nperm {
        let mp = &mperms[q % mperms.len()];
        let ap = &aperms[q % aperms.len()];
        let main: Vec<Assertion<B>> = mp.iter().map(|i| mk::<B>(&mrows[i - 1])).collect();
        let aux: Vec<Assertion<E>> = ap.iter().map(|i| mk::<E>(&arows[i - 1])).collect();
        rep.calls += 1;
        let bc = match catch(|| BoundaryConstraints::<E>::new(&ctx, main, aux, &cc)) {
            Ok(b) => b,
            Err(e) => {
                rep.bad("BoundaryConstraints::new", "panicked on a valid assertion set", json!({"panic": e, "main_order": mp, "aux_order": ap}));
                complete = false;
                continue;
            },
        };
        let (am, gm, c1) = check_groups::<B, B, E>(rep, "main", p, bc.main_constraints(), mrows, &tdom, &coset, &ood, &mstate, &cc, &ext_probe, q == 0);
        let (aa, ga, c2) = check_groups::<B, E, E>(rep, "aux", p, bc.aux_constraints(), arows, &tdom, &coset, &ood, &astate, &cc, &ext_probe, q == 0);
        complete &= c1 && c2;
        // 1-based coefficient index per assertion, main rows then auxiliary rows (0 = unmatched)
        let a: Vec<usize> = am.iter().chain(aa.iter()).map(|x| x.map(|k| k + 1).unwrap_or(0)).collect();
        assigns.push(a);
        if q == 0 {
            for mut g in gm.into_iter().chain(ga.into_iter()) {
                // members as 1-based global indexes (main rows first)
                let off = if g["seg"] == "aux" { mrows.len() } else { 0 };
                let m: Vec<usize> = usizes_of(&g["members"]).iter().map(|i| i + off + 1).collect();
                g["members"] = json!(m);
                groups.push(g);
            }
        }
    }
    // the prover's evaluator (its degree validation of the all-zero transition constraints is a
    // debug assertion: release builds only)
    let mut comp = vec![];
    if !cfg!(debug_assertions) && complete {
        for blowup in usizes_of(&sc["blowups"]) {
            rep.calls += 1;
            match catch(|| composition::<B, E>(sc, &cc, blowup)) {
                Ok(v) => comp.push(json_of(&v)),
                Err(e) => {
                    complete = false;
                    rep.bad("DefaultConstraintEvaluator::evaluate", "panicked on a valid assertion set", json!({"panic": e, "lde_blowup": blowup}))
                },
            }
        }
    }
    json!({"complete": complete, "assign": assigns, "groups": groups, "comp": comp})
}

pub fn main(args: &[String]) -> i32 {
    let scenarios = read_ndjson(&args[0]);
    let mut out = Out::new();
    let (mut calls, mut bad) = (0usize, 0usize);
    for (i, sc) in scenarios.iter().enumerate() {
        let p = usize_of(&sc["P"]);
        let d = usize_of(&sc["d"]);
        let mut rep = Rep { calls: 0, bad: vec![] };
        let obs = with_field!(p, d, run(sc, &mut rep));
        calls += rep.calls;
        for d in rep.bad {
            bad += 1;
            out.emit(&json!({"i": i, "detail": d}));
        }
        out.emit(&json!({"i": i, "obs": obs}));
    }
    out.emit(&json!({"summary": true, "scenarios": scenarios.len(), "calls": calls, "mismatches": bad}));
    out.flush();
    0
}
