pub fn main(_args: &[String]) -> i32 {
    eprintln!("engine not built yet");
    2
}
