//! C23: the transition divisor.  Scenarios (spec/air/GenDivisor.tla) carry, for one (P, L), lists of
//! points (base field and toy extensions) and for every e the value of PROD_{s < L-e} (x - g^s) at
//! every point.  The divisor is built directly (`ConstraintDivisor::from_transition`) and the way an
//! `Air` gets it (`AirContext::set_num_transition_exemptions` + `TransitionConstraints::new`).
use serde_json::{json, Value};
use wfcommon::util::{catch, read_ndjson, Out};
use winter_air::{ConstraintDivisor, TransitionConstraints};
use winter_math::{FieldElement, StarkField};

use crate::{
    elem::{usize_of, Elem},
    toyair::{context, Deg},
    with_field,
};

pub struct Rep {
    pub calls: usize,
    pub poles_zero: usize,
    pub bad: Vec<Value>,
}

fn run<B, E>(sc: &Value, rep: &mut Rep)
where
    B: StarkField + Elem,
    E: FieldElement<BaseField = B> + Elem,
{
    let len = usize_of(&sc["L"]);
    let key = format!("d{}", E::EXTENSION_DEGREE);
    let pts = sc[&key]["pts"].as_array().unwrap();
    let xs: Vec<E> = pts.iter().map(|p| E::from_json(&p["x"])).collect();
    let steps: Vec<i64> = pts.iter().map(|p| p["s"].as_i64().unwrap()).collect();
    let vals = sc[&key]["vals"].as_array().unwrap();
    let through_context = (len * 2).ilog2() <= B::TWO_ADICITY;
    for (k, row) in vals.iter().enumerate() {
        let e = k + 1;
        let mut divs: Vec<(&str, ConstraintDivisor<B>)> = vec![];
        rep.calls += 1;
        match catch(|| ConstraintDivisor::<B>::from_transition(len, e)) {
            Ok(d) => divs.push(("ConstraintDivisor::from_transition", d)),
            Err(p) => rep.bad.push(json!({"call": "ConstraintDivisor::from_transition", "what": "panicked", "e": e, "panic": p})),
        }
        if through_context {
            rep.calls += 1;
            match catch(|| {
                let c = context::<B>(len, 1, 0, &[Deg { base: 1, cycles: vec![] }], &[], 1, 0, 2)
                    .set_num_transition_exemptions(e);
                TransitionConstraints::<E>::new(&c, &[E::ONE]).divisor().clone()
            }) {
                Ok(d) => divs.push(("TransitionConstraints::new.divisor", d)),
                Err(p) => rep.bad.push(json!({"call": "TransitionConstraints::new.divisor", "what": "panicked", "e": e, "panic": p})),
            }
        }
        for (name, d) in divs.iter() {
            rep.calls += 1;
            let deg = d.degree();
            if deg != usize_of(&sc["deg"][k]) {
                rep.bad.push(json!({"call": format!("{name}.degree"), "what": "value", "e": e, "expected": sc["deg"][k], "got": deg}));
            }
            for (i, x) in xs.iter().enumerate() {
                rep.calls += 1;
                let expected = E::from_json(&row[i]);
                let got = match catch(|| d.evaluate_at(*x)) {
                    Ok(v) => v,
                    Err(p) => {
                        rep.bad.push(json!({"call": format!("{name}.evaluate_at"), "what": "panicked", "e": e, "x": pts[i], "panic": p}));
                        continue;
                    },
                };
                if got == expected {
                    continue;
                }
                // an exempted trace-domain point is a 0/0 of the quotient representation
                let pole = steps[i] >= 0 && (steps[i] as usize) >= len - e;
                if pole && got == E::ZERO && d.evaluate_exemptions_at(*x) == E::ZERO {
                    rep.poles_zero += 1;
                    continue;
                }
                let what = if expected == E::ZERO {
                    "does not vanish on a constrained step"
                } else if got == E::ZERO {
                    "vanishes outside the constrained steps"
                } else {
                    "value"
                };
                rep.bad.push(json!({"call": format!("{name}.evaluate_at"), "what": what, "e": e, "x": pts[i],
                    "expected": row[i], "got": got.to_json()}));
            }
        }
    }
}

pub fn main(args: &[String]) -> i32 {
    let scenarios = read_ndjson(&args[0]);
    let mut out = Out::new();
    let (mut calls, mut bad, mut poles) = (0usize, 0usize, 0usize);
    for (i, sc) in scenarios.iter().enumerate() {
        let p = usize_of(&sc["P"]);
        let mut rep = Rep { calls: 0, poles_zero: 0, bad: vec![] };
        for d in 1..=3usize {
            with_field!(p, d, run(sc, &mut rep));
        }
        calls += rep.calls;
        poles += rep.poles_zero;
        for d in rep.bad {
            bad += 1;
            out.emit(&json!({"i": i, "detail": d}));
        }
    }
    out.emit(&json!({"summary": true, "scenarios": scenarios.len(), "calls": calls, "mismatches": bad, "poles_returning_zero": poles}));
    out.flush();
    0
}
