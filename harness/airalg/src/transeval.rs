//! C23, prover side: DefaultConstraintEvaluator::evaluate over a TLC-defined trace for an Air with
//! constraints  periodic_k * current[0] + next[0]  (declared with_cycles(1, [cycle_k])), one single
//! assertion and e transition exemptions; the composition trace is compared with the values
//! spec/air/TransEval.tla computed from the definitions of the periodic columns, the trace
//! polynomial and the transition divisor.  Release builds only (the evaluator's degree validation is a
//! debug assertion and is not what is examined here).
use serde_json::{json, Value};
use wfcommon::util::{catch, read_ndjson, usizes_of, Out};
use winter_air::{Air, Assertion, ConstraintCompositionCoefficients, PartitionOptions};
use winter_crypto::{hashers::Blake3_256, MerkleTree};
use winter_math::{ExtensibleField, FieldElement, StarkField};
use winter_prover::{matrix::ColMatrix, ConstraintEvaluator, DefaultConstraintEvaluator, DefaultTraceLde, StarkDomain};

use crate::{
    elem::{usize_of, vec_of, Elem},
    pool::for_each_pool,
    toyair::{context, Deg, ToyAir},
    with_field,
};

fn composition<B, E>(sc: &Value) -> Vec<E>
where
    B: StarkField + Elem + ExtensibleField<2> + ExtensibleField<3>,
    E: FieldElement<BaseField = B> + Elem,
{
    let len = usize_of(&sc["L"]);
    let e = usize_of(&sc["e"]);
    let periodic: Vec<Vec<B>> = sc["periodic"].as_array().unwrap().iter().map(|c| vec_of::<B>(c)).collect();
    let degs: Vec<Deg> = periodic.iter().map(|p| Deg { base: 1, cycles: vec![p.len()] }).collect();
    let ctx = context::<B>(len, 1, 0, &degs, &[], 1, 0, 2).set_num_transition_exemptions(e);
    let assertion = Assertion::single(0, usize_of(&sc["step"]), B::from_json(&sc["value"]));
    let air = ToyAir::with_transitions(ctx, periodic, vec![assertion]);
    let domain = StarkDomain::new(&air);
    let trace: Vec<B> = vec_of(&sc["trace"]);
    type H<B> = Blake3_256<B>;
    let (lde, _polys) = DefaultTraceLde::<E, H<B>, MerkleTree<H<B>>>::new(
        air.trace_info(), &ColMatrix::new(vec![trace]), &domain, PartitionOptions::new(1, 1));
    let coefficients = ConstraintCompositionCoefficients { transition: vec_of::<E>(&sc["tc"]), boundary: vec![E::from_json(&sc["cc"])] };
    let evaluator = DefaultConstraintEvaluator::new(&air, None, coefficients);
    let comp = evaluator.evaluate(&lde, &domain).into_inner();
    usizes_of(&sc["cidx"]).iter().map(|&i| comp[i]).collect()
}

fn run<B, E>(sc: &Value, bad: &mut Vec<Value>) -> usize
where
    B: StarkField + Elem + ExtensibleField<2> + ExtensibleField<3>,
    E: FieldElement<BaseField = B> + Elem,
{
    let want: Vec<E> = vec_of(&sc["comp"]);
    match catch(|| composition::<B, E>(sc)) {
        Ok(got) => {
            if let Some(i) = (0..want.len()).find(|&i| got[i] != want[i]) {
                bad.push(json!({"call": "DefaultConstraintEvaluator::evaluate", "what": "composition value", "ce_step": sc["cidx"][i],
                    "expected": want[i].to_json(), "got": got[i].to_json(),
                    "differing": (0..want.len()).filter(|&i| got[i] != want[i]).count(), "of": want.len()}));
            }
        },
        Err(p) => bad.push(json!({"call": "DefaultConstraintEvaluator::evaluate", "what": "panicked", "panic": p})),
    }
    want.len()
}

pub fn main(args: &[String]) -> i32 {
    if cfg!(debug_assertions) {
        eprintln!("transeval: release builds only");
        return 2;
    }
    let scenarios = read_ndjson(&args[0]);
    let threads: Vec<usize> = args.get(1).map(|s| s.split(',').filter_map(|t| t.parse().ok()).collect()).unwrap_or_default();
    let mut out = Out::new();
    let (mut calls, mut nbad, mut runs) = (0usize, 0usize, 0usize);
    for_each_pool(&threads, |t| {
        runs += 1;
        for (i, sc) in scenarios.iter().enumerate() {
            let p = usize_of(&sc["P"]);
            let d = usize_of(&sc["d"]);
            let mut bad = vec![];
            calls += with_field!(p, d, run(sc, &mut bad));
            for d in bad {
                nbad += 1;
                out.emit(&json!({"i": i, "threads": t, "detail": d}));
            }
        }
    });
    out.emit(&json!({"summary": true, "scenarios": scenarios.len(), "runs": runs, "calls": calls, "mismatches": nbad,
        "concurrent": cfg!(feature = "concurrent"), "threads": threads}));
    out.flush();
    0
}
