//! C28: low-degree extensions.  Scenarios (spec/math/LDE.tla) carry column polynomials and the expected
//! LDE rows (all, or a seeded sample for large sizes), the trace of the polynomials and their values
//! at extension points.  Real calls: RowMatrix::evaluate_polys::<N> (offset = field generator),
//! RowMatrix::evaluate_polys_over::<N> with a StarkDomain built from twiddles, blowup and offset (N = 8, the
//! prover's segment width, and N = 4), ColMatrix::{evaluate_columns_over, evaluate_columns_at,
//! interpolate_columns, interpolate_columns_into}.
use serde_json::{json, Value};
use wfcommon::util::{catch, read_ndjson, usizes_of, Out};
use winter_math::{fft, FieldElement, StarkField};
use winter_prover::{
    matrix::{ColMatrix, RowMatrix},
    StarkDomain,
};

use crate::{
    elem::{usize_of, vec_of, Elem},
    pool::for_each_pool,
    with_field,
};

struct Rep {
    calls: usize,
    bad: Vec<Value>,
}

fn cols_of<E: Elem>(v: &Value) -> Vec<Vec<E>> {
    v.as_array().map(|a| a.iter().map(|c| vec_of::<E>(c)).collect()).unwrap_or_default()
}

fn check_rows<E: FieldElement + Elem>(rep: &mut Rep, call: &str, m: &RowMatrix<E>, nrows: usize, k: usize, idx: &[usize], rows: &[Vec<E>]) {
    rep.calls += 1;
    if m.num_rows() != nrows || m.num_cols() != k {
        rep.bad.push(json!({"call": call, "what": "matrix shape", "expected": [nrows, k], "got": [m.num_rows(), m.num_cols()]}));
        return;
    }
    for (r, want) in idx.iter().zip(rows.iter()) {
        rep.calls += 1;
        let got = m.row(*r);
        if got != &want[..] {
            let c = (0..k).find(|&c| got[c] != want[c]).unwrap_or(0);
            rep.bad.push(json!({"call": call, "what": "row value", "row": r, "column": c,
                "expected": want[c].to_json(), "got": got[c].to_json()}));
            return;
        }
        // get(col, row) is the same cell
        if m.get(k - 1, *r) != want[k - 1] {
            rep.bad.push(json!({"call": format!("{call}.get"), "what": "cell value", "row": r, "column": k - 1}));
            return;
        }
    }
}

fn lde<B, E>(sc: &Value, rep: &mut Rep)
where
    B: StarkField + Elem,
    E: FieldElement<BaseField = B> + Elem,
{
    let n = usize_of(&sc["n"]);
    let blowup = usize_of(&sc["blowup"]);
    let k = usize_of(&sc["k"]);
    let offset = B::from_json(&sc["offset"]);
    let polys: Vec<Vec<E>> = cols_of(&sc["polys"]);
    let idx = usizes_of(&sc["idx"]);
    let rows: Vec<Vec<E>> = cols_of(&sc["rows"]);
    let nrows = n * blowup;
    let cm = ColMatrix::new(polys.clone());
    macro_rules! try_rows {
        ($call:expr, $e:expr) => {
            match catch(|| $e) {
                Ok(m) => check_rows(rep, $call, &m, nrows, k, &idx, &rows),
                Err(p) => {
                    rep.calls += 1;
                    rep.bad.push(json!({"call": $call, "what": "panicked", "panic": p}))
                },
            }
        };
    }
    if offset == B::GENERATOR {
        try_rows!("RowMatrix::evaluate_polys::<8>", RowMatrix::<E>::evaluate_polys::<8>(&cm, blowup));
        try_rows!("RowMatrix::evaluate_polys::<4>", RowMatrix::<E>::evaluate_polys::<4>(&cm, blowup));
    }
    let domain = match catch(|| StarkDomain::<B>::from_twiddles(fft::get_twiddles::<B>(n), blowup, offset)) {
        Ok(d) => d,
        Err(p) => {
            rep.bad.push(json!({"call": "StarkDomain::from_twiddles", "what": "panicked", "panic": p}));
            return;
        },
    };
    try_rows!("RowMatrix::evaluate_polys_over::<8>", RowMatrix::<E>::evaluate_polys_over::<8>(&cm, &domain));
    try_rows!("RowMatrix::evaluate_polys_over::<4>", RowMatrix::<E>::evaluate_polys_over::<4>(&cm, &domain));
    try_rows!("RowMatrix::evaluate_polys_over::<1>", RowMatrix::<E>::evaluate_polys_over::<1>(&cm, &domain));
    // column-major evaluation
    rep.calls += 1;
    match catch(|| cm.evaluate_columns_over(&domain)) {
        Ok(ev) => {
            if ev.num_rows() != nrows || ev.num_cols() != k {
                rep.bad.push(json!({"call": "ColMatrix::evaluate_columns_over", "what": "matrix shape", "expected": [nrows, k], "got": [ev.num_rows(), ev.num_cols()]}));
            } else {
                'outer: for (r, want) in idx.iter().zip(rows.iter()) {
                    for c in 0..k {
                        rep.calls += 1;
                        if ev.get(c, *r) != want[c] {
                            rep.bad.push(json!({"call": "ColMatrix::evaluate_columns_over", "what": "cell value", "row": r, "column": c,
                                "expected": want[c].to_json(), "got": ev.get(c, *r).to_json()}));
                            break 'outer;
                        }
                    }
                }
            }
        },
        Err(p) => rep.bad.push(json!({"call": "ColMatrix::evaluate_columns_over", "what": "panicked", "panic": p})),
    }
    // evaluation at extension points
    let zs: Vec<E> = vec_of(&sc["zs"]);
    let at: Vec<Vec<E>> = cols_of(&sc["at"]);
    for (z, want) in zs.iter().zip(at.iter()) {
        rep.calls += 1;
        match catch(|| cm.evaluate_columns_at(*z)) {
            Ok(v) if &v == want => {},
            Ok(v) => {
                let c = (0..k.min(v.len())).find(|&c| v[c] != want[c]).unwrap_or(0);
                rep.bad.push(json!({"call": "ColMatrix::evaluate_columns_at", "what": "value", "z": z.to_json(), "column": c,
                    "expected": want.get(c).map(|e| e.to_json()), "got": v.get(c).map(|e| e.to_json())}));
            },
            Err(p) => rep.bad.push(json!({"call": "ColMatrix::evaluate_columns_at", "what": "panicked", "panic": p})),
        }
    }
    // interpolation of the trace gives the polynomials back
    let trace: Vec<Vec<E>> = cols_of(&sc["trace"]);
    if !trace.is_empty() {
        interp_check(rep, trace, &polys);
    }
}

fn interp_check<E: FieldElement + Elem>(rep: &mut Rep, trace: Vec<Vec<E>>, polys: &[Vec<E>]) {
    let tm = ColMatrix::new(trace);
    let cmp = |rep: &mut Rep, call: &str, got: ColMatrix<E>| {
        rep.calls += 1;
        for (c, want) in polys.iter().enumerate() {
            if got.get_column(c) != &want[..] {
                let j = (0..want.len()).find(|&j| got.get_column(c)[j] != want[j]).unwrap_or(0);
                rep.bad.push(json!({"call": call, "what": "coefficient", "column": c, "index": j,
                    "expected": want[j].to_json(), "got": got.get_column(c)[j].to_json()}));
                return;
            }
        }
    };
    match catch(|| tm.interpolate_columns()) {
        Ok(p) => cmp(rep, "ColMatrix::interpolate_columns", p),
        Err(p) => rep.bad.push(json!({"call": "ColMatrix::interpolate_columns", "what": "panicked", "panic": p})),
    }
    match catch(|| tm.clone().interpolate_columns_into()) {
        Ok(p) => cmp(rep, "ColMatrix::interpolate_columns_into", p),
        Err(p) => rep.bad.push(json!({"call": "ColMatrix::interpolate_columns_into", "what": "panicked", "panic": p})),
    }
}

fn interp<B, E>(sc: &Value, rep: &mut Rep)
where
    B: StarkField + Elem,
    E: FieldElement<BaseField = B> + Elem,
{
    let polys: Vec<Vec<E>> = cols_of(&sc["polys"]);
    let trace: Vec<Vec<E>> = cols_of(&sc["trace"]);
    interp_check(rep, trace, &polys);
}

pub fn main(args: &[String]) -> i32 {
    let scenarios = read_ndjson(&args[0]);
    let threads: Vec<usize> = args.get(1).map(|s| s.split(',').filter_map(|t| t.parse().ok()).collect()).unwrap_or_default();
    let mut out = Out::new();
    let (mut calls, mut bad, mut runs) = (0usize, 0usize, 0usize);
    for_each_pool(&threads, |t| {
        runs += 1;
        for (i, sc) in scenarios.iter().enumerate() {
            let p = usize_of(&sc["P"]);
            let d = usize_of(&sc["d"]);
            let mut rep = Rep { calls: 0, bad: vec![] };
            match sc["fam"].as_str() {
                Some("lde") => with_field!(p, d, lde(sc, &mut rep)),
                Some("interp") => with_field!(p, d, interp(sc, &mut rep)),
                _ => {
                    eprintln!("lde: unknown scenario family in line {i}");
                    std::process::exit(2)
                },
            }
            calls += rep.calls;
            for d in rep.bad {
                bad += 1;
                out.emit(&json!({"i": i, "threads": t, "detail": d}));
            }
        }
    });
    out.emit(&json!({"summary": true, "scenarios": scenarios.len(), "runs": runs, "calls": calls, "mismatches": bad,
        "concurrent": cfg!(feature = "concurrent"), "threads": threads}));
    out.flush();
    0
}
