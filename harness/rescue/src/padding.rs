//! C17: every member of the structured input families printed by spec/hash/Padding.tla is hashed with
//! the REAL hasher; the specification says the digests of one (hasher, entry point) family are
//! pairwise different.  This engine only calls the entry points and reports equal digests (and
//! panics); the expected verdict comes from the specification.
use std::collections::HashMap;

use serde_json::{json, Value};
use wfcommon::util::{bytes_of, catch, read_ndjson, Out};
use winter_crypto::{
    hashers::{Blake3_192, Blake3_256, Sha3_256},
    Digest, ElementHasher, Hasher,
};
use winter_math::fields::{f64::BaseElement as F64, CubeExtension, QuadExtension};
use winter_utils::Deserializable;

use crate::hashers::{u64_of, Jive, Rp62, Rp64};
use crate::modes::call_real;

fn byte_digest<H: Hasher>(v: &Value) -> Result<H::Digest, String> {
    H::Digest::read_from_bytes(&bytes_of(v)).map_err(|e| format!("cannot build digest argument: {e}"))
}

fn call_bytes<H: ElementHasher<BaseField = F64>>(c: &Value) -> Result<Vec<u8>, String> {
    let op = c["op"].as_str().unwrap_or("");
    let ds: Vec<H::Digest> = match c["ds"].as_array() {
        Some(a) => a.iter().map(|d| byte_digest::<H>(d)).collect::<Result<_, _>>()?,
        None => vec![],
    };
    let d = match op {
        "hash" => H::hash(&bytes_of(&c["bytes"])),
        "hash_elements" => {
            let es: Vec<F64> = c["elems"].as_array().ok_or("no elems")?.iter().map(|v| F64::new(u64_of(v))).collect();
            match c["deg"].as_u64().unwrap_or(1) {
                1 => H::hash_elements(&es),
                2 => {
                    let q: Vec<QuadExtension<F64>> = es.chunks(2).map(|c| QuadExtension::new(c[0], c[1])).collect();
                    H::hash_elements(&q)
                },
                3 => {
                    let q: Vec<CubeExtension<F64>> = es.chunks(3).map(|c| CubeExtension::new(c[0], c[1], c[2])).collect();
                    H::hash_elements(&q)
                },
                d => return Err(format!("unsupported degree {d}")),
            }
        },
        "merge" => {
            if ds.len() != 2 {
                return Err("merge needs two digests".into());
            }
            H::merge(&[ds[0], ds[1]])
        },
        "merge_many" => H::merge_many(&ds),
        "merge_with_int" => {
            let b = bytes_of(&c["int"]);
            if ds.len() != 1 || b.len() != 8 {
                return Err("merge_with_int needs one digest and 8 bytes".into());
            }
            H::merge_with_int(ds[0], u64::from_le_bytes(b.try_into().unwrap()))
        },
        _ => return Err(format!("unknown op {op}")),
    };
    Ok(d.as_bytes().to_vec())
}

fn rescue_bytes(v: Result<Vec<u64>, String>) -> Result<Vec<u8>, String> {
    v.map(|w| w.iter().flat_map(|x| x.to_le_bytes()).collect())
}

fn digest_of_case(c: &Value) -> Result<Result<Vec<u8>, String>, String> {
    // outer Err: malformed case (tool error); inner Err: the real code panicked (data)
    let h = c["h"].as_str().unwrap_or("").to_string();
    let r = catch(|| match h.as_str() {
        "rp64" => rescue_bytes(call_real::<Rp64>(c, 0)),
        "jive" => rescue_bytes(call_real::<Jive>(c, 0)),
        "rp62" => rescue_bytes(call_real::<Rp62>(c, 0)),
        "b256" => call_bytes::<Blake3_256<F64>>(c),
        "b192" => call_bytes::<Blake3_192<F64>>(c),
        "sha3" => call_bytes::<Sha3_256<F64>>(c),
        _ => Err(format!("unknown hasher {h}")),
    });
    match r {
        Ok(Ok(d)) => Ok(Ok(d)),
        Ok(Err(e)) => Err(e),
        Err(p) => Ok(Err(p)),
    }
}

pub fn main(args: &[String]) -> i32 {
    let cases = read_ndjson(&args[0]);
    let mut out = Out::new();
    let mut seen: HashMap<(String, String, Vec<u8>), usize> = HashMap::new();
    let (mut equal, mut panics, mut hashed) = (0usize, 0usize, 0usize);
    for (i, c) in cases.iter().enumerate() {
        // a family is (hasher, entry point, element degree)
        let key = (c["h"].as_str().unwrap_or("").to_string(),
                   format!("{}/{}", c["op"].as_str().unwrap_or(""), c["deg"].as_u64().unwrap_or(1)));
        match digest_of_case(c) {
            Err(e) => out.emit(&json!({"i": i, "tool_error": e})),
            Ok(Err(p)) => {
                panics += 1;
                out.emit(&json!({"i": i, "kind": "panic", "panic": p}));
            },
            Ok(Ok(d)) => {
                hashed += 1;
                match seen.get(&(key.0.clone(), key.1.clone(), d.clone())) {
                    Some(&j) => {
                        equal += 1;
                        out.emit(&json!({"i": i, "j": j, "kind": "equal", "digest": d}));
                    },
                    None => {
                        seen.insert((key.0, key.1, d), i);
                    },
                }
            },
        }
    }
    out.emit(&json!({"summary": true, "cases": cases.len(), "hashed": hashed, "equal": equal, "panics": panics}));
    out.flush();
    0
}
