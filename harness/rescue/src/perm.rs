//! C16, permutation part: RECORD calls of the real Rescue permutation (and of the public round
//! function of the 64-bit hashers) for spec/hash/TraceRescuePerm.tla to validate.
//!
//! Everything the specification needs to check a round link by link is logged with the call:
//! the canonical input and output state and WITNESSES — the intermediate values of the textbook
//! round (power chains, affine layers, the claimed inverse-S-box values) and the integer quotient of
//! every modular reduction, computed here with plain u128 arithmetic from the pinned constants.
//! Witnesses are untrusted: the specification checks equations with unique solutions, so a wrong
//! witness can only make a right output look wrong.
use std::io::Write;

use serde_json::{json, Value};
use wfcommon::util::catch;
use winter_math::StarkField;

use crate::hashers::{le, le_vec, Jive, Rh, Rng, Rp62, Rp64};

fn mulmod(a: u64, b: u64, p: u64) -> (u64, u64) {
    let t = a as u128 * b as u128;
    ((t % p as u128) as u64, (t / p as u128) as u64)
}

fn powmod(a: u64, mut e: u64, p: u64) -> u64 {
    let mut base = a;
    let mut acc = 1u64 % p;
    while e > 0 {
        if e & 1 == 1 {
            acc = mulmod(acc, base, p).0;
        }
        base = mulmod(base, base, p).0;
        e >>= 1;
    }
    acc
}

/// <<v2, q2, .., va, qa>> with v_k = v_(k-1) * x mod p
fn chain(x: u64, alpha: u64, p: u64) -> (Vec<Value>, u64) {
    let mut out = vec![];
    let mut v = x;
    for _ in 2..=alpha {
        let (c, q) = mulmod(v, x, p);
        out.push(le(c as u128));
        out.push(le(q as u128));
        v = c;
    }
    (out, v)
}

fn affine(m: &[Vec<u64>], ark: &[u64], s: &[u64], p: u64) -> (Vec<u64>, Vec<u128>) {
    let mut t = vec![];
    let mut q = vec![];
    for i in 0..s.len() {
        let mut acc: u128 = ark[i] as u128;
        for j in 0..s.len() {
            acc += m[i][j] as u128 * s[j] as u128;
        }
        t.push((acc % p as u128) as u64);
        q.push(acc / p as u128);
    }
    (t, q)
}

/// the textbook round on canonical integers, with its witnesses
fn witness_round<R: Rh>(s: &[u64], r: usize) -> (Vec<u64>, Value) {
    let p = R::P;
    let (mds, a1, a2) = (R::mds(), R::ark1(), R::ark2());
    let mut sb = vec![];
    let mut u = vec![];
    for &x in s {
        let (c, v) = chain(x, R::ALPHA, p);
        sb.push(Value::Array(c));
        u.push(v);
    }
    let (a, qa) = affine(&mds, &a1[r], &u, p);
    let wa: Vec<Value> = a.iter().zip(&qa).map(|(&v, &q)| json!([le(v as u128), le(q)])).collect();
    let mut ys = vec![];
    let mut wy = vec![];
    for &x in &a {
        let y = powmod(x, R::INV_ALPHA, p);
        let (c, _) = chain(y, R::ALPHA, p);
        let mut row = vec![le(y as u128)];
        row.extend(c);
        wy.push(Value::Array(row));
        ys.push(y);
    }
    let (t, qo) = affine(&mds, &a2[r], &ys, p);
    let wo: Vec<Value> = qo.iter().map(|&q| le(q)).collect();
    (t, json!({"sb": sb, "a": wa, "y": wy, "o": wo}))
}

fn ints<R: Rh>(s: &[R::F]) -> Vec<u64> {
    s.iter().map(|e| e.as_int()).collect()
}

/// boundary values of the field (canonical integers)
fn boundary(p: u64) -> Vec<u64> {
    let mut v = vec![
        0,
        1,
        2,
        3,
        (1 << 31) - 1,
        1 << 31,
        (1 << 32) - 2,
        (1 << 32) - 1,
        1 << 32,
        (1 << 32) + 1,
        (1 << 33) - 1,
        1 << 39,
        (1 << 39) - 1,
        1 << 56,
        (1 << 61) - 1,
        1 << 61,
        (1 << 62) - 1,
        1 << 62,
        (1 << 63) - 1,
        1 << 63,
        (1 << 63) + 1,
        0x8000_0000_8000_0000,
        0x7FFF_FFFF_7FFF_FFFF,
        0x0000_0001_FFFF_FFFF,
        0xFFFF_FFFE_FFFF_FFFF,
        0xFFFF_FFFE_0000_0001,
        0xFFFF_FFFF_0000_0000,
        0x5555_5555_5555_5555,
        0xAAAA_AAAA_AAAA_AAAA,
        0x0000_0000_FFFF_0000,
        0xFFFF_0000_0000_FFFF,
        p - 1,
        p - 2,
        p - 3,
        (p - 1) / 2,
        (p + 1) / 2,
        p - (1 << 32),
        p - (1 << 32) - 1,
        p - (1 << 32) + 1,
        p - (1 << 31),
    ];
    v.retain(|&x| x < p);
    v.sort();
    v.dedup();
    v
}

/// one state per class; `k` enumerates the classes, the seeded generator fills the random parts
fn make_state<R: Rh>(k: usize, rng: &mut Rng) -> (String, Vec<R::F>) {
    let w = R::W;
    let p = R::P;
    let b = boundary(p);
    // Montgomery-form targets: real value v such that the stored 64-bit word is the boundary word m
    // (f64 only: v = m * 2^-64 mod p); for the 62-bit field the `alt` recipes reach the lazy range
    let inv_r64 = powmod(powmod(2, 64, p), p - 2, p);
    match k % 12 {
        0 => ("zero".into(), (0..w).map(|_| R::new(0)).collect()),
        1 => ("pm1".into(), (0..w).map(|_| R::new(p - 1)).collect()),
        2 => ("one".into(), (0..w).map(|_| R::new(1)).collect()),
        3 => ("boundary".into(), (0..w).map(|_| R::new(rng.pick(&b))).collect()),
        4 => {
            // stored words at limb boundaries (64-bit field): value = word * R^-1
            let s = (0..w).map(|_| R::new(mulmod(rng.pick(&b), inv_r64, p).0)).collect();
            ("montgomery-boundary".into(), s)
        },
        5 => {
            // every stored word the same extreme: all high limbs / all low limbs maximal
            let word = [p - 1, 0xFFFF_FFFE_FFFF_FFFF, 0x0000_0000_FFFF_FFFF, 0xFFFF_FFFF_0000_0000][(k / 12) % 4] % p;
            let v = mulmod(word, inv_r64, p).0;
            ("montgomery-extreme".into(), (0..w).map(|_| R::new(v)).collect())
        },
        6 => {
            // alternating extreme / zero words: maximises single frequency components of the FFT-based MDS
            let hi = mulmod(p - 1, inv_r64, p).0;
            let period = [2usize, 3, 4, 6][(k / 12) % 4];
            let s = (0..w).map(|i| R::new(if i % period == 0 { hi } else { 0 })).collect();
            ("montgomery-alternating".into(), s)
        },
        7 => ("alt-representation".into(), (0..w).map(|i| R::alt(rng.pick(&b), i + k)).collect()),
        8 => ("alt-representation-random".into(), (0..w).map(|i| R::alt(rng.below(p), i + k)).collect()),
        9 => ("iota".into(), (0..w).map(|i| R::new(i as u64 + (k / 12) as u64)).collect()),
        10 => {
            // fixed points of both S-boxes (0, 1, -1) reach the MDS layer of the first round unchanged; their
            // Montgomery words are the extremes of the 32-bit limbs (1 -> low limb all ones, -1 -> high limb
            // 2^32 - 2), so mixing them drives the limb recombination of the split MDS product to its carries
            let v = k / 12;
            let pos = (v / 4) % w;
            let s: Vec<R::F> = match v % 4 {
                0 => (0..w).map(|i| R::new(if i == pos { p - 1 } else { 1 })).collect(),
                1 => (0..w).map(|_| R::new(if rng.next() % 2 == 0 { 1 } else { p - 1 })).collect(),
                2 => (0..w).map(|_| R::new([0, 1, p - 1][(rng.next() % 3) as usize])).collect(),
                _ => (0..w).map(|i| R::new(if i == pos { 1 } else { p - 1 })).collect(),
            };
            ("sbox-fixed-points".into(), s)
        },
        11 if p == crate::hashers::P64 => ("mds-carry".into(), mds_carry_state::<R>(k / 12, rng)),
        _ => ("random".into(), (0..w).map(|_| R::new(rng.below(p))).collect()),
    }
}

fn gcd(a: u64, b: u64) -> u64 {
    if b == 0 {
        a
    } else {
        gcd(b, a % b)
    }
}

/// 64-bit hashers: a state whose S-box image, in Montgomery words, makes one row of the integer
/// matrix-vector product  sum_j MDS[r][j] * word_j  land just below a multiple of 2^64 with a non-zero
/// high part — the carry / overflow corner of the split-limb reduction at the end of the FFT-based
/// mds_multiply (crypto/src/hash/mds) that random states reach with probability about 2^-25.
/// variant even: the folded sum overflows 64 bits; odd: it stops just short of overflowing.
fn mds_carry_state<R: Rh>(variant: usize, rng: &mut Rng) -> Vec<R::F> {
    let (w, p) = (R::W, R::P);
    let mds = R::mds();
    let inv_r64 = powmod(powmod(2, 64, p), p - 2, p);
    for _ in 0..1000 {
        let row = (rng.next() % w as u64) as usize;
        let j1 = (rng.next() % w as u64) as usize;
        let j2 = (rng.next() % w as u64) as usize;
        let (c1, c2) = (mds[row][j1], mds[row][j2]);
        if j1 == j2 || gcd(c1, c2) != 1 || c1 < 2 {
            continue;
        }
        let kmax = (c1 + c2 - 1).min(40);
        let k = 2 + rng.next() % (kmax - 1); // high part k - 1 >= 1
        let z = (k as u128 - 1) * 0xFFFF_FFFF;
        let delta = if variant % 2 == 0 { rng.next() as u128 % z.min(1 << 20) } else { z + rng.next() as u128 % (1 << 12) };
        let t: u128 = ((k as u128) << 64) - 1 - delta;
        // c1 * a + c2 * b = t with 0 <= a, b < p
        let inv_c2 = (1..c1).find(|x| (c2 % c1) * x % c1 == 1 % c1).unwrap_or(0);
        let b0 = ((t % c1 as u128) as u64 * inv_c2) % c1;
        let hi = (t / c2 as u128).min(p as u128 - 1);
        let lo = t.saturating_sub(c1 as u128 * (p as u128 - 1)).div_ceil(c2 as u128);
        if lo > hi {
            continue;
        }
        let mut b = lo + (rng.next() as u128) % (hi - lo + 1);
        b = b - (b % c1 as u128) + b0 as u128;
        if b > hi {
            b -= c1 as u128;
        }
        if b < lo || (t - c2 as u128 * b) % c1 as u128 != 0 {
            continue;
        }
        let a = (t - c2 as u128 * b) / c1 as u128;
        if a >= p as u128 {
            continue;
        }
        // words -> values -> pre-images under the S-box
        let mut words = vec![0u64; w];
        words[j1] = a as u64;
        words[j2] = b as u64;
        return words
            .iter()
            .map(|&wd| R::new(powmod(mulmod(wd, inv_r64, p).0, R::INV_ALPHA, p)))
            .collect();
    }
    (0..w).map(|_| R::new(rng.below(p))).collect()
}

struct Sink {
    w: std::io::BufWriter<std::fs::File>,
    n: usize,
}
impl Sink {
    fn emit(&mut self, v: &Value) {
        serde_json::to_writer(&mut self.w, v).unwrap();
        self.w.write_all(b"\n").unwrap();
        self.n += 1;
    }
}

fn record_perm<R: Rh>(out: &mut Sink, pid: usize, class: &str, state: &[R::F], kat: bool) {
    let s0 = ints::<R>(state);
    out.emit(&json!({"ev": "begin", "h": R::TAG, "pid": pid, "class": class, "in": le_vec(&s0), "kat": kat as u8}));
    // witness chain from the input (7 textbook rounds)
    let mut cur = s0.clone();
    for r in 0..7 {
        let (t, w) = witness_round::<R>(&cur, r);
        out.emit(&json!({"ev": "round", "h": R::TAG, "pid": pid, "class": class, "r": r, "chain": 1,
            "in": le_vec(&cur), "out": le_vec(&t), "w": w}));
        cur = t;
    }
    // the real call
    let mut st = state.to_vec();
    match catch(|| {
        R::perm(&mut st);
        ints::<R>(&st)
    }) {
        Ok(o) => out.emit(&json!({"ev": "end", "h": R::TAG, "pid": pid, "class": class, "out": le_vec(&o), "kat": kat as u8})),
        Err(p) => out.emit(&json!({"ev": "end", "h": R::TAG, "pid": pid, "class": class, "out": [], "kat": kat as u8, "panic": p})),
    }
}

fn record_solo<R: Rh>(out: &mut Sink, pid: usize, class: &str, state: &[R::F], r: usize) {
    let s0 = ints::<R>(state);
    let (_, w) = witness_round::<R>(&s0, r);
    let mut st = state.to_vec();
    let res = catch(|| {
        R::round(&mut st, r);
        ints::<R>(&st)
    });
    let mut ev = json!({"ev": "round", "h": R::TAG, "pid": pid, "class": class, "r": r, "chain": 0,
        "in": le_vec(&s0), "w": w});
    match res {
        Ok(o) => ev["out"] = le_vec(&o),
        Err(p) => {
            ev["out"] = json!([]);
            ev["panic"] = json!(p);
        },
    }
    out.emit(&ev);
}

fn run<R: Rh>(seed: u64, classes: &[usize], n_solo: usize, path: &str) -> i32 {
    let f = std::fs::File::create(path).expect("create trace");
    let mut out = Sink { w: std::io::BufWriter::new(f), n: 0 };
    let mut rng = Rng(seed ^ 0xC16 ^ ((R::W as u64) << 32) ^ R::P);
    if let Some([mds, inv, a1, a2]) = R::public_consts() {
        let m = |x: &Vec<Vec<u64>>| Value::Array(x.iter().map(|r| le_vec(r)).collect());
        out.emit(&json!({"ev": "consts", "h": R::TAG, "pid": 0, "mds": m(&mds), "inv": m(&inv), "ark1": m(&a1), "ark2": m(&a2)}));
    }
    let mut pid = 1;
    // the known-answer vector of the sage reference implementation first
    let katin: Vec<R::F> = (0..R::W).map(|i| R::new(i as u64)).collect();
    record_perm::<R>(&mut out, pid, "kat", &katin, true);
    pid += 1;
    for &k in classes {
        let (class, st) = make_state::<R>(k, &mut rng);
        record_perm::<R>(&mut out, pid, &class, &st, false);
        pid += 1;
    }
    // calls of the public round function (64-bit hashers): every round index, shifted classes
    let mut probe = vec![R::new(0); R::W];
    if R::round(&mut probe, 0) {
        for k in 0..n_solo {
            let (class, st) = make_state::<R>(k * 5 + 3, &mut rng);
            record_solo::<R>(&mut out, pid, &class, &st, k % 7);
            pid += 1;
        }
    }
    out.w.flush().unwrap();
    println!("{}", json!({"summary": true, "events": out.n, "calls": pid - 1}));
    0
}

pub fn main(args: &[String]) -> i32 {
    if args.len() < 5 {
        eprintln!("usage: wf-rescue perm <rp64|jive|rp62> <seed> <class,class,..> <n_solo> <out.ndjson>");
        return 2;
    }
    let seed: u64 = args[1].parse().unwrap_or(1);
    let classes: Vec<usize> = args[2].split(',').filter(|s| !s.is_empty()).filter_map(|s| s.parse().ok()).collect();
    let n_solo: usize = args[3].parse().unwrap_or(0);
    match args[0].as_str() {
        "rp64" => run::<Rp64>(seed, &classes, n_solo, &args[4]),
        "jive" => run::<Jive>(seed, &classes, n_solo, &args[4]),
        "rp62" => run::<Rp62>(seed, &classes, n_solo, &args[4]),
        _ => 2,
    }
}
