//! C16, modes part: replay the cases generated from spec/hash/GenSponge.tla on the real entry points
//! (hash, hash_elements, merge, merge_many, merge_with_int of Rp64_256, RpJive64_256, Rp62_248).
//!
//! The expected digest of a case is a TERM computed by the specification (Sponge.tla): an initial
//! state, one block of `add` / `set` operations per permutation call, and an output rule.  The term is
//! evaluated here with the REAL permutation and the real field addition — structure (capacity
//! initialisation, chunking, absorption schedule, padding, Jive summation, digest words) comes from the
//! specification only — and compared (plain equality of canonical integers) with what the real entry
//! point returned.
use serde_json::{json, Value};
use wfcommon::util::{bytes_of, catch, read_ndjson, Out};
use winter_crypto::{ElementHasher, Hasher};
use winter_math::{
    fields::{CubeExtension, QuadExtension},
    ExtensibleField, FieldElement, StarkField,
};

use crate::hashers::{le_vec, u64_of, Jive, Rh, Rp62, Rp64};

/// evaluates a plan; returns the digest words as canonical integers
pub fn eval_plan<R: Rh>(exp: &Value) -> Result<Vec<u64>, String> {
    let init = exp["init"].as_array().ok_or("plan without init")?;
    if init.len() != R::W {
        return Err(format!("plan state width {} for {}", init.len(), R::TAG));
    }
    let mut state: Vec<R::F> = init.iter().map(|v| R::new(u64_of(v))).collect();
    let mut first: Option<Vec<R::F>> = None;
    for block in exp["blocks"].as_array().ok_or("plan without blocks")? {
        for op in block.as_array().ok_or("bad block")? {
            let i = op["i"].as_u64().ok_or("op without position")? as usize;
            if i < 1 || i > R::W {
                return Err(format!("position {i} out of range"));
            }
            let v = R::new(u64_of(&op["v"]));
            match op["k"].as_str() {
                Some("add") => state[i - 1] += v,
                Some("set") => state[i - 1] = v,
                k => return Err(format!("unknown op {k:?}")),
            }
        }
        if first.is_none() {
            first = Some(state.clone());
        }
        R::perm(&mut state);
    }
    let out = &exp["out"];
    match out["k"].as_str() {
        Some("words") => {
            let pos = out["pos"].as_array().ok_or("words without pos")?;
            Ok(pos.iter().map(|p| state[p.as_u64().unwrap_or(1) as usize - 1].as_int()).collect())
        },
        Some("jive") => {
            let first = first.ok_or("jive output without a permutation")?;
            let mut res = vec![];
            for grp in out["pos"].as_array().ok_or("jive without pos")? {
                let mut acc = R::F::ZERO;
                for p in grp.as_array().ok_or("bad jive group")? {
                    let k = p.as_u64().unwrap_or(1) as usize - 1;
                    acc += first[k];
                }
                for p in grp.as_array().ok_or("bad jive group")? {
                    let k = p.as_u64().unwrap_or(1) as usize - 1;
                    acc += state[k];
                }
                res.push(acc.as_int());
            }
            Ok(res)
        },
        k => Err(format!("unknown output rule {k:?}")),
    }
}

/// element of canonical value v; odd selectors go through a recipe that leaves a different internal
/// representation where the field has one (the specification only knows the value)
fn elem<R: Rh>(v: u64, sel: usize) -> R::F {
    if sel % 2 == 1 {
        // (a recipe whose field arithmetic does not produce the value v would be a field defect — C10 —
        // not a hashing one: fall back to the plain constructor so that it cannot masquerade as one)
        let e = R::alt(v, sel / 2);
        if e.as_int() == v {
            return e;
        }
    }
    R::new(v)
}

fn digest_of<R: Rh>(d: &Value, sel: usize) -> Result<<R::H as Hasher>::Digest, String> {
    let a = d.as_array().ok_or("digest must be an array")?;
    if a.len() != 4 {
        return Err("digest must have 4 elements".into());
    }
    Ok(R::digest([
        elem::<R>(u64_of(&a[0]), sel),
        elem::<R>(u64_of(&a[1]), sel + 1),
        elem::<R>(u64_of(&a[2]), sel + 2),
        elem::<R>(u64_of(&a[3]), sel + 3),
    ]))
}

/// calls the real entry point of a case; returns the digest elements as canonical integers
pub fn call_real<R: Rh>(c: &Value, sel: usize) -> Result<Vec<u64>, String>
where
    R::F: ExtensibleField<2> + ExtensibleField<3>,
{
    let op = c["op"].as_str().unwrap_or("");
    let ds: Vec<<R::H as Hasher>::Digest> = match c["ds"].as_array() {
        Some(a) => a.iter().enumerate().map(|(j, d)| digest_of::<R>(d, sel + j)).collect::<Result<_, _>>()?,
        None => vec![],
    };
    let d = match op {
        "hash" => <R::H as Hasher>::hash(&bytes_of(&c["bytes"])),
        "hash_elements" => {
            let vals: Vec<R::F> = c["elems"]
                .as_array()
                .ok_or("no elems")?
                .iter()
                .enumerate()
                .map(|(i, v)| elem::<R>(u64_of(v), sel + i))
                .collect();
            match c["deg"].as_u64().unwrap_or(1) {
                1 => <R::H as ElementHasher>::hash_elements(&vals),
                2 => {
                    let es: Vec<QuadExtension<R::F>> =
                        vals.chunks(2).map(|c| QuadExtension::new(c[0], c[1])).collect();
                    <R::H as ElementHasher>::hash_elements(&es)
                },
                3 => {
                    let es: Vec<CubeExtension<R::F>> =
                        vals.chunks(3).map(|c| CubeExtension::new(c[0], c[1], c[2])).collect();
                    <R::H as ElementHasher>::hash_elements(&es)
                },
                d => return Err(format!("unsupported degree {d}")),
            }
        },
        "merge" => {
            if ds.len() != 2 {
                return Err("merge needs two digests".into());
            }
            <R::H as Hasher>::merge(&[ds[0], ds[1]])
        },
        "merge_many" => <R::H as Hasher>::merge_many(&ds),
        "merge_with_int" => {
            if ds.len() != 1 {
                return Err("merge_with_int needs one digest".into());
            }
            let b = bytes_of(&c["int"]);
            if b.len() != 8 {
                return Err("int must have 8 bytes".into());
            }
            <R::H as Hasher>::merge_with_int(ds[0], u64::from_le_bytes(b.try_into().unwrap()))
        },
        _ => return Err(format!("unknown op {op}")),
    };
    Ok(R::digest_elements(&d).iter().map(|e| e.as_int()).collect())
}

fn run_one<R: Rh>(idx: usize, sc: &Value) -> Result<Option<Value>, String>
where
    R::F: ExtensibleField<2> + ExtensibleField<3>,
{
    let c = &sc["c"];
    // both representations of the arguments: plain and through the alternative recipes
    for sel in [0usize, 1 + 2 * (idx % 8)] {
        let got = match catch(|| call_real::<R>(c, sel)) {
            Ok(r) => r?,
            Err(p) => {
                return Ok(Some(json!({"kind": "panic", "h": R::TAG, "op": c["op"], "panic": p, "rep": sel})));
            },
        };
        let exp = match catch(|| eval_plan::<R>(&sc["exp"])) {
            Ok(r) => r?,
            Err(p) => return Err(format!("term evaluation panicked: {p}")),
        };
        if got != exp {
            return Ok(Some(json!({"kind": "digest", "h": R::TAG, "op": c["op"], "rep": sel,
                "expected": le_vec(&exp), "got": le_vec(&got)})));
        }
    }
    Ok(None)
}

pub fn main(args: &[String]) -> i32 {
    let scenarios = read_ndjson(&args[0]);
    let mut out = Out::new();
    let mut bad = 0usize;
    for (i, sc) in scenarios.iter().enumerate() {
        let r = match sc["c"]["h"].as_str() {
            Some("rp64") => run_one::<Rp64>(i, sc),
            Some("jive") => run_one::<Jive>(i, sc),
            Some("rp62") => run_one::<Rp62>(i, sc),
            h => Err(format!("unknown hasher {h:?}")),
        };
        match r {
            Ok(None) => {},
            Ok(Some(d)) => {
                bad += 1;
                out.emit(&json!({"i": i, "ok": false, "detail": d}));
            },
            Err(e) => {
                // a malformed scenario is a tool error, reported as such
                out.emit(&json!({"i": i, "tool_error": e}));
            },
        }
    }
    out.emit(&json!({"summary": true, "scenarios": scenarios.len(), "mismatches": bad}));
    out.flush();
    0
}
