pub fn main(_args: &[String]) -> i32 { 2 }
