//! wf-rescue — engines for the Rescue hashers and hash padding (C16, C17).
//!   perm    <hasher> <seed> <class,..> <n_solo> <out.ndjson>   record permutation / round calls (+ witnesses)
//!   modes   <scenarios.ndjson>                                replay Sponge.tla terms on the real entry points
//!   distinct <families.ndjson>                                C17: digests of every family member pairwise
#![allow(clippy::all)]
mod consts;
mod hashers;
mod modes;
mod padding;
mod perm;

fn main() {
    let args: Vec<String> = std::env::args().collect();
    wfcommon::util::install_quiet_panic_hook();
    let code = match args.get(1).map(|s| s.as_str()) {
        Some("perm") => perm::main(&args[2..]),
        Some("modes") => modes::main(&args[2..]),
        Some("distinct") => padding::main(&args[2..]),
        _ => {
            eprintln!("usage: wf-rescue <perm|modes|distinct> ...");
            2
        },
    };
    std::process::exit(code);
}
