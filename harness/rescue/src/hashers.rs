//! The three Rescue hashers behind one small interface: the REAL permutation / round / entry points
//! and field operations, plus the pinned constants used only for witness computation.
use serde_json::Value;
use winter_crypto::{
    hashers::{Rp62_248, Rp64_256, RpJive64_256},
    ElementHasher, Hasher,
};
use winter_math::{
    fields::{f62, f64},
    FieldElement, StarkField,
};

use crate::consts;

pub const P64: u64 = 0xFFFF_FFFF_0000_0001;
pub const P62: u64 = 4611624995532046337; // 2^62 - 111 * 2^39 + 1

/// trimmed little-endian bytes (zero is the empty array): the BigNat encoding of the specifications
pub fn le(v: u128) -> Value {
    let mut out = vec![];
    let mut x = v;
    while x > 0 {
        out.push(Value::from((x & 255) as u64));
        x >>= 8;
    }
    Value::Array(out)
}

pub fn le_vec(v: &[u64]) -> Value {
    Value::Array(v.iter().map(|&x| le(x as u128)).collect())
}

pub fn u64_of(v: &Value) -> u64 {
    let mut x: u64 = 0;
    if let Some(a) = v.as_array() {
        for (i, b) in a.iter().enumerate() {
            if i < 8 {
                x |= (b.as_u64().unwrap_or(0) & 255) << (8 * i);
            }
        }
    }
    x
}

pub trait Rh {
    const TAG: &'static str;
    const W: usize;
    const ALPHA: u64;
    const INV_ALPHA: u64;
    const P: u64;
    const RATE: usize;
    type F: StarkField<PositiveInteger = u64> + FieldElement<BaseField = Self::F>;
    type H: ElementHasher<BaseField = Self::F>;

    fn new(v: u64) -> Self::F;
    /// an element of value v (< p) whose INTERNAL representation differs from new(v) where the field
    /// allows it; `k` selects the recipe
    fn alt(v: u64, k: usize) -> Self::F;
    /// real permutation
    fn perm(s: &mut [Self::F]);
    /// real public round function, if the hasher exposes one
    fn round(s: &mut [Self::F], r: usize) -> bool;
    fn digest(e: [Self::F; 4]) -> <Self::H as Hasher>::Digest;
    fn digest_elements(d: &<Self::H as Hasher>::Digest) -> Vec<Self::F>;
    /// pinned constants (witness computation only)
    fn mds() -> Vec<Vec<u64>>;
    fn ark1() -> Vec<Vec<u64>>;
    fn ark2() -> Vec<Vec<u64>>;
    /// the constants the hasher publishes, as canonical integers
    fn public_consts() -> Option<[Vec<Vec<u64>>; 4]>;
}

fn rows<const W: usize, const N: usize>(m: &[[u64; W]; N]) -> Vec<Vec<u64>> {
    m.iter().map(|r| r.to_vec()).collect()
}
fn rows_f<const W: usize, const N: usize>(m: &[[f64::BaseElement; W]; N]) -> Vec<Vec<u64>> {
    m.iter().map(|r| r.iter().map(|e| e.as_int()).collect()).collect()
}

pub struct Rp64;
pub struct Jive;
pub struct Rp62;

fn alt64(v: u64, k: usize) -> f64::BaseElement {
    use f64::BaseElement as B;
    // the 64-bit field documents canonical internal values; these recipes go through the arithmetic
    // that C10 found to leave the canonical range in some trees (double, mul_small) and through
    // sub/neg, so whatever representation classes exist are fed to the hashers
    match k % 4 {
        0 => B::ZERO - B::new((P64 - v) % P64),
        1 => {
            if v % 2 == 0 {
                B::new(v / 2).double()
            } else {
                B::new(v / 2).double() + B::ONE
            }
        },
        2 => {
            if v % 3 == 0 {
                B::new(v / 3).mul_small(3)
            } else {
                B::new(v - 1) + B::ONE
            }
        },
        _ => -(-B::new(v)),
    }
}

fn alt62(v: u64, k: usize) -> f62::BaseElement {
    use f62::BaseElement as B;
    // the 62-bit field keeps values in the lazy range [0, 2M): the same value through add / sub / neg /
    // double ends in different stored words
    match k % 4 {
        0 => B::new(P62 - 1) + B::new((v + 1) % P62),
        1 => B::ZERO - B::new((P62 - v) % P62),
        2 => {
            if v % 2 == 0 {
                B::new(v / 2).double()
            } else {
                B::new(v / 2).double() + B::ONE
            }
        },
        _ => -(-B::new(v)),
    }
}

impl Rh for Rp64 {
    const TAG: &'static str = "rp64";
    const W: usize = 12;
    const ALPHA: u64 = 7;
    const INV_ALPHA: u64 = 10540996611094048183;
    const P: u64 = P64;
    const RATE: usize = 8;
    type F = f64::BaseElement;
    type H = Rp64_256;
    fn new(v: u64) -> Self::F {
        f64::BaseElement::new(v)
    }
    fn alt(v: u64, k: usize) -> Self::F {
        alt64(v, k)
    }
    fn perm(s: &mut [Self::F]) {
        let a: &mut [Self::F; 12] = s.try_into().unwrap();
        Rp64_256::apply_permutation(a)
    }
    fn round(s: &mut [Self::F], r: usize) -> bool {
        let a: &mut [Self::F; 12] = s.try_into().unwrap();
        Rp64_256::apply_round(a, r);
        true
    }
    fn digest(e: [Self::F; 4]) -> <Self::H as Hasher>::Digest {
        <Self::H as Hasher>::Digest::new(e)
    }
    fn digest_elements(d: &<Self::H as Hasher>::Digest) -> Vec<Self::F> {
        d.as_elements().to_vec()
    }
    fn mds() -> Vec<Vec<u64>> {
        rows(&consts::RP64_MDS)
    }
    fn ark1() -> Vec<Vec<u64>> {
        rows(&consts::RP64_ARK1)
    }
    fn ark2() -> Vec<Vec<u64>> {
        rows(&consts::RP64_ARK2)
    }
    fn public_consts() -> Option<[Vec<Vec<u64>>; 4]> {
        Some([rows_f(&Rp64_256::MDS), rows_f(&Rp64_256::INV_MDS), rows_f(&Rp64_256::ARK1), rows_f(&Rp64_256::ARK2)])
    }
}

impl Rh for Jive {
    const TAG: &'static str = "jive";
    const W: usize = 8;
    const ALPHA: u64 = 7;
    const INV_ALPHA: u64 = 10540996611094048183;
    const P: u64 = P64;
    const RATE: usize = 4;
    type F = f64::BaseElement;
    type H = RpJive64_256;
    fn new(v: u64) -> Self::F {
        f64::BaseElement::new(v)
    }
    fn alt(v: u64, k: usize) -> Self::F {
        alt64(v, k)
    }
    fn perm(s: &mut [Self::F]) {
        let a: &mut [Self::F; 8] = s.try_into().unwrap();
        RpJive64_256::apply_permutation(a)
    }
    fn round(s: &mut [Self::F], r: usize) -> bool {
        let a: &mut [Self::F; 8] = s.try_into().unwrap();
        RpJive64_256::apply_round(a, r);
        true
    }
    fn digest(e: [Self::F; 4]) -> <Self::H as Hasher>::Digest {
        <Self::H as Hasher>::Digest::new(e)
    }
    fn digest_elements(d: &<Self::H as Hasher>::Digest) -> Vec<Self::F> {
        d.as_elements().to_vec()
    }
    fn mds() -> Vec<Vec<u64>> {
        rows(&consts::JIVE_MDS)
    }
    fn ark1() -> Vec<Vec<u64>> {
        rows(&consts::JIVE_ARK1)
    }
    fn ark2() -> Vec<Vec<u64>> {
        rows(&consts::JIVE_ARK2)
    }
    fn public_consts() -> Option<[Vec<Vec<u64>>; 4]> {
        Some([
            rows_f(&RpJive64_256::MDS),
            rows_f(&RpJive64_256::INV_MDS),
            rows_f(&RpJive64_256::ARK1),
            rows_f(&RpJive64_256::ARK2),
        ])
    }
}

impl Rh for Rp62 {
    const TAG: &'static str = "rp62";
    const W: usize = 12;
    const ALPHA: u64 = 3;
    const INV_ALPHA: u64 = 3074416663688030891;
    const P: u64 = P62;
    const RATE: usize = 8;
    type F = f62::BaseElement;
    type H = Rp62_248;
    fn new(v: u64) -> Self::F {
        f62::BaseElement::new(v)
    }
    fn alt(v: u64, k: usize) -> Self::F {
        alt62(v, k)
    }
    fn perm(s: &mut [Self::F]) {
        let a: &mut [Self::F; 12] = s.try_into().unwrap();
        // the permutation is private in rp62_248; /repo exposes it under --cfg winterfell_verif
        Rp62_248::verif_apply_permutation(a)
    }
    fn round(_s: &mut [Self::F], _r: usize) -> bool {
        false
    }
    fn digest(e: [Self::F; 4]) -> <Self::H as Hasher>::Digest {
        <Self::H as Hasher>::Digest::new(e)
    }
    fn digest_elements(d: &<Self::H as Hasher>::Digest) -> Vec<Self::F> {
        d.as_elements().to_vec()
    }
    fn mds() -> Vec<Vec<u64>> {
        rows(&consts::RP62_MDS)
    }
    fn ark1() -> Vec<Vec<u64>> {
        rows(&consts::RP62_ARK1)
    }
    fn ark2() -> Vec<Vec<u64>> {
        rows(&consts::RP62_ARK2)
    }
    fn public_consts() -> Option<[Vec<Vec<u64>>; 4]> {
        None
    }
}

/// deterministic generator (splitmix64), seeded from VERIF_SEED by the caller
pub struct Rng(pub u64);
impl Rng {
    pub fn next(&mut self) -> u64 {
        self.0 = self.0.wrapping_add(0x9E3779B97F4A7C15);
        let mut z = self.0;
        z = (z ^ (z >> 30)).wrapping_mul(0xBF58476D1CE4E5B9);
        z = (z ^ (z >> 27)).wrapping_mul(0x94D049BB133111EB);
        z ^ (z >> 31)
    }
    pub fn below(&mut self, n: u64) -> u64 {
        // n > 2^61 in every use: rejection keeps it uniform
        loop {
            let v = self.next() >> (n.leading_zeros());
            if v < n {
                return v;
            }
        }
    }
    pub fn pick<T: Copy>(&mut self, xs: &[T]) -> T {
        xs[(self.next() % xs.len() as u64) as usize]
    }
}
