//! C26: replay encode/decode cases generated from spec/serde/Vint.tla and spec/serde/Codec.tla on the
//! real `Serializable` / `Deserializable` implementations of winter-utils.
//!
//! A scenario (one ndjson line, everything computed by TLC) is
//!   { "ty": <type descriptor>, "kind": "rt"|"trunc"|"corrupt"|"raw", "cls": <input class>,
//!     "v": <value or []>, "enc": <bytes>, "hint": <int or -1>, "input": <bytes>,
//!     "exp": {"t": "ok", "n": <bytes consumed>, "val": <decoded value>} |
//!            {"t": "err", "kinds": ["eof"|"invalid", ...]},
//!     "fl": [flags: "big" (a length prefix >= 2^20 is reached), "dup" (duplicate map keys), ...] }
//! Type descriptors: ["u8"], ["vec", T], ["opt", T], ["arr", N, T], ["map", K, V], ["set", T],
//! ["tuple", [T1, ..]], ["string"], ["bool"], ["usize"], ["unit"].  Values: integers are little-endian
//! byte arrays, bool is a JSON boolean, Option is [] / [v], sequences are arrays, maps are arrays of
//! [k, v] pairs, strings are UTF-8 byte arrays.
//!
//! The harness holds no expectations of its own: it maps the descriptor to a monomorphic Rust type
//! from a fixed menu, builds the value with `from_json`, calls the real `to_bytes` / `write_into` /
//! `get_size_hint` / `read_from` (on SliceReader, std::io::Cursor, ReadAdapter and through
//! `read_from_bytes`) and compares plain values with what the specification computed.
//! Panics are outcomes.  All scenarios run in a forked worker under an address-space limit, so an
//! allocation abort of the code under test is an outcome too and never kills the harness.
use std::{
    collections::{BTreeMap, BTreeSet},
    fmt::Debug,
    io::Write,
};

use serde_json::{json, Value};
use wfcommon::util::{bytes_of, catch, json_bytes};
use winter_utils::{
    ByteReader, ByteWriter, Deserializable, DeserializationError, ReadAdapter, Serializable,
    SliceReader,
};

// ---------------------------------------------------------------------------------------------
// bool has no Serializable impl of its own: it is written with write_bool and read with read_bool
// ---------------------------------------------------------------------------------------------
#[derive(Debug, Clone, Copy, PartialEq, Eq, PartialOrd, Ord)]
pub struct B(bool);

impl Serializable for B {
    fn write_into<W: ByteWriter>(&self, target: &mut W) {
        target.write_bool(self.0)
    }
    fn get_size_hint(&self) -> usize {
        1
    }
}

impl Deserializable for B {
    fn read_from<R: ByteReader>(source: &mut R) -> Result<Self, DeserializationError> {
        source.read_bool().map(B)
    }
}

// ---------------------------------------------------------------------------------------------
// JSON <-> typed values
// ---------------------------------------------------------------------------------------------
pub trait Model: Serializable + Deserializable + PartialEq + Debug + Sized {
    fn name() -> String;
    fn from_json(v: &Value) -> Option<Self>;
}

fn le_bytes<const N: usize>(v: &Value) -> Option<[u8; N]> {
    let a = v.as_array()?;
    if a.len() != N {
        return None;
    }
    let mut out = [0u8; N];
    for (i, x) in a.iter().enumerate() {
        let b = x.as_u64()?;
        if b > 255 {
            return None;
        }
        out[i] = b as u8;
    }
    Some(out)
}

macro_rules! int_model {
    ($t:ty, $n:literal, $name:literal) => {
        impl Model for $t {
            fn name() -> String {
                $name.to_string()
            }
            fn from_json(v: &Value) -> Option<Self> {
                le_bytes::<$n>(v).map(<$t>::from_le_bytes)
            }
        }
    };
}
int_model!(u8, 1, "u8");
int_model!(u16, 2, "u16");
int_model!(u32, 4, "u32");
int_model!(u64, 8, "u64");
int_model!(u128, 16, "u128");

impl Model for usize {
    fn name() -> String {
        "usize".into()
    }
    fn from_json(v: &Value) -> Option<Self> {
        let x = u64::from_le_bytes(le_bytes::<8>(v)?);
        usize::try_from(x).ok()
    }
}

impl Model for B {
    fn name() -> String {
        "bool".into()
    }
    fn from_json(v: &Value) -> Option<Self> {
        v.as_bool().map(B)
    }
}

impl Model for () {
    fn name() -> String {
        "unit".into()
    }
    fn from_json(v: &Value) -> Option<Self> {
        if v.as_array()?.is_empty() {
            Some(())
        } else {
            None
        }
    }
}

impl Model for String {
    fn name() -> String {
        "string".into()
    }
    fn from_json(v: &Value) -> Option<Self> {
        let a = v.as_array()?;
        let mut bytes = Vec::with_capacity(a.len());
        for x in a {
            let b = x.as_u64()?;
            if b > 255 {
                return None;
            }
            bytes.push(b as u8);
        }
        String::from_utf8(bytes).ok()
    }
}

impl<T: Model> Model for Option<T> {
    fn name() -> String {
        format!("opt<{}>", T::name())
    }
    fn from_json(v: &Value) -> Option<Self> {
        let a = v.as_array()?;
        match a.len() {
            0 => Some(None),
            1 => T::from_json(&a[0]).map(Some),
            _ => None,
        }
    }
}

impl<T: Model> Model for Vec<T> {
    fn name() -> String {
        format!("vec<{}>", T::name())
    }
    fn from_json(v: &Value) -> Option<Self> {
        v.as_array()?.iter().map(T::from_json).collect()
    }
}

impl<T: Model, const N: usize> Model for [T; N] {
    fn name() -> String {
        format!("[{};{}]", T::name(), N)
    }
    fn from_json(v: &Value) -> Option<Self> {
        let items: Vec<T> = v.as_array()?.iter().map(T::from_json).collect::<Option<_>>()?;
        items.try_into().ok()
    }
}

impl<T: Model + Ord> Model for BTreeSet<T> {
    fn name() -> String {
        format!("set<{}>", T::name())
    }
    fn from_json(v: &Value) -> Option<Self> {
        v.as_array()?.iter().map(T::from_json).collect()
    }
}

impl<K: Model + Ord, V: Model> Model for BTreeMap<K, V> {
    fn name() -> String {
        format!("map<{},{}>", K::name(), V::name())
    }
    fn from_json(v: &Value) -> Option<Self> {
        let mut m = BTreeMap::new();
        for e in v.as_array()? {
            let p = e.as_array()?;
            if p.len() != 2 {
                return None;
            }
            m.insert(K::from_json(&p[0])?, V::from_json(&p[1])?);
        }
        Some(m)
    }
}

macro_rules! tuple_model {
    ($n:literal; $($t:ident $i:tt),+) => {
        impl<$($t: Model),+> Model for ($($t,)+) {
            fn name() -> String {
                let parts: Vec<String> = vec![$($t::name()),+];
                format!("({})", parts.join(","))
            }
            fn from_json(v: &Value) -> Option<Self> {
                let a = v.as_array()?;
                if a.len() != $n {
                    return None;
                }
                Some(($($t::from_json(&a[$i])?,)+))
            }
        }
    };
}
tuple_model!(1; T1 0);
tuple_model!(2; T1 0, T2 1);
tuple_model!(3; T1 0, T2 1, T3 2);
tuple_model!(4; T1 0, T2 1, T3 2, T4 3);
tuple_model!(5; T1 0, T2 1, T3 2, T4 3, T5 4);
tuple_model!(6; T1 0, T2 1, T3 2, T4 3, T5 4, T6 5);

/// Name of a type descriptor, in the same syntax as `Model::name`.
fn desc_name(d: &Value) -> String {
    let a = match d.as_array() {
        Some(a) if !a.is_empty() => a,
        _ => return "?".into(),
    };
    match a[0].as_str().unwrap_or("?") {
        "opt" => format!("opt<{}>", desc_name(&a[1])),
        "vec" => format!("vec<{}>", desc_name(&a[1])),
        "set" => format!("set<{}>", desc_name(&a[1])),
        "arr" => format!("[{};{}]", desc_name(&a[2]), a[1].as_u64().unwrap_or(u64::MAX)),
        "map" => format!("map<{},{}>", desc_name(&a[1]), desc_name(&a[2])),
        "tuple" => {
            let parts: Vec<String> =
                a[1].as_array().map(|x| x.iter().map(desc_name).collect()).unwrap_or_default();
            format!("({})", parts.join(","))
        },
        s => s.to_string(),
    }
}

// ---------------------------------------------------------------------------------------------
// readers
// ---------------------------------------------------------------------------------------------
struct Scripted {
    data: Vec<u8>,
    pos: usize,
    pat: &'static [usize],
    k: usize,
}

impl std::io::Read for Scripted {
    fn read(&mut self, b: &mut [u8]) -> std::io::Result<usize> {
        let c = self.pat[self.k % self.pat.len()];
        self.k += 1;
        let n = c.min(b.len()).min(self.data.len() - self.pos);
        b[..n].copy_from_slice(&self.data[self.pos..self.pos + n]);
        self.pos += n;
        Ok(n)
    }
}

const PATTERNS: [&[usize]; 6] = [&[256], &[1], &[2], &[3], &[1, 3], &[5, 1]];

/// What a decode attempt did.
#[derive(Debug)]
enum Got<T> {
    Ok(T, Vec<u8>),
    Err(&'static str),
    Panic(String),
}

fn kind_of(e: &DeserializationError) -> &'static str {
    match e {
        DeserializationError::UnexpectedEOF => "eof",
        DeserializationError::InvalidValue(_) => "invalid",
        DeserializationError::UnconsumedBytes => "unconsumed",
        DeserializationError::UnknownError(_) => "unknown",
    }
}

fn drain<R: ByteReader>(r: &mut R) -> Vec<u8> {
    let mut rest = Vec::new();
    while let Ok(b) = r.read_u8() {
        rest.push(b);
    }
    rest
}

fn decode_on<T: Model, R: ByteReader>(r: &mut R) -> Got<T> {
    match catch(|| T::read_from(r)) {
        Err(p) => Got::Panic(p),
        Ok(Err(e)) => Got::Err(kind_of(&e)),
        Ok(Ok(v)) => match catch(|| drain(r)) {
            Ok(rest) => Got::Ok(v, rest),
            Err(p) => Got::Panic(p),
        },
    }
}

fn describe<T: Debug>(g: &Got<T>) -> Value {
    match g {
        Got::Ok(v, rest) => {
            let mut s = format!("{v:?}");
            if s.len() > 300 {
                s.truncate(300);
                s.push_str("...");
            }
            json!({"t": "ok", "value": s, "rest_len": rest.len()})
        },
        Got::Err(k) => json!({"t": "err", "kind": k}),
        Got::Panic(p) => json!({"t": "panic", "panic": p}),
    }
}

fn short_bytes(b: &[u8]) -> Value {
    if b.len() <= 64 {
        json_bytes(b)
    } else {
        json!({"len": b.len(), "head": json_bytes(&b[..32])})
    }
}

// ---------------------------------------------------------------------------------------------
// one scenario on one monomorphic type
// ---------------------------------------------------------------------------------------------
struct Stats {
    evaluations: usize,
    hint_inexact: usize,
}

fn run_typed<T: Model>(idx: usize, sc: &Value, st: &mut Stats) -> Option<Value> {
    let ty = T::name();
    let kind = sc["kind"].as_str().unwrap_or("");
    let input = bytes_of(&sc["input"]);
    let exp = &sc["exp"];
    let exp_t = exp["t"].as_str().unwrap_or("");
    let dup = sc["fl"].as_array().map(|a| a.iter().any(|x| x == "dup")).unwrap_or(false);
    let mut original: Option<T> = None;

    // ---- encoding side (round-trip scenarios only) ----
    if kind == "rt" {
        let val = match T::from_json(&sc["v"]) {
            Some(v) => v,
            None => return Some(json!({"stage": "harness", "ty": ty, "error": "cannot build value from JSON"})),
        };
        let enc = bytes_of(&sc["enc"]);
        let r = catch(|| {
            let a = val.to_bytes();
            let mut b: Vec<u8> = vec![0xEE]; // non-empty target: write_into must append
            val.write_into(&mut b);
            let mut c = std::io::Cursor::new(Vec::<u8>::new());
            ByteWriter::write(&mut c, &val); // through the std::io::Write adapter
            (a, b, c.into_inner(), val.get_size_hint())
        });
        st.evaluations += 4;
        match r {
            Err(p) => {
                return Some(json!({"stage": "encode", "ty": ty, "reader": "-", "expected": "bytes", "got": "panic", "panic": p}))
            },
            Ok((a, b, c, hint)) => {
                let ok_b = b.len() == enc.len() + 1 && b[0] == 0xEE && b[1..] == enc[..];
                if a != enc || !ok_b || c != enc {
                    return Some(json!({"stage": "encode", "ty": ty, "reader": "-", "expected": "bytes", "got": "other-bytes",
                        "expected_bytes": short_bytes(&enc), "to_bytes": short_bytes(&a), "write_into": short_bytes(&b[1.min(b.len())..]),
                        "cursor_write": short_bytes(&c)}));
                }
                let eh = sc["hint"].as_i64().unwrap_or(-1);
                if eh >= 0 && hint as i64 != eh {
                    return Some(json!({"stage": "size_hint", "ty": ty, "reader": "-", "expected": eh, "got": hint}));
                }
                if hint != enc.len() {
                    st.hint_inexact += 1;
                }
            },
        }
        original = Some(val);
    }

    // ---- decoding side ----
    let exp_val: Option<T> = if exp_t == "ok" && !dup {
        match T::from_json(&exp["val"]) {
            Some(v) => Some(v),
            None => return Some(json!({"stage": "harness", "ty": ty, "error": "cannot build expected value from JSON"})),
        }
    } else {
        None
    };
    let exp_n = exp["n"].as_u64().unwrap_or(0) as usize;
    let exp_kinds: Vec<&str> =
        exp["kinds"].as_array().map(|a| a.iter().filter_map(|x| x.as_str()).collect()).unwrap_or_default();

    let judge = |reader: &str, g: Got<T>, with_rest: bool| -> Option<Value> {
        let bad = |what: &str, g: &Got<T>| {
            Some(json!({"stage": "decode", "ty": ty, "reader": reader, "expected": exp_t, "got": what,
                "exp": exp_summary(exp), "outcome": describe(g), "input": short_bytes(&input)}))
        };
        match (&g, exp_t) {
            (Got::Panic(_), _) => bad("panic", &g),
            (Got::Ok(v, rest), "ok") => {
                if with_rest && (exp_n > input.len() || rest[..] != input[exp_n..]) {
                    return bad("ok-wrong-consumed", &g);
                }
                if let Some(ev) = &exp_val {
                    if v != ev {
                        return bad("ok-wrong-value", &g);
                    }
                }
                if let Some(o) = &original {
                    if v != o {
                        return bad("ok-not-equal-to-original", &g);
                    }
                }
                None
            },
            (Got::Ok(..), _) => bad("ok", &g),
            (Got::Err(k), "err") => {
                if exp_kinds.contains(k) {
                    None
                } else {
                    bad(&format!("err-{k}"), &g)
                }
            },
            (Got::Err(k), _) => bad(&format!("err-{k}"), &g),
        }
    };

    st.evaluations += 4;
    let g = decode_on::<T, _>(&mut SliceReader::new(&input));
    if let Some(d) = judge("SliceReader", g, true) {
        return Some(d);
    }
    let g = decode_on::<T, _>(&mut std::io::Cursor::new(&input[..]));
    if let Some(d) = judge("Cursor", g, true) {
        return Some(d);
    }
    let pat = PATTERNS[idx % PATTERNS.len()];
    let mut script = Scripted { data: input.clone(), pos: 0, pat, k: 0 };
    let g = {
        let mut adapter = ReadAdapter::new(&mut script);
        decode_on::<T, _>(&mut adapter)
    };
    if let Some(mut d) = judge("ReadAdapter", g, true) {
        d["chunks"] = json!(pat);
        return Some(d);
    }
    let g = match catch(|| T::read_from_bytes(&input)) {
        Err(p) => Got::Panic(p),
        Ok(Err(e)) => Got::Err(kind_of(&e)),
        Ok(Ok(v)) => Got::Ok(v, vec![]),
    };
    judge("read_from_bytes", g, false)
}

fn exp_summary(exp: &Value) -> Value {
    let mut e = exp.clone();
    if let Some(s) = e.get("val").map(|v| v.to_string()) {
        if s.len() > 300 {
            e["val"] = json!(format!("{}...", &s[..300]));
        }
    }
    e
}

// ---------------------------------------------------------------------------------------------
// the menu of monomorphic types
// ---------------------------------------------------------------------------------------------
type Map<K, V> = BTreeMap<K, V>;
type Set<T> = BTreeSet<T>;

macro_rules! menu {
    ($($t:ty),* $(,)?) => {
        fn dispatch(name: &str, idx: usize, sc: &Value, st: &mut Stats) -> Option<Option<Value>> {
            $( if <$t as Model>::name() == name { return Some(run_typed::<$t>(idx, sc, st)); } )*
            None
        }
        fn menu_names() -> Vec<String> {
            vec![$(<$t as Model>::name()),*]
        }
    };
}

menu! {
    // scalars
    (), u8, u16, u32, u64, u128, B, usize, String,
    // options
    Option<u8>, Option<u64>, Option<B>, Option<usize>, Option<String>,
    Option<Option<u8>>, Option<Vec<u8>>, Option<(u8, u16)>, Option<[u16; 2]>, Option<Map<u8, u8>>, Option<Set<u8>>,
    // arrays
    [u8; 0], [u8; 1], [u16; 4], [B; 3], [usize; 2], [u8; 8], [u8; 32], [u64; 2], [String; 2],
    [Option<u8>; 2], [Vec<u8>; 2], [(u8, B); 2],
    // vectors
    Vec<u8>, Vec<u16>, Vec<u32>, Vec<u64>, Vec<u128>, Vec<B>, Vec<usize>, Vec<String>,
    Vec<Option<u8>>, Vec<Option<u16>>, Vec<Vec<u8>>, Vec<[u16; 2]>, Vec<(u8, u16)>, Vec<Set<u8>>, Vec<Map<u8, u8>>,
    // sets
    Set<u8>, Set<u16>, Set<u64>, Set<usize>, Set<String>, Set<B>,
    Set<(u8, u8)>, Set<Option<u8>>, Set<Vec<u8>>, Set<[u8; 2]>,
    // maps
    Map<u8, u16>, Map<u16, B>, Map<u64, u8>, Map<String, u8>, Map<u8, String>, Map<usize, usize>, Map<B, u32>,
    Map<u8, Vec<u8>>, Map<u8, Option<u8>>, Map<(u8, u8), u8>, Map<String, Vec<u16>>, Map<u8, Map<u8, u8>>, Map<[u8; 2], u8>,
    // tuples
    (u8,), (u8, u16), (u8, u32, B), (u16, u64, u128, usize), (B, u8, u16, u32, u64), (u8, B, String, usize, u16, u128),
    (Vec<u8>, String), (Option<u16>, [u8; 2]), (Set<u8>, Map<u8, u8>, B), (Vec<B>, Option<B>, u8, usize),
    (String, String, Vec<String>), (u8, B, String, usize, Option<u8>, Vec<u8>), ((), u8), (usize, usize),
    // elements that encode to zero bytes
    Option<()>, Vec<()>, [(); 4], [u16; 0], Vec<[u16; 0]>, Set<()>, Map<(), [u8; 0]>, Vec<((), ())>,
    Vec<[(); 2]>, Vec<Vec<()>>, Option<Vec<()>>, [Vec<()>; 2], Map<u8, Vec<()>>, Vec<Option<()>>,
    (u8, Vec<()>), (Vec<()>, u8), ((), Vec<()>, ()), (Vec<()>, u128),
    (u8, [(); 4]), ([(); 4], u8), (Set<()>, Map<(), [u8; 0]>), (u16, ()),
}

fn run_one(idx: usize, sc: &Value, st: &mut Stats) -> Option<Value> {
    let name = desc_name(&sc["ty"]);
    match dispatch(&name, idx, sc, st) {
        Some(r) => r,
        None => Some(json!({"stage": "harness", "ty": name, "error": "type not in the harness menu"})),
    }
}

fn is_big(sc: &Value) -> bool {
    sc["fl"].as_array().map(|a| a.iter().any(|x| x == "big")).unwrap_or(false)
}

// ---------------------------------------------------------------------------------------------
// Process isolation.  The code under test pre-allocates what a length prefix announces, so a case can
// abort the process (allocation failure) instead of panicking.  All scenarios therefore run in a forked
// worker with a 4 GiB address-space limit; the worker publishes the index of the scenario it is running
// in shared memory; when it dies the parent records the abort as the outcome of that scenario and forks
// a new worker for the rest.  (One fork per death: forks cost tens of milliseconds in the sandbox.)
// ---------------------------------------------------------------------------------------------
const WORKER_AS_LIMIT: u64 = 4 << 30; // DESIGN §11: 4 GiB for small inputs

#[repr(C)]
struct Shared {
    current: u64,
    evaluations: u64,
    hint_inexact: u64,
    mismatches: u64,
}

fn emit_line(v: &Value) {
    let stdout = std::io::stdout();
    let mut w = stdout.lock();
    let _ = writeln!(w, "{}", v);
    let _ = w.flush();
}

/// Aborts in scenarios that do not even reach an oversized length prefix are not expected on any sane
/// tree; after this many the run stops early (each costs a fork) and the summary says so.
const MAX_UNEXPECTED_ABORTS: usize = 40;

/// The parent keeps the scenario file as raw bytes and every worker parses the lines it runs: the cost of
/// a fork grows with the memory of the forking process.
fn parse_line(raw: &[u8], lines: &[(usize, usize)], i: usize) -> Result<Value, String> {
    serde_json::from_slice(&raw[lines[i].0..lines[i].1]).map_err(|e| format!("bad json in scenario {i}: {e}"))
}

fn run_isolated(raw: &[u8], lines: &[(usize, usize)], skip_big: bool) -> Result<(usize, usize, usize, usize, usize, bool), String> {
    let shared: &mut Shared = unsafe {
        let p = libc::mmap(std::ptr::null_mut(), std::mem::size_of::<Shared>(), libc::PROT_READ | libc::PROT_WRITE,
            libc::MAP_SHARED | libc::MAP_ANONYMOUS, -1, 0);
        if p == libc::MAP_FAILED {
            return Err("mmap of the shared cell failed".into());
        }
        &mut *(p as *mut Shared)
    };
    *shared = Shared { current: 0, evaluations: 0, hint_inexact: 0, mismatches: 0 };
    let n = lines.len();
    let mut start = 0usize;
    let mut forks = 0usize;
    let mut aborts = 0usize;
    let mut unexpected = 0usize;
    let mut stopped_early = false;
    while start < n {
        forks += 1;
        let mut fds = [0i32; 2];
        if unsafe { libc::pipe(fds.as_mut_ptr()) } != 0 {
            return Err("pipe failed".into());
        }
        let _ = std::io::stdout().lock().flush();
        let pid = unsafe { libc::fork() };
        if pid < 0 {
            return Err("fork failed".into());
        }
        if pid == 0 {
            // ---- worker ----
            unsafe {
                libc::close(fds[0]);
                libc::dup2(fds[1], 2);
                libc::close(fds[1]);
                let lim = libc::rlimit { rlim_cur: WORKER_AS_LIMIT, rlim_max: WORKER_AS_LIMIT };
                libc::setrlimit(libc::RLIMIT_AS, &lim);
                let core = libc::rlimit { rlim_cur: 0, rlim_max: 0 };
                libc::setrlimit(libc::RLIMIT_CORE, &core);
            }
            let mut st = Stats { evaluations: 0, hint_inexact: 0 };
            for i in start..n {
                shared.current = i as u64;
                let sc = match parse_line(raw, lines, i) {
                    Ok(v) => v,
                    Err(e) => {
                        eprintln!("{e}");
                        unsafe { libc::_exit(3) };
                    },
                };
                let sc = &sc;
                if skip_big && is_big(sc) {
                    continue;
                }
                if let Some(d) = run_one(i, sc, &mut st) {
                    shared.mismatches += 1;
                    emit_line(&json!({"i": i, "ok": false, "detail": d}));
                }
                shared.evaluations += st.evaluations as u64;
                shared.hint_inexact += st.hint_inexact as u64;
                st = Stats { evaluations: 0, hint_inexact: 0 };
            }
            shared.current = n as u64;
            unsafe { libc::_exit(0) };
        }
        // ---- parent: what the worker wrote to stderr, then how it ended ----
        let mut errtxt = Vec::new();
        unsafe {
            libc::close(fds[1]);
            let mut buf = [0u8; 4096];
            loop {
                let k = libc::read(fds[0], buf.as_mut_ptr() as *mut libc::c_void, buf.len());
                if k <= 0 {
                    break;
                }
                if errtxt.len() < 16384 {
                    errtxt.extend_from_slice(&buf[..k as usize]);
                }
            }
            libc::close(fds[0]);
        }
        let mut status = 0i32;
        unsafe { libc::waitpid(pid, &mut status, 0) };
        let cur = shared.current as usize;
        if libc::WIFEXITED(status) && libc::WEXITSTATUS(status) == 0 && cur == n {
            break;
        }
        if cur >= n {
            return Err(format!("worker ended abnormally after the last scenario (status {status})"));
        }
        let errtxt = String::from_utf8_lossy(&errtxt).to_string();
        let msg: String = match errtxt.lines().find(|l| l.contains("memory allocation of")) {
            Some(l) => l.trim().to_string(),
            None => errtxt.chars().rev().take(300).collect::<String>().chars().rev().collect(),
        };
        let signal = if libc::WIFSIGNALED(status) { Some(libc::WTERMSIG(status)) } else { None };
        let exit = if libc::WIFEXITED(status) { Some(libc::WEXITSTATUS(status)) } else { None };
        if exit == Some(3) {
            return Err(errtxt);
        }
        let sc = &parse_line(raw, lines, cur)?;
        aborts += 1;
        shared.mismatches += 1;
        shared.evaluations += 1;
        emit_line(&json!({"i": cur, "ok": false, "detail": {"stage": "decode", "ty": desc_name(&sc["ty"]), "reader": "child",
            "expected": sc["exp"]["t"], "got": "abort", "signal": signal, "exit": exit, "stderr": msg,
            "exp": exp_summary(&sc["exp"]), "input": short_bytes(&bytes_of(&sc["input"]))}}));
        start = cur + 1;
        if !is_big(sc) {
            unexpected += 1;
            if unexpected >= MAX_UNEXPECTED_ABORTS {
                stopped_early = true;
                break;
            }
        }
        if forks > n + 1 {
            return Err("workers keep dying without progress".into());
        }
    }
    Ok((shared.evaluations as usize, shared.hint_inexact as usize, shared.mismatches as usize, forks, aborts, stopped_early))
}

// ---------------------------------------------------------------------------------------------
/// glibc raises its mmap threshold after the first large free and then serves the (never touched) large
/// buffers that `read_many` pre-allocates from the brk heap, which makes every such case ~1000x slower.
/// Pinning the threshold only changes the allocator's bookkeeping, not what the code under test does.
fn pin_malloc_threshold() {
    #[cfg(all(target_os = "linux", target_env = "gnu"))]
    unsafe {
        libc::mallopt(libc::M_MMAP_THRESHOLD, 128 * 1024);
    }
}

pub fn main(args: &[String]) -> i32 {
    // an allocation abort of the code under test would otherwise spend ~1 s symbolising a backtrace
    std::env::set_var("RUST_BACKTRACE", "0");
    pin_malloc_threshold();
    match args.first().map(|s| s.as_str()) {
        Some("menu") => {
            println!("{}", json!({"menu": menu_names()}));
            0
        },
        Some(path) => {
            let skip_big = args.iter().any(|a| a == "--skip-big");
            let raw = match std::fs::read(path) {
                Ok(b) => b,
                Err(e) => {
                    eprintln!("cannot read {path}: {e}");
                    return 2;
                },
            };
            let mut lines = Vec::new();
            let mut a = 0usize;
            for (k, b) in raw.iter().enumerate() {
                if *b == b'\n' {
                    if raw[a..k].iter().any(|c| !c.is_ascii_whitespace()) {
                        lines.push((a, k));
                    }
                    a = k + 1;
                }
            }
            if raw[a..].iter().any(|c| !c.is_ascii_whitespace()) {
                lines.push((a, raw.len()));
            }
            match run_isolated(&raw, &lines, skip_big) {
                Ok((evaluations, hint_inexact, mismatches, forks, aborts, stopped_early)) => {
                    emit_line(&json!({"summary": true, "scenarios": lines.len(), "evaluations": evaluations,
                        "mismatches": mismatches, "worker_forks": forks, "aborts": aborts,
                        "hint_inexact": hint_inexact, "stopped_early": stopped_early}));
                    0
                },
                Err(e) => {
                    eprintln!("codec: {e}");
                    2
                },
            }
        },
        None => {
            eprintln!("usage: wf-serde codec <scenarios.ndjson> [--skip-big] | codec menu");
            2
        },
    }
}
