//! C27: replay operation sequences generated from spec/serde/ReadAdapter.tla on the real
//! `ReadAdapter` (fed by a scripted chunked `Read`) and on `SliceReader`.
//! Expected results come from the ABSTRACT reader of the specification.
use serde_json::{json, Value};
use winter_utils::{ByteReader, DeserializationError, ReadAdapter, SliceReader};

use wfcommon::util::{bytes_of, catch, json_bytes, read_ndjson, usizes_of, Out};

struct Scripted {
    data: Vec<u8>,
    pos: usize,
    pat: Vec<usize>,
    k: usize,
}

impl std::io::Read for Scripted {
    fn read(&mut self, b: &mut [u8]) -> std::io::Result<usize> {
        let c = self.pat[self.k % self.pat.len()];
        self.k += 1;
        let n = c.min(b.len()).min(self.data.len() - self.pos);
        b[..n].copy_from_slice(&self.data[self.pos..self.pos + n]);
        self.pos += n;
        Ok(n)
    }
}

fn res<T>(r: Result<T, DeserializationError>, f: impl FnOnce(T) -> Vec<u8>) -> (String, Vec<u8>) {
    match r {
        Ok(v) => ("ok".into(), f(v)),
        Err(DeserializationError::UnexpectedEOF) => ("eof".into(), vec![]),
        Err(DeserializationError::InvalidValue(_)) => ("invalid".into(), vec![]),
        Err(_) => ("unknown".into(), vec![]),
    }
}

macro_rules! arr {
    ($r:expr, $n:expr, $alt:expr, [$($k:literal),*]) => {
        match $n {
            $( $k => res($r.read_array::<$k>(), |a| a.to_vec()), )*
            _ => ("unsupported".to_string(), vec![]),
        }
    };
}

fn apply<R: ByteReader>(r: &mut R, op: &str, n: usize, alt: bool) -> (String, Vec<u8>) {
    match op {
        "u8" => res(r.read_u8(), |b| vec![b]),
        "peek" => res(r.peek_u8(), |b| vec![b]),
        "bool" => res(r.read_bool(), |b| vec![b as u8]),
        "more" => ("ok".into(), vec![r.has_more_bytes() as u8]),
        "eor" => res(r.check_eor(n), |_| vec![]),
        "usize" => res(r.read_usize(), |v| (v as u64).to_le_bytes().to_vec()),
        // a request of 2^n bytes (n >= 64: usize::MAX), e.g. a length prefix taken from the data
        "hslice" | "heor" => {
            let len = if n >= 64 { usize::MAX } else { 1usize << n };
            if op == "heor" {
                res(r.check_eor(len), |_| vec![])
            } else if alt {
                res(r.read_vec(len), |v| v)
            } else {
                res(r.read_slice(len), |s| s.to_vec())
            }
        },
        "slice" => {
            if alt {
                res(r.read_vec(n), |v| v)
            } else {
                res(r.read_slice(n), |s| s.to_vec())
            }
        },
        "arr" => {
            // integer readers are thin wrappers over read_array; alternate between the two forms
            if alt && n == 2 {
                return res(r.read_u16(), |v| v.to_le_bytes().to_vec());
            } else if alt && n == 4 {
                return res(r.read_u32(), |v| v.to_le_bytes().to_vec());
            } else if alt && n == 8 {
                return res(r.read_u64(), |v| v.to_le_bytes().to_vec());
            } else if alt && n == 16 {
                return res(r.read_u128(), |v| v.to_le_bytes().to_vec());
            }
            arr!(r, n, alt, [0, 1, 2, 3, 4, 5, 7, 8, 16, 17, 32, 100, 255, 256, 257, 300, 513])
        },
        _ => ("unsupported".into(), vec![]),
    }
}

/// Runs one scenario; returns None if everything matched or Some(detail) at the first mismatch.
fn run_one(idx: usize, sc: &Value) -> Option<Value> {
    let content = bytes_of(&sc["content"]);
    let pat = usizes_of(&sc["pat"]);
    let ops = sc["ops"].as_array().cloned().unwrap_or_default();
    let mut script = Scripted { data: content.clone(), pos: 0, pat, k: 0 };
    let mut adapter = ReadAdapter::new(&mut script);
    let mut slice = SliceReader::new(&content);
    for (k, op) in ops.iter().enumerate() {
        let name = op["op"].as_str().unwrap_or("");
        let n = op["n"].as_u64().unwrap_or(0) as usize;
        let exp_t = op["t"].as_str().unwrap_or("");
        let exp_v = bytes_of(&op["v"]);
        let alt = (idx + k) % 2 == 1;
        // in-memory reader: must give exactly the abstract result
        let (st, sv) = match catch(|| apply(&mut slice, name, n, alt)) {
            Ok(x) => x,
            Err(p) => (format!("panic"), p.into_bytes()),
        };
        if st != exp_t || (st == "ok" && sv != exp_v) {
            return Some(json!({"at": k, "reader": "SliceReader", "op": name, "n": n,
                "expected": {"t": exp_t, "v": json_bytes(&exp_v)}, "got": {"t": st, "v": json_bytes(&sv)}}));
        }
        // streaming adapter
        let (at, av, pmsg) = match catch(|| apply(&mut adapter, name, n, alt)) {
            Ok((t, v)) => (t, v, String::new()),
            Err(p) => ("panic".to_string(), vec![], p),
        };
        // check_eor may be optimistic: only "data available => ok" is required
        let lenient_ok = (name == "eor" || name == "heor") && exp_t == "eof" && (at == "ok" || at == "eof");
        if !lenient_ok && (at != exp_t || (at == "ok" && av != exp_v)) {
            return Some(json!({"at": k, "reader": "ReadAdapter", "op": name, "n": n, "panic": pmsg,
                "expected": {"t": exp_t, "v": json_bytes(&exp_v)}, "got": {"t": at, "v": json_bytes(&av)}}));
        }
        if at == "panic" {
            break;
        }
    }
    None
}

pub fn main(args: &[String]) -> i32 {
    let scenarios = read_ndjson(&args[0]);
    let mut out = Out::new();
    let mut bad = 0usize;
    let mut nops = 0usize;
    for (i, sc) in scenarios.iter().enumerate() {
        nops += sc["ops"].as_array().map(|a| a.len()).unwrap_or(0);
        if let Some(d) = run_one(i, sc) {
            bad += 1;
            out.emit(&json!({"i": i, "ok": false, "detail": d}));
        }
    }
    out.emit(&json!({"summary": true, "scenarios": scenarios.len(), "ops": nops, "mismatches": bad}));
    out.flush();
    0
}
