//! wf-serde — engines for the serialization layer (C26, C27).
#![allow(clippy::all)]
mod codec;
mod readadapter;

fn main() {
    let args: Vec<String> = std::env::args().collect();
    wfcommon::util::install_quiet_panic_hook();
    let code = match args.get(1).map(|s| s.as_str()) {
        Some("readadapter") => readadapter::main(&args[2..]),
        Some("codec") => codec::main(&args[2..]),
        _ => {
            eprintln!("usage: wf-serde <readadapter|codec> ...");
            2
        },
    };
    std::process::exit(code);
}
