#!/usr/bin/env python3
"""Regenerates /verif/MANIFEST.json from lib/registry.py and validates it against the schema."""
import json, os, sys, subprocess
ROOT = os.path.dirname(os.path.dirname(os.path.abspath(__file__)))
sys.path.insert(0, os.path.join(ROOT, "lib"))
import importlib
sys.path.insert(0, os.path.join(ROOT, "checks"))

props = [json.loads(l) for l in open(os.path.join(ROOT, "properties.jsonl"))]
ids = [p["id"] for p in props]
hook_commits = []
try:
    out = subprocess.run(["git", "-C", "/repo", "log", "--format=%h %s"], stdout=subprocess.PIPE, text=True).stdout
    hook_commits = [l.split()[0] for l in out.splitlines() if l.split(" ", 1)[1].startswith("verif-hook:")]
except Exception:
    pass

checks = []
na = []
for pid in ids:
    c = None
    # only checks the lead has verified (listed in checks/READY) are claimed
    ready = set(open(os.path.join(ROOT, "checks", "READY")).read().split())
    if pid in ready and os.path.exists(os.path.join(ROOT, "checks", pid + ".py")):
        c = getattr(importlib.import_module(pid), "META", None)
    if c:
        checks.append({
            "property_id": pid,
            "quick_cmd": "./check %s --tier quick" % pid,
            "thorough_cmd": "./check %s --tier thorough" % pid,
            "evidence_file": "/verif/evidence/%s.json" % pid,
            "replay_cmd_template": "./check %s --replay {path}" % pid,
            "engine": "wfverif+tlc",
            "level_claimed": {"category": c.get("category", "model_checking"), "text": c["text"],
                              "design_ref": "DESIGN.md §" + c.get("design", "7")},
            "level_note": c["note"],
            "technique": c["technique"],
        })
    else:
        na.append({"property_id": pid,
                   "reason": "check not built yet (planned in DESIGN.md §7/%s); not claimed" % pid})

m = {
    "version": 1,
    "setup_cmd": "./setup.sh",
    "hooks": {
        "guard": "winterfell_verif",
        "enable": "RUSTFLAGS='--cfg winterfell_verif' (set in /verif/harness/.cargo/config.toml; the harness depends on /repo crates by path)",
        "baseline_off_cmd": "cd /repo && cargo test --workspace --no-fail-fast --offline",
        "source_commits": hook_commits,
        "add_only": True,
    },
    "engines": [
        {"name": "tlc", "path": "/verif/spec", "serves_properties": [c["property_id"] for c in checks],
         "kind_free_text": "explicit TLA+ specifications checked with TLC 1.8 (model checking, scenario generation, trace validation)"},
        {"name": "wfverif", "path": "/verif/harness", "serves_properties": [c["property_id"] for c in checks],
         "kind_free_text": "Rust conformance harness (path deps on /repo): replays TLC-generated scenarios into the real code and records traces for TLC to validate"},
    ],
    "checks": checks,
    "not_applicable": na,
    "notes": "All checks are driven by ./check <id>; every verdict is TLC's (trace validation) or equality with an outcome TLC computed (scenario replay). Exit 2 = tool error. Genuine defects found and repaired are listed in known_findings.json (status fixed).",
}
with open(os.path.join(ROOT, "MANIFEST.json"), "w") as f:
    json.dump(m, f, indent=1)
    f.write("\n")
try:
    import jsonschema
    jsonschema.validate(m, json.load(open("/root/.vp/MANIFEST.schema.json")))
    print("MANIFEST.json valid: %d checks, %d not claimed" % (len(checks), len(na)))
except ImportError:
    print("jsonschema not available; wrote MANIFEST.json unvalidated")
