"""Shared machinery for the /verif checks: build the Rust harness from /repo's working tree, run TLC
under a timeout and parse what it printed, match violations against known_findings.json, write the
evidence file, and report with the exit-code contract (0 ok / 1 VIOLATION / 2 tool error)."""
import json, os, re, subprocess, sys, time, shutil, hashlib, random

ROOT = os.path.dirname(os.path.dirname(os.path.abspath(__file__)))
SPEC = os.path.join(ROOT, "spec")
# VERIF_HARNESS_DIR / VERIF_EVID_DIR: used only by lib/mutrun.sh to run the checks against a scratch copy
# of the harness whose path dependencies point at a mutated worktree of facebook/winterfell (so that seeded
# changes can be tried without touching /repo); the registered commands never set them.
HARNESS = os.environ.get("VERIF_HARNESS_DIR") or os.path.join(ROOT, "harness")
WORK = os.path.join(ROOT, "work")
EVID = os.environ.get("VERIF_EVID_DIR") or os.path.join(ROOT, "evidence")
REPLAY = os.path.join(EVID, "replay")
TLAJAR = "/opt/veriftools/tla/tla2tools.jar"
COMMUNITY = "/opt/veriftools/tla/CommunityModules-deps.jar"


class ToolError(Exception):
    pass


def seed_from_env():
    try:
        return int(os.environ.get("VERIF_SEED", "1"))
    except ValueError:
        return 1


def log(*a):
    print(*a, file=sys.stderr, flush=True)


# ------------------------------------------------------------------------------------------------
# cargo
# ------------------------------------------------------------------------------------------------
_built = {}


def build_harness(pkg, variant="serial", profile="release"):
    """Builds harness binary crate /verif/harness/<pkg> (package wf-<pkg>) from /repo's current working
    tree. variant: serial | concurrent | async (cargo feature of that name defined by the crate).
    profile: release (no debug assertions / overflow checks) | dev (both on, like `cargo test`).
    Returns the path of a private copy of the binary."""
    key = (pkg, variant, profile)
    if key in _built:
        return _built[key]
    cmd = ["cargo", "build", "--offline", "--quiet", "-p", "wf-" + pkg]
    if profile == "release":
        cmd.append("--release")
    if variant == "concurrent":
        cmd += ["--features", variant]
    elif variant == "async":
        # the bundled examples crate does not compile with the async prover; crates make it optional
        cmd += ["--no-default-features", "--features", variant]
    elif variant != "serial":
        raise ToolError("unknown variant " + variant)
    env = dict(os.environ, CARGO_NET_OFFLINE="true")
    t0 = time.time()
    for attempt in range(8):
        p = subprocess.run(cmd, cwd=HARNESS, env=env, stdout=subprocess.PIPE, stderr=subprocess.STDOUT, text=True)
        # another engine group's crate being created right now (manifest without sources) is transient
        if p.returncode != 0 and "failed to load manifest for workspace member" in p.stdout and attempt < 7:
            time.sleep(30)
            continue
        break
    if p.returncode != 0:
        # a compile error is a tool error, never a violation
        raise ToolError("cargo build failed:\n" + p.stdout[-6000:])
    src = os.path.join(HARNESS, "target", "release" if profile == "release" else "debug", "wf-" + pkg)
    dst_dir = os.path.join(HARNESS, "bin")
    os.makedirs(dst_dir, exist_ok=True)
    dst = os.path.join(dst_dir, "wf-%s-%s-%s" % (pkg, variant, profile))
    # copy then rename: replacing the file atomically works even while another check runs the old copy
    tmp = "%s.%d.tmp" % (dst, os.getpid())
    shutil.copy2(src, tmp)
    os.replace(tmp, dst)
    log("[build] %s %s/%s in %.1fs" % (pkg, variant, profile, time.time() - t0))
    _built[key] = dst
    return dst


def run_harness(binary, args, stdin_path=None, stdout_path=None, timeout=600, env=None, input_text=None):
    """Runs the harness; returns (returncode, stdout_text). A harness crash is a ToolError unless
    the caller passes allow_fail through its own handling (engines report impl panics as data)."""
    e = dict(os.environ)
    e.setdefault("RUST_BACKTRACE", "0")
    if env:
        e.update(env)
    fin = open(stdin_path, "rb") if stdin_path else None
    fout = open(stdout_path, "wb") if stdout_path else subprocess.PIPE
    try:
        p = subprocess.run([binary] + list(args), stdin=fin, stdout=fout, stderr=subprocess.PIPE,
                           timeout=timeout, env=e,
                           input=(input_text.encode() if (input_text is not None and not fin) else None))
    except subprocess.TimeoutExpired:
        raise ToolError("harness timeout: %s %s" % (binary, " ".join(args)))
    finally:
        if fin:
            fin.close()
        if stdout_path:
            fout.close()
    out = "" if stdout_path else p.stdout.decode(errors="replace")
    return p.returncode, out, p.stderr.decode(errors="replace")


# ------------------------------------------------------------------------------------------------
# TLC
# ------------------------------------------------------------------------------------------------
class TlcResult:
    def __init__(self):
        self.ok = False
        self.generated = 0
        self.distinct = 0
        self.raw = ""
        self.prints = []        # values printed with PrintT(<<"TAG", ...>>) as raw text lines
        self.error = None       # short text: invariant violated / postcondition false / deadlock ...
        self.coverage = {}      # action name -> count (when -coverage given)
        self.wall = 0.0

    def tagged(self, tag):
        """JSON payloads printed as PrintT(<<"TAG", ToJson(x)>>) or Print of a string "TAG {json}"."""
        out = []
        pat = re.compile(r'^<<"%s", "(.*)">>$' % re.escape(tag))
        for ln in self.prints:
            m = pat.match(ln)
            if m:
                s = m.group(1).encode().decode("unicode_escape") if "\\" in m.group(1) else m.group(1)
                out.append(json.loads(s))
        return out


def tlc(module, cfg=None, *, cwd=None, workers=1, simulate=None, depth=None, seed=None, timeout=300,
        env=None, heap="4g", deque=False, coverage=False, extra=None, mode_dfid=None, keep=False):
    """Runs TLC on spec/<...>/<module>.tla (cwd = directory holding it). Returns TlcResult.
    Raises ToolError on parse errors, TLC crashes and timeouts (never a VIOLATION)."""
    if cwd is None:
        cwd = SPEC
    import uuid
    tag = "%s-%d-%s" % (os.path.basename(module), os.getpid(), uuid.uuid4().hex[:12])   # unique even for concurrent runs
    meta = os.path.join(WORK, "tlc", tag)
    os.makedirs(meta, exist_ok=True)
    # few GC / JIT threads: on a loaded 16-core box the default 13+ GC threads make a 2 s run take 12 s
    jopts = ["-Xss1g", "-Xmx" + heap, "-XX:+UseParallelGC", "-XX:ParallelGCThreads=%d" % max(2, min(workers, 8)),
             "-XX:CICompilerCount=2"]
    if deque:
        jopts.append("-Dtlc2.tool.queue.IStateQueue=StateDeque")
    libdirs = [os.path.join(SPEC, d) for d in sorted(os.listdir(SPEC)) if os.path.isdir(os.path.join(SPEC, d))]
    jopts.append("-DTLA-Library=" + os.pathsep.join(libdirs))
    cp = TLAJAR
    for extra_jar in sorted(os.listdir(os.path.dirname(TLAJAR))):
        if extra_jar.endswith(".jar") and extra_jar != os.path.basename(TLAJAR):
            cp += os.pathsep + os.path.join(os.path.dirname(TLAJAR), extra_jar)
    cmd = ["java"] + jopts + ["-cp", cp, "tlc2.TLC", "-metadir", meta, "-noGenerateSpecTE",
                              "-workers", str(workers)]
    if cfg:
        cmd += ["-config", cfg]
    if simulate is not None:
        cmd += ["-simulate", "num=%d" % simulate]
        if depth:
            cmd += ["-depth", str(depth)]
    if seed is not None:
        cmd += ["-seed", str(seed)]
    if coverage:
        cmd += ["-coverage", "1"]
    if extra:
        cmd += extra
    cmd.append(module)
    e = dict(os.environ)
    e.pop("JAVA_TOOL_OPTIONS", None)
    if env:
        e.update({k: str(v) for k, v in env.items()})
    r = TlcResult()
    t0 = time.time()
    try:
        p = subprocess.run(cmd, cwd=cwd, env=e, stdout=subprocess.PIPE, stderr=subprocess.STDOUT, timeout=timeout)
    except subprocess.TimeoutExpired:
        shutil.rmtree(meta, ignore_errors=True)
        raise ToolError("TLC timeout after %ds: %s" % (timeout, module))
    r.wall = time.time() - t0
    if not keep:
        shutil.rmtree(meta, ignore_errors=True)
    out = p.stdout.decode(errors="replace")
    r.raw = out
    for ln in out.splitlines():
        if ln.startswith("<<\"") or ln.startswith("\"TAG "):
            r.prints.append(ln)
        m = re.match(r"^(\d+) states generated, (\d+) distinct states found", ln)
        if m:
            r.generated, r.distinct = int(m.group(1)), int(m.group(2))
        m = re.match(r"^The number of states generated: (\d+)", ln)
        if m:
            r.generated = int(m.group(1))
            r.distinct = r.generated      # simulation mode: states visited (TLC does not deduplicate them)
        m = re.match(r"^<(\w+) line \d+, col \d+ to line \d+, col \d+ of module (\w+)>: (\d+):(\d+)", ln)
        if m:
            r.coverage[m.group(1)] = r.coverage.get(m.group(1), 0) + int(m.group(4))
    if "Error: " in out or p.returncode != 0:
        m = re.search(r"Error: (.*(?:\n(?!\S).*)*)", out)
        r.error = (m.group(1) if m else "TLC exit %d" % p.returncode).strip()
        # Distinguish tool problems from property verdicts
        low = out
        verdict_markers = ("Invariant ", "is violated", "Postcondition", "POSTCONDITION", "Deadlock reached",
                           "Temporal properties were violated", "Action property", "Assumption")
        if not any(k in low for k in verdict_markers):
            i = out.find("Error:")
            head = out[i:i + 1500] if i >= 0 else ""
            j = out.find("*** Errors")
            if j >= 0:
                head += "\n" + out[j:j + 800]
            raise ToolError("TLC failed on %s:\n%s\n...\n%s" % (module, head, out[-1500:]))
        r.ok = False
    else:
        r.ok = "Model checking completed. No error has been found." in out or "Finished in" in out \
            or "Progress:" in out or simulate is not None
    return r


def sany(module, cwd):
    p = subprocess.run(["tla-sany", module], cwd=cwd, stdout=subprocess.PIPE, stderr=subprocess.STDOUT, text=True)
    return p.returncode == 0, p.stdout


# ------------------------------------------------------------------------------------------------
# known findings
# ------------------------------------------------------------------------------------------------
def load_known():
    p = os.path.join(ROOT, "known_findings.json")
    if not os.path.exists(p):
        return []
    return json.load(open(p)).get("findings", [])


# ------------------------------------------------------------------------------------------------
# Check context
# ------------------------------------------------------------------------------------------------
class Check:
    """Collects coverage and violations for one property run and writes evidence/<id>.json."""

    def __init__(self, pid, tier, level="model_checking"):
        self.pid, self.tier, self.level = pid, tier, level
        self.seed = seed_from_env()
        self.rng = random.Random(self.seed)
        self.t0 = time.time()
        self.states = 0
        self.transitions = 0
        self.traces = 0
        self.evaluations = 0
        self.samples = []
        self.parts = {}
        self.violations = []     # (signature, description, replay_obj)
        self.known_hits = []
        self.assumptions = []
        self.bounds = {}
        self.exhaustive = None
        self.known = [k for k in load_known() if k.get("property") == pid and k.get("status") == "known"]
        os.makedirs(EVID, exist_ok=True)
        os.makedirs(REPLAY, exist_ok=True)
        os.makedirs(WORK, exist_ok=True)

    # -- coverage ------------------------------------------------------------------------------
    def add_tlc(self, name, r):
        self.states += r.distinct
        self.transitions += r.generated
        self.parts.setdefault(name, {})
        self.parts[name].update({"tlc_states": r.distinct, "tlc_generated": r.generated,
                                 "tlc_wall_s": round(r.wall, 2)})
        if r.coverage:
            self.parts[name]["action_counts"] = r.coverage

    def part(self, name, **kv):
        self.parts.setdefault(name, {}).update(kv)

    def sample(self, obj, limit=6):
        if len(self.samples) < limit:
            self.samples.append(obj)

    def require(self, cond, msg):
        """Vacuity guard: tool error, never a violation."""
        if not cond:
            raise ToolError("vacuity/coverage guard failed: " + msg)

    # -- violations -----------------------------------------------------------------------------
    def violation(self, signature, description, replay_obj):
        """signature: stable, specific string identifying the failing input/call-site class; used to
        match known_findings.json entries (exact or regex given there)."""
        for k in self.known:
            pat = k.get("signature_regex")
            if (pat and re.search(pat, signature)) or k.get("signature") == signature:
                if k["id"] not in [h["id"] for h in self.known_hits]:
                    self.known_hits.append({"id": k["id"], "what": k["what"], "example": description})
                return False
        self.violations.append((signature, description, replay_obj))
        return True

    # -- finish ---------------------------------------------------------------------------------
    def finish(self):
        wall = time.time() - self.t0
        cov = {
            "states": int(self.states), "transitions": int(self.transitions),
            "traces_validated_against_impl": int(self.traces),
            "evaluations": int(max(self.evaluations, self.traces)),
            "samples": self.samples if self.samples else ["(no sample recorded)"],
            "parts": self.parts, "bounds": self.bounds,
            "known_findings_hit": self.known_hits,
        }
        if self.exhaustive is not None:
            cov["exhaustive"] = bool(self.exhaustive)
        ev = {"property_id": self.pid, "tier": self.tier, "seed": self.seed, "level": self.level,
              "coverage": cov, "assumptions": self.assumptions, "wall_s": round(wall, 2),
              "violations": len(self.violations)}
        with open(os.path.join(EVID, self.pid + ".json"), "w") as f:
            json.dump(ev, f, indent=1, default=str)
            f.write("\n")
        for h in self.known_hits:
            print("KNOWN-FINDING: property=%s %s" % (self.pid, h["what"]))
        if self.violations:
            seen = set()
            n = 0
            for sig, desc, obj in self.violations:
                if sig in seen:
                    continue
                seen.add(sig)
                n += 1
                if n > 8:
                    break
                path = os.path.join(REPLAY, "%s-%d.json" % (self.pid, n))
                with open(path, "w") as f:
                    json.dump({"property": self.pid, "signature": sig, "description": desc, "replay": obj},
                              f, indent=1, default=str)
                    f.write("\n")
                log("violation: %s :: %s" % (sig, desc))
                print("VIOLATION property=%s replay=%s" % (self.pid, path))
            return 1
        print("OK property=%s tier=%s states=%d transitions=%d impl_traces=%d wall=%.1fs" % (
            self.pid, self.tier, self.states, self.transitions, self.traces, wall))
        return 0


def write_ndjson(path, rows):
    os.makedirs(os.path.dirname(path), exist_ok=True)
    with open(path, "w") as f:
        for r in rows:
            f.write(json.dumps(r, separators=(",", ":")))
            f.write("\n")


def read_ndjson(path):
    out = []
    with open(path) as f:
        for ln in f:
            ln = ln.strip()
            if ln:
                out.append(json.loads(ln))
    return out


def workdir(name):
    d = os.path.join(WORK, name)
    os.makedirs(d, exist_ok=True)
    return d


# ------------------------------------------------------------------------------------------------
# trace validation (Record -> Validate)
# ------------------------------------------------------------------------------------------------
def validate_trace(module, cfg, cwd, rows, name, max_rejections=6, timeout=900, env=None, heap="4g"):
    """Validates the event list `rows` with a trace specification that follows the TraceFieldOps idiom
    (Rec == ndJsonDeserialize(IOEnv.TRACE), INVARIANT Progress == TLCSet(7, l), POSTCONDITION printing
    <<"REJECTED_AT", k>>).  After a rejection at event k the remainder of the trace (k+1..) is validated
    too, so one bad event does not hide the rest.  Returns (list of (index0, event) rejected,
    states, transitions)."""
    wd = workdir("traces")
    rejected = []
    base = 0
    states = trans = 0
    cur = rows
    while cur:
        path = os.path.join(wd, "%s-%d.ndjson" % (name, os.getpid()))
        write_ndjson(path, cur)
        e = {"TRACE": path}
        if env:
            e.update(env)
        r = tlc(module, cfg, cwd=cwd, workers=1, timeout=timeout, env=e, deque=True, heap=heap)
        states += r.distinct
        trans += r.generated
        os.unlink(path)
        if r.ok:
            break
        m = None
        for ln in r.prints:
            m = re.match(r'^<<"REJECTED_AT", (\d+)>>', ln)
            if m:
                break
        if not m:
            raise ToolError("trace validation of %s failed without a REJECTED_AT line:\n%s" % (name, r.raw[-3000:]))
        k = int(m.group(1))          # 1-based index into cur
        if k < 1 or k > len(cur):
            raise ToolError("trace validation reported an impossible index %d of %d" % (k, len(cur)))
        rejected.append((base + k - 1, cur[k - 1]))
        if len(rejected) >= max_rejections:
            break
        base += k
        cur = cur[k:]
    return rejected, states, trans
