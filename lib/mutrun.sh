#!/bin/sh
# usage: lib/mutrun.sh <winterfell-worktree> <check id>...
# Runs checks against a scratch copy of the harness whose path dependencies point at <worktree>
# (a possibly mutated checkout of facebook/winterfell) instead of /repo. Evidence goes to the scratch dir.
set -e
WT=$(cd "$1" && pwd); shift
HX=/tmp/hx-$(basename "$WT")
mkdir -p "$HX"
rsync -a --delete --exclude target --exclude bin /verif/harness/ "$HX/harness/"
grep -rl '/repo/' "$HX/harness" --include=Cargo.toml | xargs sed -i "s#/repo/#$WT/#g"
mkdir -p "$HX/evidence"
cd /verif
for c in "$@"; do
  echo "== $c against $WT"
  VERIF_HARNESS_DIR="$HX/harness" VERIF_EVID_DIR="$HX/evidence" ./check "$c" 2>&1 | grep -E '^(VIOLATION|OK|KNOWN|TOOL-ERROR|violation)' | cut -c1-400 | head -12 || true
done
