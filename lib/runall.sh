#!/bin/sh
# Runs every claimed check once (quick tier by default) and prints one line per check.
# usage: lib/runall.sh [quick|thorough]
cd "$(dirname "$0")/.."
tier=${1:-quick}
for c in $(cat checks/READY); do
  start=$(date +%s)
  out=$(./check "$c" --tier "$tier" 2>&1)
  rc=$?
  end=$(date +%s)
  echo "$c rc=$rc $((end-start))s $(echo "$out" | grep -E '^(OK|VIOLATION|TOOL-ERROR|KNOWN-FINDING)' | cut -c1-110 | tr '\n' ';')"
done
