"""Single source of truth for MANIFEST.json: one entry per property. `claimed` entries have a check
module checks/<id>.py; the others are listed under not_applicable with the reason."""

CHECKS = {
 "C27": dict(
    technique="TLA+ refinement model of ReadAdapter checked by TLC + TLC-generated operation sequences (one per model transition, plus simulated long behaviours) replayed on the real adapter",
    text="TLC explores the code-shaped model of the adapter against the abstract reader exhaustively at small scope (contents <= 7 bytes, 6 chunk patterns, <= 4 operations, plus a scaled capacity/compaction instance) and the real ReadAdapter is driven through every distinct transition of that state graph and through simulated 40-operation behaviours over 200-700 byte contents; expected results come only from the abstract reader of the specification.",
    note="Assumes the underlying Read returns at least one byte until the stream ends and never errors; bounds as stated; memory safety is observed (panics, wrong bytes), not proved.",
    design="7/C27"),
}

PENDING = {}
