------------------------------ MODULE WireCases ------------------------------
(* The honest-proof instances used by C07 (proof round trips), C04 and C05: an AIR description in the
   language of spec/air/AirFamily.tla (interpreted by harness/wire/src/air.rs), proof options, base
   field and hasher.  Option values and shapes are chosen here, by the specification, so that
     * every field / hasher family / extension degree / batching tag occurs,
     * single- and two-segment traces, 0 .. 5 FRI layers, folding 2 / 4 / 8, partitions occur,
     * the query positions bind the transcript: q * (log2(lde) - ceil(log2 q)) >= 40, so that a mutation
       that changes the Fiat-Shamir transcript (and hence the drawn positions) is rejected except with
       probability < 2^-40 (`Binding`, checked by TLC; C04 never relies on "probably rejects" beyond it).
   `Shape(c)` is everything the byte grammar of ProofWire.tla needs to know about a case. *)
EXTENDS Integers, Sequences, TLC, Bytes

CONSTANT Thorough

Single(col, step) == [t |-> "single", col |-> col, step |-> step, first |-> 0, stride |-> 0, n |-> 0]
Term(k, v) == [k |-> k, v |-> v]
C(i) == <<"c", i>>
P(i) == <<"p", i>>

\* next0 = c1 ; next1 = c0 + c1                       (degree 1, Fibonacci-like)
Lin2(loglen) == [width |-> 2, log_len |-> loglen,
                 cols |-> << <<Term(1, <<C(1)>>)>>, <<Term(1, <<C(0)>>), Term(1, <<C(1)>>)>> >>,
                 periodic |-> <<>>, init |-> <<1, 1>>, exemptions |-> 1,
                 asserts |-> <<Single(0, 0), Single(1, 2 ^ loglen - 1)>>, aux |-> <<>>, meta |-> <<>>]
\* opaque trace metadata longer than two field elements (non-zero bytes)
MetaBytes(n) == [j \in 1..n |-> ((j * 37) % 251) + 1]
LinM(loglen, n) == [Lin2(loglen) EXCEPT !.meta = MetaBytes(n)]
\* next0 = c0*c1 + 3 ; next1 = c1 + 1                 (degree 2)
Mul2(loglen, meta) == [width |-> 2, log_len |-> loglen,
                 cols |-> << <<Term(1, <<C(0), C(1)>>), Term(3, <<>>)>>, <<Term(1, <<C(1)>>), Term(1, <<>>)>> >>,
                 periodic |-> <<>>, init |-> <<2, 3>>, exemptions |-> 1,
                 asserts |-> <<Single(0, 0)>>, aux |-> <<>>, meta |-> meta]
\* Mul2 with an auxiliary segment of running products
Aux2(loglen, aw, rands) == [Mul2(loglen, <<7, 8, 9>>) EXCEPT
                 !.aux = <<[width |-> aw, rands |-> rands, src |-> [i \in 1..aw |-> (i - 1) % 2]]>>]
\* next0 = c0^3 + p0                                   (degree 3 with a periodic column of cycle 4)
Cube(loglen) == [width |-> 1, log_len |-> loglen,
                 cols |-> << <<Term(1, <<C(0), C(0), C(0)>>), Term(1, <<P(0)>>)>> >>,
                 periodic |-> <<<<1, 2, 3, 4>>>>, init |-> <<3>>, exemptions |-> 2,
                 asserts |-> <<Single(0, 0), Single(0, 7)>>, aux |-> <<>>, meta |-> <<>>]
\* next0 = c0^4 + p0                                   (degree 4: the AIR needs a blowup factor >= 4)
Quart(loglen) == [Cube(loglen) EXCEPT !.cols = << <<Term(1, <<C(0), C(0), C(0), C(0)>>), Term(1, <<P(0)>>)>> >>,
                                      !.init = <<2>>]

Opt(q, b, g, e, f, r, cb, db, p, h) ==
  [queries |-> q, blowup |-> b, grind |-> g, ext |-> e, fold |-> f, rem |-> r, cbatch |-> cb, dbatch |-> db,
   parts |-> p, hash_rate |-> h]

\* cc: number of constraint composition columns (stated here, confirmed by the grammar check against
\* the real proof: a wrong value makes the field map fail validation, which is a tool error)
Case(desc, opts, field, hash, cc) == [desc |-> desc, opts |-> opts, field |-> field, hash |-> hash, cc |-> cc]

QuickCases == <<
  Case(LinM(4, 20),    Opt(16, 8, 0, 1, 4, 7, 0, 0, 1, 1),  "f64",  "blake3_256", 1),
  Case(Aux2(3, 2, 2),  Opt(14, 16, 0, 2, 4, 3, 0, 1, 1, 1), "f64",  "rp64_256", 1),
  Case(Quart(5),       Opt(10, 8, 0, 3, 2, 0, 2, 0, 1, 1),  "f62",  "rp62_248", 3),
  Case(Lin2(4),        Opt(20, 8, 0, 1, 4, 7, 1, 1, 1, 1),  "f128", "blake3_256", 1)
>>
MoreCases == <<
  Case(Mul2(4, MetaBytes(35)), Opt(14, 8, 4, 2, 2, 3, 1, 2, 1, 1), "f128", "sha3_256", 1),
  Case(Aux2(4, 2, 2),  Opt(14, 8, 3, 1, 8, 1, 0, 0, 2, 4),  "f64",  "rpjive64_256", 1),
  Case(Mul2(5, <<>>),  Opt(20, 4, 0, 1, 2, 1, 0, 0, 1, 1),  "f64",  "blake3_192", 1),
  Case(Aux2(4, 3, 1),  Opt(14, 8, 0, 3, 4, 3, 2, 2, 4, 2),  "f64",  "sha3_256", 1),
  Case(Cube(5),        Opt(14, 4, 2, 2, 2, 1, 0, 2, 1, 1),  "f62",  "blake3_256", 2),
  Case(Cube(5),        Opt(10, 8, 0, 2, 4, 1, 1, 0, 1, 1),  "f62",  "rp62_248", 2),
  Case(Lin2(6),        Opt(9, 16, 0, 2, 16, 3, 0, 0, 1, 1), "f64",  "blake3_256", 1),
  Case(Mul2(5, <<1>>), Opt(11, 8, 0, 1, 8, 15, 0, 1, 3, 8), "f64",  "rp64_256", 1)
>>
Cases == IF Thorough THEN QuickCases \o MoreCases ELSE QuickCases

(***************************************************************************)
(* Shape of the honest proof of a case                                     *)
(***************************************************************************)
Log2(n) == CHOOSE k \in 0..40 : 2 ^ k = n
EBase(f) == IF f = "f128" THEN 16 ELSE 8
DigestLen(h) == CASE h = "blake3_192" -> 24 [] h = "rp62_248" -> 31 [] OTHER -> 32
ModLen(f) == IF f = "f128" THEN 16 ELSE 8
HasAux(c) == c.desc.aux # <<>>
L(c) == 2 ^ c.desc.log_len
Lde(c) == L(c) * c.opts.blowup
RECURSIVE FriLayersFrom(_, _, _)
FriLayersFrom(dom, maxRem, fold) == IF dom > maxRem THEN 1 + FriLayersFrom(dom \div fold, maxRem, fold) ELSE 0
FriLayers(c) == FriLayersFrom(Lde(c), (c.opts.rem + 1) * c.opts.blowup, c.opts.fold)
RemainderLen(c) == L(c) \div (c.opts.fold ^ FriLayers(c))

Shape(c) == [segments |-> IF HasAux(c) THEN 2 ELSE 1,
             main |-> c.desc.width,
             aux |-> IF HasAux(c) THEN c.desc.aux[1].width ELSE 0,
             rands |-> IF HasAux(c) THEN c.desc.aux[1].rands ELSE 0,
             logn |-> c.desc.log_len, metalen |-> Len(c.desc.meta), modlen |-> ModLen(c.field),
             opt |-> <<c.opts.queries, c.opts.blowup, c.opts.grind, c.opts.ext, c.opts.fold, c.opts.rem,
                       c.opts.cbatch, c.opts.dbatch, c.opts.parts, c.opts.hash_rate>>,
             cc |-> c.cc, D |-> DigestLen(c.hash), eb |-> EBase(c.field), ex |-> EBase(c.field) * c.opts.ext,
             ldelog |-> Log2(Lde(c)), fold |-> c.opts.fold, layers |-> FriLayers(c), rem |-> RemainderLen(c),
             queries |-> c.opts.queries]

\* the transcript-binding bound promised above: q draws from a domain of N positions reproduce a given
\* set of at most q positions with probability <= (q/N)^q <= 2^-(q * (log2 N - ceil(log2 q)))
CeilLog2(q) == CHOOSE k \in 0..8 : q <= 2 ^ k /\ (k = 0 \/ q > 2 ^ (k - 1))
Binding == \A i \in 1..Len(Cases) :
             Cases[i].opts.queries * (Log2(Lde(Cases[i])) - CeilLog2(Cases[i].opts.queries)) >= 40
=============================================================================
