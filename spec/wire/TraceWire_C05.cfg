SPECIFICATION Spec
CONSTANT Mode = "C05"
INVARIANT Progress
POSTCONDITION Accepted
CHECK_DEADLOCK FALSE
